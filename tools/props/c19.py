"""C19 — parameters stay inside their declared domain; clones are configuration-equal (DESIGN.md §4 C19)."""
import itertools, math, os, re, struct, sys
from fractions import Fraction

import vlib
from vlib import Toks, Broken, f2h, h2f

sys.path.insert(0, os.path.dirname(os.path.abspath(__file__)))
import _c19_translate as T
from _c19_translate import q, unq

ID = "C19"
LEVEL = "proof"
HARNESS = "c19"
LEAN_MODULES = ["NanoVerif.Props.C19"]
NS = "NanoVerif.Param."
OBLIGATIONS = [NS + t for t in [
    "check_sound", "updateRange_accepts_iff", "updatePair_accepts_iff", "updateEnum_accepts_iff",
    "construct_in_domain", "step_preserves_domain", "reachable_in_domain", "rejected_is_noop",
    "accepted_reads_back", "read_is_pure", "mismatched_read_throws", "mismatched_assign_throws",
    "unknown_name_throws", "duplicate_register_throws", "register_then_found", "config_preserves_domain",
    "defaults_in_domain", "defaults_constructible", "type_ids_match",
    # gap-closing round
    "rejected_is_noop_enum", "enum_out_of_domain_rejected", "rejected_is_noop_integer", "rejected_is_noop_scalar",
    "rejected_is_noop_integer_pair", "rejected_is_noop_scalar_pair", "rejected_is_noop_string", "enum_history_in_domain",
    "xstep_lowers", "xstep_preserves_domain", "xrejected_is_noop", "xconstruct_in_domain", "xreachable_in_domain",
    "readI32_exact", "readI32_exact_of_domain", "readU64_exact", "narrow_read_mismatch_throws",
    "fitsRead_i32_sound", "fitsRead_u64_sound", "reads_kinds_checked", "reads_fit_table", "library_reads_well_typed",
    "param_eq_self", "clone_configuration_equal", "clone_independent", "lookup_exact_name",
    "factory_add_spec", "factory_get_unknown", "factory_wf_preserved", "factory_get_is_clone", "factory_ids_spec",
    "factory_prototypes_untouched", "got_objects_independent",
]]
TRUSTED = [
    "Lean 4.33.0 kernel (core library only for this property; no Mathlib import)",
    "axioms: at most propext, Classical.choice, Quot.sound (audited per theorem on every run)",
    "tools/props/_c19_translate.py: the C++ -> Lean translation of check(LEorLT,…) and of the three update(name, param, value…) "
    "functions of src/parameter.cpp (Gen/ParamCheck.lean, regenerated on every run; the theorems are stated over it)",
    "harness/c19.cpp `factory dump` + the translation of its output into Gen/FactoryParams.lean (regenerated on every run)",
    "hand-written model NanoVerif/Model/Parameter.lean (dispatch of operator=/value<T>() on the stored alternative), "
    "ParamParse.lean (std::stoll/std::stod/split_pair), ParamFloat.lean (exact doubles, int64<->double casts as x86-64 does them), "
    "ParamNarrow.lean (the other arithmetic overloads, narrowing reads, converting constructors, operator==), Configurable.lean, "
    "Factory.lean (factory_t); tied to the code by the correspondence run (exact comparison of every answer and every state)",
    "tools/props/_c19_translate.py scan_reads (typed reads -> Gen/ParamReads.lean) and clone_report (class / member / clone() / copy "
    "operation scanner behind static_checks) with the reviewed allow-lists ALLOW_CLONE / ALLOW_COPY / ALLOW_MISSING / ALLOW_SHARED",
    "tools/props/c19.py generator + reference semantics; harness/c19.cpp; g++/libstdc++/glibc strtod",
]
ASSUMPTIONS = [
    "the write/read round trip is modelled as the identity on the stored alternative (the byte codec is C15's subject); the "
    "correspondence checks operator== after the round trip and that the stream is consumed",
    "static_cast<int64_t>(double) of NaN/inf/|x|>=2^63 is undefined behaviour in C++; the model follows x86-64 (cvttsd2si gives -2^63); "
    "the domain theorems hold for any conversion function, the reference semantics accepts either outcome",
    "the order in which g++ evaluates the two std::stoll/std::stod arguments of one call (right to left) only decides which "
    "exception is reported when both tokens of a pair are malformed",
    "'the clone behaves identically' is observed on fixed probe inputs only: loss, function, splitter, deterministic solver, lsearch0 "
    "(incl. clone of a used object), lsearchk (a fixed state, twice), tuner (tiny grid, fixed callback), weak learner (fit on a fixed "
    "80-sample dataset, predictions bit by bit, clone AFTER the fit), generator (fit + feature list); data sources are not loaded",
    "static_cast<int32_t>(double) / static_cast<float>(double) outside the target range are undefined in C++; the model follows "
    "x86-64 (cvttsd2si r32 -> -2^31, cvtsd2ss -> inf), the reference semantics accepts either outcome; value<uint64_t>() of a SCALAR "
    "parameter is not exercised (the library never does it: Gen/ParamReads.lean)",
    "std::regex is exercised with five pattern shapes over [a-z0-9-] fragments (.+, literal, prefix.*, .*suffix, .*infix.*)",
    "the typed reads of the library are found syntactically (`parameter(<expr ending in a string literal>).value<T>()`); a read the "
    "scanner cannot resolve fails the static check; 27 reads belong to objects no factory hands out (program solver, penalty / "
    "augmented-Lagrangian solvers, the linear data source) and are not in the table",
    "enumeration parameters are exercised through one enumeration declared in the harness (4 names, one with a blank)",
]
RULE = ("per kind x <=/< combination (4 integer, 4 scalar, 8 integer-pair, 8 scalar-pair specs, + enum, string, empty): every history "
        "of <= 2 operations over the full alphabet (bounds, bounds +- 1 / +- 1 ulp, NaN, +-inf, -0, 2^53+2, 1e19, numeric/garbage/"
        "overflowing strings, hex floats, pairs in/out of order, mismatched assignments, every typed read, write+read) and every "
        "history of <= 4 (quick) / <= 6 (thorough) operations over a core alphabet (each is a prefix of a generated line), random "
        "longer histories incl. extreme/empty/infinite/NaN domains; configurable_t histories (register/duplicate/lookup/config); every "
        "id of the 11 factories walked (type_id, defaults, clone equal, clone and second get() independent under modification, "
        "probe); a history is non-trivial when it contains an accepted and a rejected assignment; distinct by op text. Gap-closing "
        "round: `paramx` (domains exceeding int / float, make_* with mixed argument types, every arithmetic overload of operator=, "
        "narrowing reads, operator==), `config` names closed under prefixes / one-character extensions + copies, `fact` (a factory of "
        "our own: duplicate / unknown / prefix ids, ids(regex), descriptions, got objects modified and cloned, get() again), "
        "`factory idsre` on the 11 factories, `paramshow` (oracle-only monitor of operator<<), owner histories with near-miss enum "
        "names and unknown parameter names that are prefixes / extensions of registered ones, probe histories for lsearchk / tuner / "
        "weak learners (clone of a fitted learner)")
FLAVOUR = {"quick": "plain", "thorough": "asan"}
EXHAUSTIVE = {"quick": False, "thorough": False}
HARNESS_TIMEOUT = 1500

ENUM_NAMES = ["red", "green", "blue", "dark blue"]
I64MIN, I64MAX = -2 ** 63, 2 ** 63 - 1
INF, NAN = float("inf"), float("nan")
_ENTRIES = []       # the parsed `factory dump` of the current build (set by translate())


# ---------------------------------------------------------------------------------------------------------
# regenerated fragments

def _tier():
    a = sys.argv
    if "--tier" in a and a.index("--tier") + 1 < len(a):
        t = a[a.index("--tier") + 1]
        return t if t in ("quick", "thorough") else "quick"
    return os.environ.get("VERIF_TIER", "quick") if os.environ.get("VERIF_TIER") in ("quick", "thorough") else "quick"


def _dump():
    fl = FLAVOUR.get(_tier(), "plain")
    vlib.build_repo(fl)
    exe = vlib.build_harness(HARNESS, fl)
    aug, res, crash = vlib.run_harness(exe, ["factory dump"], timeout=300)
    if crash is not None or len(res) != 1:
        raise Broken("translate:FactoryParams", f"the factory dump crashed: {crash}")
    return T.parse_dump(res[0])


def translate():
    global _ENTRIES
    gen_dir = os.path.join(vlib.LEAN, "NanoVerif", "Gen")
    errors = []
    try:
        vlib.write_if_changed(os.path.join(gen_dir, "ParamCheck.lean"), T.paramcheck_text(vlib.REPO))
    except Broken as b:
        errors.append(b)
    try:
        _ENTRIES = _dump()
        vlib.write_if_changed(os.path.join(gen_dir, "FactoryParams.lean"), T.factoryparams_text(_ENTRIES))
    except Broken as b:
        errors.append(b)
    try:
        vlib.write_if_changed(os.path.join(gen_dir, "ParamReads.lean"), T.paramreads_text(vlib.REPO, _ENTRIES))
    except Broken as b:
        errors.append(b)
    if errors:
        raise Broken("; ".join(e.what for e in errors), "\n".join(f"{e.what}: {e.detail or e}" for e in errors))



# ---------------------------------------------------------------------------------------------------------
# static checks (every run): typed reads resolved; clonability of every class that implements clone()
#
# The scanner (tools/props/_c19_translate.py: clone_report) lists every class of include/ and src/ with its data members,
# its clone() body and its user-declared copy operations. The canonical form is
#       clone() { return std::make_unique<T>(*this); }      +      implicit / defaulted copy operations,
# for which "the clone has every member of its source" holds by the language. Everything else is listed here, reviewed by
# hand; a NEW non-canonical clone(), a NEW user-provided copy operation, a member a reviewed copy operation does not mention,
# or a NEW member through which a clone and its source share an object breaks the check with the class name.

# clone() bodies that are not `return std::make_unique<T>(*this);` — reviewed: (none on the unchanged tree)
ALLOW_CLONE = {
}

# user-provided copy constructors / copy assignments — reviewed: every one copies (clones) every data member and the bases
ALLOW_COPY = {
    "solver_t": "src/solver.cpp:49-57: bases copied, m_lsearch0 / m_lsearchk = clone() of the owned objects (unique_ptr), m_type copied",
    "params_t": "src/machine/params.cpp:21-41: m_logger copied, m_tuner / m_solver / m_splitter = clone() (unique_ptr); the same in operator=",
    "gboost_model_t": "src/gboost/model.cpp:233-251: learner_t(other) / learner_t::operator=, m_bias copied, m_wlearners / m_prototypes = wlearner::clone",
    "result_t": "src/gboost/result.cpp:22-44: non-owning pointers and tensors copied, m_wlearners = wlearner::clone",
    "functional_t": "src/function/constraint.cpp:244-256: m_function = clone() (unique_ptr)",
    "logger_t": "src/logger.cpp:115-129: a new impl_t on the same stream / path (pimpl in a unique_ptr)",
    "tensor_t": "include/nano/tensor/tensor.h: converting copy operations between storage kinds (C16's subject), the same-type copy is defaulted",
    "tensor_marray_storage_t": "include/nano/tensor/storage.h:228: assignment THROUGH a mapped array copies the elements, not the pointer (C16's subject)",
}

# members a reviewed copy operation does not mention, on purpose
ALLOW_MISSING = {
    ("tensor_marray_storage_t", "copy_assign: m_data"): "the mapped pointer stays, the elements are copied by copy(other)",
}

# members of classes copied along with a clonable object through which the copy and its source share an object (references,
# raw pointers, shared_ptr) — reviewed: all are non-owning references to objects that outlive both (datasets, iterators,
# losses, the wrapped function, the solver's current vectors), none is configuration
ALLOW_SHARED = {
    "augmented_lagrangian_function_t": ["m_lambda", "m_miu"],
    "base_dataset_iterator_t": ["m_dataset"],
    "bias_function_t": ["m_iterator", "m_loss"],
    "dataset_t": ["m_datasource"],
    "function_t": ["m_iterator", "m_loss"],
    "grads_function_t": ["m_iterator", "m_loss"],
    "interval_t": ["state0", "descent", "c"],
    "penalty_function_t": ["m_function"],
    "quadratic_surrogate_fit_t": ["m_loss"],
    "scale_function_t": ["m_iterator", "m_loss", "m_cluster", "m_soutputs", "m_woutputs"],
    "solver_pdsgm_t": ["m_x0"],
    "solver_state_t": ["m_function"],
}


def static_checks():
    out = []
    uses, unresolved = T.scan_reads(vlib.REPO)
    for u in unresolved:
        out.append(f"typed read of a parameter that the scanner cannot resolve to a parameter name: {u}")
    if len(uses) < 100:
        out.append(f"the scanner found only {len(uses)} typed reads of parameters (190 on the reviewed tree)")
    rep = T.clone_report(vlib.REPO)
    if len(rep["clonable"]) < 100:
        out.append(f"the scanner found only {len(rep['clonable'])} classes implementing clone() (105 on the reviewed tree)")
    out += rep["problems"]
    for cls, body in sorted(rep["noncanonical_clone"].items()):
        if cls not in ALLOW_CLONE:
            out.append(f"non-canonical clone(): {cls}::clone() is not `return std::make_unique<{cls}>(*this);` but `{body}`")
    for cls, whats in sorted(rep["user_copy"].items()):
        if cls not in ALLOW_COPY:
            out.append(f"user-provided copy operation not reviewed: {cls} ({', '.join(whats)})")
    for cls, lost in sorted(rep["missing"].items()):
        for m in lost:
            if (cls, m) not in ALLOW_MISSING:
                out.append(f"copy operation of {cls} does not copy: {m}")
    for cls, members in sorted(rep["suspicious"].items()):
        for ty, m in members:
            if m not in ALLOW_SHARED.get(cls, []):
                out.append(f"{cls}::{m} (`{ty}`) is shared between a copy and its source and is not reviewed")
    return out

# ---------------------------------------------------------------------------------------------------------
# wire format

def ulp_next(x):
    return math.nextafter(x, INF)


def ulp_prev(x):
    return math.nextafter(x, -INF)


def hx(x):
    return f2h(x)


class Spec:
    """what a parameter is built from; `toks` is its wire form"""
    def __init__(self, kind, **kw):
        self.kind = kind
        self.__dict__.update(kw)

    def wire(self):
        k = self.kind
        if getattr(self, "xwire", None):
            return self.xwire
        if k == "mono":
            return "mono"
        if k == "enum":
            return f"enum {q(self.value)} {len(ENUM_NAMES)} " + " ".join(q(n) for n in ENUM_NAMES)
        if k == "str":
            return f"str {q(self.value)}"
        if k == "int":
            return f"int {self.min} {self.mincomp} {self.value} {self.maxcomp} {self.max}"
        if k == "float":
            return f"float {hx(self.min)} {self.mincomp} {hx(self.value)} {self.maxcomp} {hx(self.max)}"
        if k == "ipair":
            return f"ipair {self.min} {self.mincomp} {self.value1} {self.valcomp} {self.value2} {self.maxcomp} {self.max}"
        return (f"fpair {hx(self.min)} {self.mincomp} {hx(self.value1)} {self.valcomp} {hx(self.value2)} "
                f"{self.maxcomp} {hx(self.max)}")

    def state(self):
        """the state a successfully constructed parameter starts in"""
        d = dict(self.__dict__)
        d.pop("xwire", None)
        if self.kind == "enum":
            d["domain"] = list(ENUM_NAMES)
        return d


def read_spec(t):
    k = t.s()
    if k == "mono":
        return Spec(k)
    if k == "enum":
        v = unq(t.s()); n = t.int(); dom = [unq(t.s()) for _ in range(n)]
        assert dom == ENUM_NAMES
        return Spec(k, value=v)
    if k == "str":
        return Spec(k, value=unq(t.s()))
    if k == "int":
        mn = t.int(); mc = t.s(); v = t.int(); xc = t.s(); mx = t.int()
        return Spec(k, min=mn, mincomp=mc, value=v, maxcomp=xc, max=mx)
    if k == "float":
        mn = t.f(); mc = t.s(); v = t.f(); xc = t.s(); mx = t.f()
        return Spec(k, min=mn, mincomp=mc, value=v, maxcomp=xc, max=mx)
    if k == "ipair":
        mn = t.int(); mc = t.s(); v1 = t.int(); vc = t.s(); v2 = t.int(); xc = t.s(); mx = t.int()
        return Spec(k, min=mn, mincomp=mc, value1=v1, valcomp=vc, value2=v2, maxcomp=xc, max=mx)
    if k == "fpair":
        mn = t.f(); mc = t.s(); v1 = t.f(); vc = t.s(); v2 = t.f(); xc = t.s(); mx = t.f()
        return Spec(k, min=mn, mincomp=mc, value1=v1, valcomp=vc, value2=v2, maxcomp=xc, max=mx)
    if k in ("xint", "xfloat", "xipair", "xfpair"):
        start = t.i - 1
        def num():
            tag = t.s()
            return t.int() if tag == "i" else t.f()
        isint = k in ("xint", "xipair")
        def conv(v):
            # static_cast to the parameter's kind BEFORE the parameter is constructed (parameter.h:312-331)
            if isint:
                if isinstance(v, int):
                    return v
                c = float_to_int(v)
                if c is UNDEF:
                    raise ValueError("undefined conversion in a generated spec")
                return c
            return float(v)
        if k in ("xint", "xfloat"):
            mn = num(); mc = t.s(); v = num(); xc = t.s(); mx = num()
            sp = Spec("int" if isint else "float", min=conv(mn), mincomp=mc, value=conv(v), maxcomp=xc, max=conv(mx))
        else:
            mn = num(); mc = t.s(); v1 = num(); vc = t.s(); v2 = num(); xc = t.s(); mx = num()
            sp = Spec("ipair" if isint else "fpair", min=conv(mn), mincomp=mc, value1=conv(v1), valcomp=vc, value2=conv(v2),
                      maxcomp=xc, max=conv(mx))
        sp.xwire = " ".join(t.t[start:t.i])
        return sp
    raise ValueError("spec kind " + k)


OP_ARITY = {"si": 1, "sf": 1, "spi": 2, "sp32": 2, "spf": 2, "ss": 1, "se": 1,
            "ri": 0, "rf": 0, "rpi": 0, "rpf": 0, "rs": 0, "re": 0, "wr": 0,
            "si32": 1, "su64": 1, "sb": 1, "sf32": 1, "ri32": 0, "ru64": 0, "rf32": 0, "rpi32": 0, "rpf32": 0}
ASSIGN = ("si", "sf", "spi", "sp32", "spf", "ss", "se", "si32", "su64", "sb", "sf32")


def read_op(t):
    """-> (kind, decoded args, wire tokens)"""
    k = t.s()
    if k == "eq":
        start = t.i
        same = t.int()
        other = read_spec(t)
        return k, [same, other], [k] + t.t[start:t.i]
    raw = [t.s() for _ in range(OP_ARITY[k])]
    if k in ("si", "si32", "su64", "sb"):
        args = [int(raw[0])]
    elif k in ("sf", "sf32"):
        args = [h2f(raw[0])]
    elif k in ("spi", "sp32"):
        args = [int(raw[0]), int(raw[1])]
    elif k == "spf":
        args = [h2f(raw[0]), h2f(raw[1])]
    elif k in ("ss", "se"):
        args = [unq(raw[0])]
    else:
        args = []
    return k, args, [k] + raw


def read_state(t):
    """state as printed by the harness -> dict with python values"""
    st = T.read_state(t)
    if st["kind"] == "float":
        for f in ("value", "min", "max"):
            st[f] = h2f(st[f])
    if st["kind"] == "fpair":
        for f in ("value1", "value2", "min", "max"):
            st[f] = h2f(st[f])
    return st


# ---------------------------------------------------------------------------------------------------------
# reference semantics, coded from the property statement (independent of the Lean model)

def same(a, b):
    """same value, doubles bit for bit"""
    if isinstance(a, float) or isinstance(b, float):
        return isinstance(a, float) and isinstance(b, float) and f2h(a) == f2h(b)
    return a == b


def finite(v):
    return not isinstance(v, float) or (v == v and v not in (INF, -INF))


def rel(c, a, b):
    return a <= b if c == "le" else a < b


def in_domain(st):
    k = st["kind"]
    if k in ("mono", "str"):
        return True
    if k == "enum":
        return st["value"] in st["domain"]
    if k in ("int", "float"):
        v = st["value"]
        return finite(v) and rel(st["mincomp"], st["min"], v) and rel(st["maxcomp"], v, st["max"])
    a, b = st["value1"], st["value2"]
    return (finite(a) and finite(b) and rel(st["mincomp"], st["min"], a) and rel(st["valcomp"], a, b)
            and rel(st["maxcomp"], b, st["max"]))


UNDEF = object()     # a conversion the C++ standard leaves undefined: either outcome is accepted
REJECT = object()    # the assignment must be rejected (malformed text, wrong type)

SPACE = " \t\n\x0b\x0c\r"
INT_RE = re.compile(r"[+-]?[0-9]+")
FLT_RE = re.compile(
    r"([+-]?)(?:(?P<inf>[iI][nN][fF](?:[iI][nN][iI][tT][yY])?)|(?P<nan>[nN][aA][nN](?:\([0-9A-Za-z_]*\))?)|"
    r"(?P<hex>0[xX](?:[0-9a-fA-F]+\.?[0-9a-fA-F]*|\.[0-9a-fA-F]+)(?:[pP][+-]?[0-9]+)?)|"
    r"(?P<dec>(?:[0-9]+\.?[0-9]*|\.[0-9]+)(?:[eE][+-]?[0-9]+)?))")


def text_to_int(s):
    m = INT_RE.match(s.lstrip(SPACE))
    if not m:
        return REJECT
    v = int(m.group(0))
    return v if I64MIN <= v <= I64MAX else REJECT


def exact_of(m):
    """the exact rational a numeric literal denotes"""
    if m.group("hex"):
        body = m.group("hex")[2:]
        exp = 0
        if "p" in body.lower():
            body, e = re.split("[pP]", body)
            exp = int(e)
        ip, _, fp = body.partition(".")
        mant = int((ip + fp) or "0", 16)
        return Fraction(mant) * Fraction(2) ** (exp - 4 * len(fp))
    body = m.group("dec")
    exp = 0
    if "e" in body.lower():
        body, e = re.split("[eE]", body)
        exp = int(e)
    ip, _, fp = body.partition(".")
    mant = int((ip + fp) or "0")
    if mant == 0:
        return Fraction(0)
    if abs(exp) > 5000:
        return Fraction(10) ** (5000 if exp > 0 else -5000)
    return Fraction(mant) * Fraction(10) ** (exp - len(fp))


def text_to_float(s):
    m = FLT_RE.match(s.lstrip(SPACE))
    if not m:
        return REJECT
    sign = -1.0 if m.group(1) == "-" else 1.0
    if m.group("inf"):
        return sign * INF
    if m.group("nan"):
        return NAN
    exact = exact_of(m)
    if exact == 0:
        return sign * 0.0
    if exact >= Fraction(2) ** 1024:
        return REJECT                      # not representable: the conversion reports a range error
    try:
        v = exact.numerator / exact.denominator     # correctly rounded true division of integers
    except OverflowError:
        return REJECT
    if v == INF:
        return REJECT
    if v < 2.0 ** -1022 and Fraction(v) != exact:
        return REJECT                      # underflow: range error as well
    return sign * v


def float_to_int(v):
    if v != v or v in (INF, -INF):
        return UNDEF
    i = math.trunc(v)
    return i if I64MIN <= i <= I64MAX else UNDEF


def split_pair(s):
    toks = [x for x in re.split(r"[;,:|/ ]", s) if x != ""]
    return (toks[0] if toks else "", toks[-1] if len(toks) > 1 else "")


def assigned(st, op, args):
    """the value(s) the assignment asks for, converted to the parameter's kind: a list of field updates,
    REJECT when the assignment cannot apply to this kind / the text is malformed, UNDEF when the conversion is undefined"""
    k = st["kind"]
    isint = k in ("int", "ipair")
    def num(v, src):
        if isint:
            return v if src == "i" else float_to_int(v)
        return float(v) if src == "i" else v
    if op in ("si32", "sb"):
        op = "si"                                  # integral types go through static_cast<int64_t>
    if op == "su64":
        op, args = "si", [args[0] - 2 ** 64 if args[0] >= 2 ** 63 else args[0]]
    if op == "sf32":
        op = "sf"                                  # float widens exactly
    if op == "si" or op == "sf":
        if k not in ("int", "float"):
            return REJECT
        v = num(args[0], "i" if op == "si" else "f")
        return UNDEF if v is UNDEF else {"value": v}
    if op in ("spi", "sp32", "spf"):
        if k not in ("ipair", "fpair"):
            return REJECT
        a, b = (num(x, "f" if op == "spf" else "i") for x in args)
        return UNDEF if (a is UNDEF or b is UNDEF) else {"value1": a, "value2": b}
    if op == "se":
        return {"value": args[0]} if k == "enum" else REJECT
    if op == "ss":
        s = args[0]
        if k == "mono":
            return REJECT
        if k in ("enum", "str"):
            return {"value": s}
        conv = text_to_int if isint else text_to_float
        if k in ("int", "float"):
            v = conv(s)
            return REJECT if v is REJECT else {"value": v}
        s1, s2 = split_pair(s)
        a, b = conv(s1), conv(s2)
        return REJECT if (a is REJECT or b is REJECT) else {"value1": a, "value2": b}
    raise ValueError(op)


def ref_step(st, op, args):
    """-> (state afterwards | None when it cannot be predicted, expectation)
    expectation: ('ok', [values…]) | ('throw',) | ('any',)"""
    k = st["kind"]
    if op in ASSIGN:
        upd = assigned(st, op, args)
        if upd is REJECT:
            return st, ("throw",)
        if upd is UNDEF:
            return None, ("any",)
        new = dict(st); new.update(upd)
        if in_domain(new):
            return new, ("ok", [])
        return st, ("throw",)
    if op == "ri":
        if k == "int":
            return st, ("ok", [st["value"]])
        if k == "float":
            v = float_to_int(st["value"])
            return st, (("any",) if v is UNDEF else ("ok", [v]))
        return st, ("throw",)
    if op == "rf":
        if k in ("int", "float"):
            return st, ("ok", [float(st["value"])])
        return st, ("throw",)
    if op == "rpi":
        if k == "ipair":
            return st, ("ok", [st["value1"], st["value2"]])
        if k == "fpair":
            a, b = float_to_int(st["value1"]), float_to_int(st["value2"])
            return st, (("any",) if (a is UNDEF or b is UNDEF) else ("ok", [a, b]))
        return st, ("throw",)
    if op == "rpf":
        if k in ("ipair", "fpair"):
            return st, ("ok", [float(st["value1"]), float(st["value2"])])
        return st, ("throw",)
    if op == "rs":
        return st, (("ok", [st["value"]]) if k == "str" else ("throw",))
    if op == "re":
        return st, (("ok", [st["value"]]) if k == "enum" else ("throw",))
    if op == "wr":
        return st, ("ok", [1, 1])
    # narrowing reads: static_cast<T>(stored value); integer -> integer is modular, the rest is exact when it fits
    if op == "ri32":
        if k == "int":
            return st, ("ok", [wrap32(st["value"])])
        if k == "float":
            return st, narrow_f_i32([st["value"]])
        return st, ("throw",)
    if op == "ru64":
        if k == "int":
            return st, ("ok", [st["value"] % 2 ** 64])
        if k == "float":
            return st, ("na",)
        return st, ("throw",)
    if op == "rf32":
        if k == "int":
            return st, ("ok", [int_to_f32(st["value"])])
        if k == "float":
            return st, narrow_f_f32([st["value"]])
        return st, ("throw",)
    if op == "rpi32":
        if k == "ipair":
            return st, ("ok", [wrap32(st["value1"]), wrap32(st["value2"])])
        if k == "fpair":
            return st, narrow_f_i32([st["value1"], st["value2"]])
        return st, ("throw",)
    if op == "rpf32":
        if k == "ipair":
            return st, ("ok", [int_to_f32(st["value1"]), int_to_f32(st["value2"])])
        if k == "fpair":
            return st, narrow_f_f32([st["value1"], st["value2"]])
        return st, ("throw",)
    if op == "eq":
        same, other = args
        o = other.state()
        if not in_domain(o):
            return st, ("noother",)
        return st, ("ok", [1 if (same == 1 and equal_params(st, o)) else 0])
    raise ValueError(op)


def wrap32(v):
    r = v % 2 ** 32
    return r - 2 ** 32 if r >= 2 ** 31 else r


def int_to_f32(n):
    """static_cast<float>(int64_t): ONE rounding to 24 significant bits (ties to even)"""
    if n == 0:
        return 0.0
    neg, a = n < 0, abs(n)
    bits = a.bit_length()
    if bits > 24:
        sh = bits - 24
        q, rem, half = a >> sh, a & ((1 << sh) - 1), 1 << (sh - 1)
        if rem > half or (rem == half and (q & 1)):
            q += 1
        a = q << sh
    return -float(a) if neg else float(a)


def narrow_f_i32(vals):
    out = []
    for v in vals:
        if v != v or v in (INF, -INF) or not (-2 ** 31 <= math.trunc(v) < 2 ** 31):
            return ("any",)                         # undefined in C++
        out.append(math.trunc(v))
    return ("ok", out)


def narrow_f_f32(vals):
    out = []
    for v in vals:
        try:
            out.append(struct.unpack("f", struct.pack("f", v))[0])
        except OverflowError:
            return ("any",)                         # outside the range of float: undefined in C++
    return ("ok", out)


def equal_params(a, b):
    """operator==: the same alternative, values and bounds compared with ==, the same comparators"""
    if a["kind"] != b["kind"]:
        return False
    return all(k in b and a[k] == b[k] for k in a) and set(a) == set(b)


def same_state(a, b):
    if a["kind"] != b["kind"]:
        return False
    keys = set(a) | set(b)
    return all(k in a and k in b and (a[k] == b[k] if isinstance(a[k], (str, list)) else same(a[k], b[k])) for k in keys)


def same_domain(a, b):
    """same kind, bounds, comparators (the value may differ)"""
    if a["kind"] != b["kind"]:
        return False
    return all(same(a[k], b[k]) if not isinstance(a[k], (str, list)) else a[k] == b[k]
               for k in a if k not in ("value", "value1", "value2"))


def read_answer(t, op, k):
    """the values an `ok` answer carries, as python values"""
    if op in ("ri", "ri32", "ru64", "eq"):
        return [t.int()]
    if op in ("rf", "rf32"):
        return [t.f()]
    if op in ("rpi", "rpi32"):
        return [t.int(), t.int()]
    if op in ("rpf", "rpf32"):
        return [t.f(), t.f()]
    if op in ("rs", "re"):
        return [unq(t.s())]
    if op == "wr":
        return [t.int(), t.int()]
    return []


def check_answer(t, op, expect):
    """consumes one answer (`ok …` / `throw kind`) from t; returns (threw, why-or-None)"""
    w = t.s()
    if w == "throw":
        t.s()
        if expect[0] in ("ok", "na", "noother"):
            return True, f"[spurious-throw] `{op}` threw although the property requires it to succeed"
        return True, None
    if w in ("na", "noother"):
        return False, (None if expect[0] == w else f"[answer] `{op}` answered {w}")
    if expect[0] in ("na", "noother"):
        return False, f"[answer] `{op}` answered {w} where {expect[0]} is expected"
    if w != "ok":
        return False, f"[answer] unreadable answer `{w}`"
    got = read_answer(t, op, None)
    if expect[0] == "throw":
        return False, f"[missing-throw] `{op}` was accepted although the property requires a throw"
    if expect[0] == "ok" and op not in ASSIGN:
        if len(got) != len(expect[1]) or not all(same(g, e) for g, e in zip(got, expect[1])):
            return False, f"[read-back] `{op}` returned {got}, the reference value is {expect[1]}"
    return False, None


def oracle_param(t, r):
    spec = read_spec(t)
    n = t.int()
    ops = [read_op(t) for _ in range(n)]
    st0 = spec.state()
    first = r.s()
    if first == "throw":
        r.s()
        if in_domain(st0):
            return "[ctor-spurious-throw] construction with a default inside the domain threw"
        return None
    if first != "ok":
        return f"[answer] implementation did not answer ok/throw: {first}"
    got = read_state(r)
    if not in_domain(st0):
        return "[ctor-missing-throw] a parameter whose default is outside its domain was constructed"
    if not same_state(got, st0):
        return f"[ctor-state] constructed parameter {got} differs from its specification {st0}"
    cur = st0          # reference state (None = unknown after an undefined conversion)
    prev = got         # the implementation's previous state
    for (op, args, _) in ops:
        if r.s() != ";":
            return "[answer] malformed history answer"
        if cur is not None:
            new, expect = ref_step(cur, op, args)
        else:
            new, expect = None, ("any",)
        threw, why = check_answer(r, op, expect)
        if why:
            return why
        if r.s() != "/":
            return "[answer] malformed history answer"
        got = read_state(r)
        # the statement, directly on what the implementation reports
        if not same_domain(got, st0):
            return f"[domain-changed] kind/bounds/comparators changed: {got}"
        if not in_domain(got):
            return f"[out-of-domain] stored value outside the declared domain after `{op}`: {got}"
        if threw and not same_state(got, prev):
            return f"[rejected-not-noop] `{op}` threw but the stored value changed: {prev} -> {got}"
        if op not in ASSIGN and not same_state(got, prev):
            return f"[read-mutates] `{op}` changed the stored value: {prev} -> {got}"
        if new is not None and not same_state(got, new):
            return f"[read-back] after `{op}` the parameter holds {got}, the reference semantics says {new}"
        cur = new if new is not None else got
        prev = got
    return None if r.done() else "[answer] trailing tokens"


def fmt_g(v):
    """what `std::ostream << v` prints with the default flags: `%g` for doubles, decimal for integers"""
    if isinstance(v, int):
        return str(v)
    return "%g" % v


def shown_of(st, name="p"):
    """(value, domain, whole parameter) as src/parameter.cpp:202-247, 436-465 prints them"""
    k = st["kind"]
    cn = lambda c: "<=" if c == "le" else "<"
    if k == "mono":
        v, d = "N/A", "N/A"
        name = ""
    elif k == "enum":
        v, d = st["value"], ",".join(st["domain"])
    elif k == "str":
        v, d = st["value"], ".*"
    elif k in ("int", "float"):
        v = fmt_g(st["value"])
        d = f"{fmt_g(st['min'])} {cn(st['mincomp'])} {v} {cn(st['maxcomp'])} {fmt_g(st['max'])}"
    else:
        v1, v2 = fmt_g(st["value1"]), fmt_g(st["value2"])
        v = f"({v1},{v2})"
        d = f"{fmt_g(st['min'])} {cn(st['mincomp'])} {v1} {cn(st['valcomp'])} {v2} {cn(st['maxcomp'])} {fmt_g(st['max'])}"
    return v, d, f"{name}={v}|domain=[{d}]"


def oracle_paramshow(t, r):
    """run-time monitor of value() / domain() / operator<< (outside the Lean model): after every operation the printed texts
    are those of the state the implementation reports"""
    read_spec(t)
    first = r.s()
    if first == "throw":
        return None
    def one():
        st = read_state(r)
        if r.s() != "@":
            return "[answer] malformed show answer"
        got = (unq(r.s()), unq(r.s()), unq(r.s()))
        exp = shown_of(st)
        if got != exp:
            return f"[show] operator<< printed {got} for {st}; expected {exp}"
        return None
    w = one()
    if w:
        return w
    while not r.done():
        if r.s() != ";":
            return "[answer] malformed history answer"
        while r.s() != "/":
            pass
        w = one()
        if w:
            return w
    return None


def oracle_config(t, r):
    n = t.int()
    if r.s() != "ok":
        return "[answer] implementation did not answer ok"
    params = []      # [(name, state | None)]
    def find(name):
        for i, (nm, _) in enumerate(params):
            if nm == name:
                return i
        return None
    for _ in range(n):
        cop = t.s(); name = unq(t.s())
        if r.s() != ";":
            return "[answer] malformed history answer"
        if cop == "reg":
            spec = read_spec(t)
            st = spec.state()
            expect_ok = in_domain(st) and find(name) is None
            w = r.s()
            if w == "throw":
                r.s()
                if expect_ok:
                    return f"[register-spurious-throw] registering the new parameter `{name}` threw"
            elif w == "ok":
                if find(name) is not None:
                    return f"[duplicate-register] a second parameter called `{name}` was registered"
                if not in_domain(st):
                    return "[ctor-missing-throw] a parameter whose default is outside its domain was registered"
                params.append((name, st))
            else:
                return "[answer] malformed answer"
        elif cop == "has":
            w = r.s(); v = r.s()
            if w != "ok" or v != ("1" if find(name) is not None else "0"):
                return f"[lookup] parameter_if(`{name}`) answered {w} {v} (exact names only: a prefix / an extension is unknown)"
        elif cop == "copy":
            w = r.s(); v = r.s()
            if w != "ok" or v != "1":
                return f"[copy-differs] a copy of the configurable object does not have its parameters: {w} {v}"
        else:
            op, args, _ = read_op(t)
            i = find(name)
            if i is None:
                w = r.s()
                if w != "throw":
                    return f"[unknown-name] the unknown name `{name}` did not throw"
                r.s()
                continue
            st = params[i][1]
            if st is None:
                new, expect = None, ("any",)
            else:
                new, expect = ref_step(st, op, args)
            if cop == "cfg":
                w = r.s()
                threw = w == "throw"
                if threw:
                    r.s()
                if expect[0] == "ok" and threw:
                    return f"[spurious-throw] config(`{name}`) threw although the value is inside the domain"
                if expect[0] == "throw" and not threw:
                    return f"[missing-throw] config(`{name}`) accepted a value outside the domain"
            else:
                threw, why = check_answer(r, op, expect)
                if why:
                    return why
            params[i] = (name, new)
    if r.s() != ";" or r.s() != "state":
        return "[answer] malformed history answer"
    k = r.int()
    if k != len(params):
        return f"[registered] {k} parameters registered, the reference semantics has {len(params)}"
    for (name, st) in params:
        nm = unq(r.s()); got = read_state(r)
        if nm != name:
            return f"[registered] parameter `{nm}` where `{name}` was registered"
        if not in_domain(got):
            return f"[out-of-domain] `{name}` is outside its declared domain: {got}"
        if st is not None and not same_state(got, st):
            return f"[read-back] `{name}` holds {got}, the reference semantics says {st}"
    return None if r.done() else "[answer] trailing tokens"


def oracle_factory(t, r):
    what = t.s()
    if what == "dump":
        return None
    f = t.s()
    if r.s() != "ok":
        return f"[factory-throws] the factory `{f}` did not answer: {' '.join(r.t[:3])}"
    if what == "ids":
        n = r.int()
        ids = []
        for _ in range(n):
            ids.append(unq(r.s()))
            if r.s() != "1":
                return f"[ids] has(`{ids[-1]}`) is false for a listed id"
        if r.s() != "0":
            return "[ids] an unregistered id is reported as present"
        if len(set(ids)) != len(ids) or (n == 0):
            return "[ids] duplicated or missing ids"
        return None
    if what == "idsre":
        kind = t.s(); frag = unq(t.s())
        n = r.int()
        got = [unq(r.s()) for _ in range(n)]
        known = [e[1] for e in _ENTRIES if e[0] == f]
        if _ENTRIES:
            rx = re.compile(regex_text(kind, frag))
            exp = [i for i in known if rx.fullmatch(i)]
            if got != exp:
                return f"[ids] ids(`{regex_text(kind, frag)}`) of `{f}` answered {got}, the registered ids that match are {exp}"
        return None if r.done() else "[answer] trailing tokens"
    id_ = unq(t.s())
    mask = t.int()
    if r.t[r.i:r.i + 1] == ["missing"]:
        r.s()
        # get() of an id that was never registered returns null; the generator names such ids `no-such-…`
        return None if id_.startswith("no-such-") and r.done() else f"[missing-id] the factory `{f}` has no object `{id_}`"
    tree = read_tree(r)
    ty, params, kids = tree
    if ty != id_:
        return f"[type-id] `{f}`/`{id_}` reports type_id `{ty}`"
    bad = tree_out_of_domain(tree)
    if bad:
        return f"[default-out-of-domain] `{f}`/`{id_}` {bad[0]} parameter `{bad[1]}` has its default outside the domain: {bad[2]}"
    n = len(params)
    if len({p[0] for p in params}) != len(params):
        return f"[duplicate-register] `{f}`/`{id_}` has two parameters with one name"
    # the configuration the original is given before it is cloned
    if r.s() != "pre" or r.int() != n:
        return f"[answer] `{f}`/`{id_}`: malformed answer (pre)"
    pre = []
    for k, (name, st) in enumerate(params):
        nm = unq(r.s()); got = conv_state(T.read_state(r))
        if nm != name or not same_domain(got, conv_state(st)):
            return f"[domain-changed] `{f}`/`{id_}` parameter `{nm}` changed its kind/bounds/comparators when assigned"
        if not in_domain(got):
            return f"[out-of-domain] `{f}`/`{id_}` parameter `{name}` left its domain: {got}"
        if not (mask >> (k % 62)) & 1 and not same_state(got, conv_state(st)):
            return f"[clone-not-independent] `{f}`/`{id_}` parameter `{name}` changed although it was not assigned"
        pre.append((name, got))
    if r.s() != "cloneeq" or r.s() != "1":
        return (f"[clone-differs] the clone of `{f}`/`{id_}` (configured with mask {mask}) does not have equal "
                "parameters / type_id / owned objects")
    if r.s() != "probe" or r.s() not in ("1", "-1"):
        return f"[clone-behaves-differently] the clone of `{f}`/`{id_}` answers the probe input differently"
    if r.s() != "origsame" or r.s() != "1":
        return f"[clone-not-independent] modifying the clone (or a second object) of `{f}`/`{id_}` changed the original/prototype"
    if r.s() != "reclone" or r.s() != "1":
        return f"[clone-differs] the clone of a modified `{f}`/`{id_}` does not carry the modified parameters"
    if r.s() != "clone" or r.int() != n:
        return f"[clone-differs] the clone of `{f}`/`{id_}` has a different number of parameters"
    for (name, st) in pre:
        nm = unq(r.s()); got = read_state(r)
        if nm != name or not same_domain(got, st):
            return f"[clone-differs] clone parameter `{nm}` does not match `{name}`"
        if not in_domain(got):
            return f"[out-of-domain] clone parameter `{name}` left its domain: {got}"
    return None if r.done() else "[answer] trailing tokens"


def regex_text(kind, frag):
    return {"any": ".+", "lit": frag, "pre": frag + ".*", "suf": ".*" + frag, "sub": ".*" + frag + ".*"}[kind]


def oracle_fact(t, r):
    """factory_t on a factory of our own, from its documentation: add returns false for a duplicate id and changes nothing; get
    returns null for an unknown id and otherwise a NEW object equal to the prototype (never the prototype: modifying a got
    object changes neither what get hands out later nor any other got object); ids(regex) = the registered ids the regex
    matches entirely, in registration order; description of an unknown id is empty"""
    n = t.int()
    if r.s() != "ok":
        return "[answer] implementation did not answer ok"
    protos = []          # [(id, default, descr)] in registration order
    vars_ = []           # [(id, value)]
    def find(i):
        for p in protos:
            if p[0] == i:
                return p
        return None
    def tree(i, v):
        return (i, [("p", {"kind": "int", "value": v, "min": 0, "max": 10, "mincomp": "le", "maxcomp": "le"})], [])
    for _ in range(n):
        k = t.s()
        if r.s() != ";":
            return "[answer] malformed history answer"
        w = r.s()
        if k == "add":
            i = unq(t.s()); v = t.int(); d = unq(t.s())
            if not 0 <= v <= 10:
                if w != "throw":
                    return "[ctor-missing-throw] a prototype whose default is outside its domain was constructed"
                r.s()
            else:
                if w != "ok":
                    return f"[factory-add] add(`{i}`) answered {w}"
                flag = r.int()
                if flag != (0 if find(i) else 1):
                    return f"[factory-add] add(`{i}`) returned {flag} with {[p[0] for p in protos]} registered (exact ids)"
                if not find(i):
                    protos.append((i, v, d))
        elif k == "has":
            i = unq(t.s())
            if w != "ok" or r.int() != (1 if find(i) else 0):
                return f"[factory-has] has(`{i}`) is wrong with {[p[0] for p in protos]} registered (exact ids)"
        elif k == "size":
            if w != "ok" or r.int() != len(protos):
                return f"[factory-size] size() is wrong with {len(protos)} registered"
        elif k == "desc":
            i = unq(t.s())
            p = find(i)
            if w != "ok" or unq(r.s()) != (p[2] if p else ""):
                return f"[factory-description] description(`{i}`) is wrong"
        elif k == "get":
            i = unq(t.s())
            p = find(i)
            if p is None:
                if w != "null":
                    return f"[factory-get] get of the unknown id `{i}` did not return null"
            else:
                if w != "ok":
                    return f"[factory-get] get(`{i}`) returned null although the id is registered"
                got = read_tree(r)
                if got != tree(i, p[1]):
                    return f"[prototype-modified] get(`{i}`) handed out {got}, the prototype was registered as {tree(i, p[1])}"
                vars_.append((i, p[1]))
        elif k == "ids":
            kind = t.s(); frag = unq(t.s())
            if w != "ok":
                return "[answer] ids answered " + w
            got = [unq(r.s()) for _ in range(r.int())]
            rx = re.compile(regex_text(kind, frag))
            exp = [p[0] for p in protos if rx.fullmatch(p[0])]
            if got != exp:
                return f"[ids] ids(`{regex_text(kind, frag)}`) answered {got}, the registered ids that match are {exp}"
        elif k == "setp":
            v = t.int(); name = unq(t.s()); op, args, _ = read_op(t)
            if name != "p":
                if w != "throw":
                    return f"[unknown-name] the unknown name `{name}` did not throw"
                r.s()
            else:
                st = tree(*vars_[v])[1][0][1]
                new, expect = ref_step(st, op, args)
                if w == "throw":
                    r.s()
                    if expect[0] == "ok":
                        return "[spurious-throw] an assignment inside the domain threw"
                else:
                    if expect[0] == "throw":
                        return "[missing-throw] an assignment outside the domain was accepted"
                    if new is not None:
                        vars_[v] = (vars_[v][0], new["value"])
        elif k == "clonev":
            v = t.int()
            if w != "ok" or read_tree(r) != tree(*vars_[v]):
                return f"[clone-differs] the clone of variable {v} differs from it"
            vars_.append(vars_[v])
        else:
            return "unknown factory op " + k
        if r.s() != "/":
            return "[answer] malformed history answer"
        if r.int() != len(vars_):
            return "[answer] wrong number of variables"
        for j, (i, v) in enumerate(vars_):
            got = read_tree(r)
            if got != tree(i, v):
                return f"[clone-not-independent] after `{k}` variable {j} holds {got}, the reference semantics says {tree(i, v)}"
        if r.int() != len(protos):
            return f"[factory-size] {len(protos)} ids are registered, the factory lists another number"
        for (i, v, d) in protos:
            gi = unq(r.s()); got = read_tree(r)
            if gi != i or got != tree(i, v):
                return f"[prototype-modified] after `{k}` get(`{i}`) hands out {got}, the prototype was registered as {tree(i, v)}"
    return None if r.done() else "[answer] trailing tokens"


# ---------------------------------------------------------------------------------------------------------
# objects that own other objects: configuration trees (type_id, [(name, raw state)], [(child, tree)]); raw states carry
# doubles as their 16 hex digits, so `==` on trees is bit-for-bit equality

def read_tree(t):
    return T.read_tree(t)


def conv_state(raw):
    st = dict(raw)
    if st["kind"] == "float":
        for f in ("value", "min", "max"):
            st[f] = h2f(st[f])
    if st["kind"] == "fpair":
        for f in ("value1", "value2", "min", "max"):
            st[f] = h2f(st[f])
    return st


def raw_state(st):
    raw = dict(st)
    if st["kind"] == "float":
        for f in ("value", "min", "max"):
            raw[f] = f2h(st[f])
    if st["kind"] == "fpair":
        for f in ("value1", "value2", "min", "max"):
            raw[f] = f2h(st[f])
    return raw


def tree_out_of_domain(tree, path="own"):
    """(where, name, state) of the first parameter of the tree that is outside its declared domain"""
    ty, params, kids = tree
    for name, raw in params:
        if not in_domain(conv_state(raw)):
            return (path, name, conv_state(raw))
    for child, k in kids:
        bad = tree_out_of_domain(k, (path + "/" if path != "own" else "") + child)
        if bad:
            return bad
    return None


def tree_diff(a, b, path=""):
    """where two configuration trees differ first (None when they are equal)"""
    if a[0] != b[0]:
        return f"{path or 'the object'}: type_id `{a[0]}` vs `{b[0]}`"
    if [n for n, _ in a[1]] != [n for n, _ in b[1]]:
        return f"{path or 'the object'}: different parameter names"
    for (n, x), (_, y) in zip(a[1], b[1]):
        if x != y:
            return f"{path + '/' if path else ''}{n}: {show_raw(x)} vs {show_raw(y)}"
    if [c for c, _ in a[2]] != [c for c, _ in b[2]]:
        return f"{path or 'the object'}: owned objects {[c for c, _ in a[2]]} vs {[c for c, _ in b[2]]}"
    for (c, x), (_, y) in zip(a[2], b[2]):
        d = tree_diff(x, y, (path + "/" if path else "") + c)
        if d:
            return d
    return None


def show_raw(raw):
    st = conv_state(raw)
    if "value" in st:
        return repr(st["value"])
    if "value1" in st:
        return repr((st["value1"], st["value2"]))
    return st["kind"]


CHILD_KIND = {("solver", "lsearch0"): "lsearch0", ("solver", "lsearchk"): "lsearchk",
              ("params", "tuner"): "tuner", ("params", "solver"): "solver", ("params", "splitter"): "splitter"}
OWNER_KINDS = ["solver", "lsearch0", "lsearchk", "tuner", "splitter", "wlearner", "params", "gboost"]


def child_kind(kind, child):
    if kind == "gboost" and re.fullmatch(r"proto[0-9]+", child):
        return "wlearner"
    return CHILD_KIND.get((kind, child))


def default_tree(entries, kind, id_):
    """what the factory of `kind` hands out for `id_` according to the dump of the current build (None: unknown id)"""
    for k, tree in getattr(entries, "owners", []):
        if k == kind and id_ == kind:
            return tree
    for e in entries:
        if e[0] == kind and e[1] == id_:
            kids = []
            for (child, cf, cid) in getattr(e, "kids", []):
                kids.append((child, default_tree(entries, cf, cid)))
            return (e[2], [(n, st) for n, st in e[3]], kids)
    return None


def with_kid(tree, child, kid):
    return (tree[0], tree[1], [(c, kid if c == child else k) for c, k in tree[2]])


def kid_of(tree, child):
    for c, k in tree[2]:
        if c == child:
            return k
    return None


def read_oop(t):
    """-> (kind, args…) of one operation of an owner history, and its wire text"""
    start = t.i
    k = t.s()
    if k == "new":
        o = (k, t.s(), unq(t.s()))
    elif k == "set":
        v = t.int(); name = unq(t.s()); op, args, _ = read_op(t)
        o = (k, v, name, op, args)
    elif k == "inst":
        o = (k, t.int(), t.s(), t.int())
    elif k == "instid":
        o = (k, t.int(), t.s(), unq(t.s()))
    elif k == "protos":
        v = t.int(); n = t.int()
        o = (k, v, [t.int() for _ in range(n)])
    elif k == "ext":
        o = (k, t.int(), t.s())
    elif k == "clone":
        o = (k, t.int())
    elif k in ("assign", "probe"):
        o = (k, t.int(), t.int())
    else:
        raise ValueError("owner op " + k)
    return o, " ".join(t.t[start:t.i])


def read_slots(r):
    n = r.int()
    return [(r.s(), read_tree(r)) for _ in range(n)]


def oracle_owner(t, r):
    """the statement, step by step, on the configuration trees the implementation prints after every operation:
    a copy (clone / copy construction / assignment / what a setter stores / what an extracted object is) equals its source
    in type_id, parameters and owned objects, recursively; an operation changes nothing but the variable it is applied to
    (independence of clone and original, in both directions); an assignment to a parameter follows the reference
    semantics of the parameter; equal configuration trees answer the probe identically; every parameter of every object
    is inside its domain"""
    n = t.int()
    oops = [read_oop(t)[0] for _ in range(n)]
    if r.s() != "ok":
        return "[answer] implementation did not answer ok"
    prev = []
    entries = _ENTRIES
    for o in oops:
        k = o[0]
        if r.s() != ";":
            return "[answer] malformed history answer"
        w = r.s()
        threw = w == "throw"
        if threw:
            r.s()
        answer = r.int() if w == "probe" else None
        if r.s() != "/":
            return "[answer] malformed history answer"
        cur = read_slots(r)
        what = " ".join(str(x) for x in o[:4])
        for i, (kind, tree) in enumerate(cur):
            bad = tree_out_of_domain(tree)
            if bad:
                return f"[out-of-domain] after `{what}` variable {i} ({kind}): {bad[0]} parameter `{bad[1]}` is outside its domain: {bad[2]}"
        creates = k in ("new", "ext", "clone") and w == "ok"
        target = o[1] if k in ("set", "inst", "instid", "protos", "assign") and not threw else None
        if len(cur) != len(prev) + (1 if creates else 0):
            return f"[answer] `{what}`: {len(prev)} variables before, {len(cur)} after"
        # independence: nothing but the variable the operation is applied to changes
        for i in range(len(prev)):
            if i != target and cur[i] != prev[i]:
                d = tree_diff(prev[i][1], cur[i][1])
                return (f"[clone-not-independent] `{what}` changed variable {i} ({prev[i][0]}), which it is not applied to: {d}"
                        if not threw else f"[rejected-not-noop] `{what}` threw but variable {i} changed: {d}")
        if k == "new":
            exp = default_tree(entries, o[1], o[2]) if entries else None
            if w == "missing":
                if entries and exp is not None:
                    return f"[missing-id] the factory `{o[1]}` has no object `{o[2]}`"
            elif w != "ok":
                return f"[answer] `{what}` answered {w}"
            else:
                kind, tree = cur[-1]
                if kind != o[1] or tree[0] != o[2]:
                    return f"[type-id] `{o[1]}`/`{o[2]}` reports type_id `{tree[0]}`"
                if exp is not None and tree != exp:
                    return f"[clone-differs] two objects got from `{o[1]}`/`{o[2]}` differ: {tree_diff(exp, tree)}"
        elif k == "clone":
            if w != "ok":
                return f"[answer] `{what}` answered {w}"
            if cur[-1][0] != prev[o[1]][0]:
                return f"[answer] `{what}`: the copy is a {cur[-1][0]}"
            d = tree_diff(prev[o[1]][1], cur[-1][1])
            if d:
                return f"[clone-differs] the clone of variable {o[1]} ({prev[o[1]][0]} `{prev[o[1]][1][0]}`) differs from it: {d}"
        elif k == "assign":
            d = tree_diff(prev[o[2]][1], cur[o[1]][1])
            if w != "ok" or d:
                return f"[clone-differs] after `{what}` the assigned {prev[o[1]][0]} differs from its source: {d or w}"
        elif k == "ext":
            src = kid_of(prev[o[1]][1], o[2])
            if w != "ok" or src is None or cur[-1][0] != child_kind(prev[o[1]][0], o[2]):
                return f"[answer] `{what}` answered {w}"
            d = tree_diff(src, cur[-1][1])
            if d:
                return f"[clone-differs] the clone of the {o[2]} owned by variable {o[1]} differs from it: {d}"
        elif k == "inst":
            exp = with_kid(prev[o[1]][1], o[2], prev[o[3]][1])
            d = tree_diff(exp, cur[o[1]][1])
            if w != "ok" or d:
                return f"[install-differs] after `{what}` the owner does not hold a copy of the installed object: {d or w}"
        elif k == "instid":
            ck = child_kind(prev[o[1]][0], o[2])
            fresh = default_tree(entries, ck, o[3]) if entries else None
            if entries and fresh is None:
                if not threw:
                    return f"[missing-throw] `{what}`: the unknown id was accepted"
            else:
                if threw:
                    return f"[spurious-throw] `{what}` threw although the id is registered"
                if w != "ok" or cur[o[1]][1][0:2] != prev[o[1]][1][0:2] or (kid_of(cur[o[1]][1], o[2]) or ("",))[0] != o[3]:
                    return f"[install-differs] after `{what}` the owner does not hold a `{o[3]}`"
                if fresh is not None:
                    d = tree_diff(with_kid(prev[o[1]][1], o[2], fresh), cur[o[1]][1])
                    if d:
                        return f"[install-differs] after `{what}` the owned object is not what the factory hands out: {d}"
        elif k == "protos":
            old = prev[o[1]][1]
            exp = (old[0], old[1], [(f"proto{j}", prev[s][1]) for j, s in enumerate(o[2])])
            d = tree_diff(exp, cur[o[1]][1])
            if w != "ok" or d:
                return f"[install-differs] after `{what}` the model does not hold copies of the prototypes: {d or w}"
        elif k == "set":
            v, name, op, args = o[1:]
            old = prev[v][1]
            names = [nm for nm, _ in old[1]]
            if name not in names:
                if not threw:
                    return f"[unknown-name] `{what}`: the unknown name did not throw"
            else:
                j = names.index(name)
                st = conv_state(old[1][j][1])
                new, expect = ref_step(st, op, args)
                if expect[0] == "ok" and threw:
                    return f"[spurious-throw] `{what}` threw although the property requires it to succeed"
                if expect[0] == "throw" and not threw:
                    return f"[missing-throw] `{what}` was accepted although the property requires a throw"
                if new is not None and not threw:
                    exp = (old[0], [(nm, raw_state(new) if jj == j else raw) for jj, (nm, raw) in enumerate(old[1])], old[2])
                    d = tree_diff(exp, cur[v][1])
                    if d:
                        return f"[read-back] after `{what}`: {d} (reference vs implementation)"
        elif k == "probe":
            if answer not in (-1, 0, 1):
                return f"[answer] `{what}` answered {answer}"
            if answer == 0 and prev[o[1]] == prev[o[2]]:
                return (f"[clone-behaves-differently] variables {o[1]} and {o[2]} ({prev[o[1]][0]} `{prev[o[1]][1][0]}`) have equal "
                        "type_id, parameters and owned objects but answer the probe input differently")
        prev = cur
    return None if r.done() else "[answer] trailing tokens"


def oracle(op, res):
    t = Toks(op); r = Toks(res)
    fam = t.s()
    if res.startswith("bad-op"):
        return "[bad-op] the harness rejected the line: " + res[:120]
    if fam == "factory":
        return oracle_factory(t, r)
    t.s()
    if fam in ("param", "paramx"):
        return oracle_param(t, r)
    if fam == "paramshow":
        return oracle_paramshow(t, r)
    if fam == "fact":
        return oracle_fact(t, r)
    if fam == "config":
        return oracle_config(t, r)
    if fam == "owner":
        return oracle_owner(t, r)
    return f"unknown family {fam}"


# ---------------------------------------------------------------------------------------------------------
# generator

COMBOS2 = list(itertools.product(("le", "lt"), repeat=2))
COMBOS3 = list(itertools.product(("le", "lt"), repeat=3))


def main_specs():
    out = []
    for mc, xc in COMBOS2:
        out.append(Spec("int", min=-2, mincomp=mc, value=1, maxcomp=xc, max=5))
    for mc, xc in COMBOS2:
        out.append(Spec("float", min=-1.0, mincomp=mc, value=0.5, maxcomp=xc, max=2.5))
    for mc, vc, xc in COMBOS3:
        out.append(Spec("ipair", min=-2, mincomp=mc, value1=0, valcomp=vc, value2=3, maxcomp=xc, max=5))
    for mc, vc, xc in COMBOS3:
        out.append(Spec("fpair", min=-1.0, mincomp=mc, value1=0.25, valcomp=vc, value2=1.5, maxcomp=xc, max=2.5))
    out.append(Spec("enum", value="green"))
    out.append(Spec("str", value="abc"))
    out.append(Spec("mono"))
    return out


READS = ["ri", "rf", "rpi", "rpf", "rs", "re", "wr"]


def S(s):
    return "ss " + q(s)


_ALPHA = {}


def alphabet(spec):
    """(full alphabet, core alphabet) of op texts for a spec"""
    w = spec.wire()
    if w not in _ALPHA:
        _ALPHA[w] = alphabet_(spec)
    return _ALPHA[w]


def alphabet_(spec):
    k = spec.kind
    if k == "int":
        mn, mx = spec.min, spec.max
        full = [f"si {v}" for v in (mn - 1, mn, mn + 1, 0, mx - 1, mx, mx + 1, I64MAX, I64MIN)]
        full += ["sf " + hx(v) for v in (float(mn), ulp_prev(float(mn)), ulp_next(float(mn)), float(mx), ulp_prev(float(mx)),
                                         ulp_next(float(mx)), 0.5, -0.0, NAN, INF, -INF, 9007199254740994.0, 1e19, -1e19)]
        full += [S(s) for s in ("3", " 4", "+5", str(mn), str(mx + 1), "abc", "", "3x", "0x10", "99999999999999999999",
                                "-99999999999999999999", "1e1", "2.9", "-", "inf", "\t-1", "+-1", "00000000000000000000001")]
        full += ["spi 1 2", "spf " + hx(0.5) + " " + hx(1.5), "se " + q("red")] + READS
        core = [f"si {mn}", f"si {mx}", "si 0", f"si {mx + 1}", "sf " + hx(NAN), S("3x"), S("abc"), "ri", "wr"]
        return full, core
    if k == "float":
        mn, mx = spec.min, spec.max
        full = ["sf " + hx(v) for v in (mn, ulp_prev(mn), ulp_next(mn), mx, ulp_prev(mx), ulp_next(mx), 0.5, -0.0, 0.0, NAN,
                                        INF, -INF, 1e308, 5e-324, -5e-324)]
        full += [f"si {v}" for v in (-2, -1, 0, 2, 3, 9007199254740993, I64MIN)]
        full += [S(s) for s in ("0.5", "-1", "-1.0000000000000002", "-0.99999999999999989", "2.5", "2.5000000000000004",
                                "2.4999999999999996", ".5", "5.", "1e0", "1e", "1e400", "1e-400", "1e-320", "0x1p-1", "0x", "0x.8",
                                "0x1.8p0", "0X1P+1", "inf", "-inf", "nan", "NAN(1)", "abc", "", " 1 ", "1,2", "+.e1", "-0",
                                "Infinity", "infinit", "1e+0x", "1.5e-1", "1e99999999999999999999", "0e99999999999999999999",
                                "1e-99999999999999999999", "2.2250738585072011e-308", "4.9e-324", "2e-324",
                                "0.1", "100000000000000000000000e-23", ".", "-.", "0x1p-1080", "1.7976931348623157e308",
                                "1.7976931348623159e308", "\t\n 2")]
        full += ["spi 1 2", "spf " + hx(0.5) + " " + hx(1.5), "se " + q("red")] + READS
        core = ["sf " + hx(mn), "sf " + hx(mx), "sf " + hx(0.25), "sf " + hx(ulp_next(mx)), "sf " + hx(NAN), S("1e0"), S("x"),
                "rf", "wr"]
        return full, core
    if k == "ipair":
        mn, mx = spec.min, spec.max
        pairs = [(mn, mn), (mn, mx), (0, 3), (3, 0), (3, 3), (mn - 1, 0), (0, mx + 1), (mx, mx), (mn, mn + 1), (mx - 1, mx),
                 (I64MIN, I64MAX)]
        full = [f"spi {a} {b}" for a, b in pairs] + ["sp32 1 2", "sp32 2 1", "sp32 -2147483648 2147483647"]
        full += [f"spf {hx(a)} {hx(b)}" for a, b in ((0.5, 1.5), (float(mn), ulp_prev(float(mx))), (NAN, 1.0), (1.0, INF),
                                                     (ulp_next(float(mn)), float(mx)), (mn - 0.5, mx + 0.9), (-0.0, 0.0),
                                                     (1e19, 1.0), (1.0, 1e19))]
        full += [S(s) for s in ("1,2", "1;2", "2,1", "1", "", "1,2,3", "a,2", "1,b", "a,99999999999999999999",
                                "99999999999999999999,b", " 1  2 ", "1:2|3/4", f"{mn},{mx}", f"{mn - 1},{mx}", f"{mn},{mx + 1}",
                                "1,1", ",;", "1.5,2.5", "1,2x", "1\t2", "+1,-0", "a,b", "99999999999999999999,1")]
        full += ["si 1", "sf " + hx(0.5), "se " + q("red")] + READS
        core = [f"spi {mn} {mx}", "spi 1 1", "spi 1 2", "spi 3 0", f"spi {mn} {mx + 1}", S("1,b"), S("2;4"), "rpi", "wr"]
        return full, core
    if k == "fpair":
        mn, mx = spec.min, spec.max
        pairs = [(mn, mn), (mn, mx), (0.25, 1.5), (1.5, 0.25), (0.5, 0.5), (ulp_prev(mn), 0.0), (0.0, ulp_next(mx)), (mx, mx),
                 (ulp_next(mn), ulp_prev(mx)), (NAN, 1.0), (1.0, NAN), (-INF, 1.0), (1.0, INF), (-0.0, 0.0), (0.0, -0.0),
                 (0.5, ulp_next(0.5)), (ulp_next(0.5), 0.5)]
        full = [f"spf {hx(a)} {hx(b)}" for a, b in pairs]
        full += ["spi 0 1", "spi 1 0", "spi -1 2", "spi -2 1", "spi 1 3", "sp32 1 2", "spi 2 2"]
        full += [S(s) for s in ("0.5,1.5", "1.5;0.5", "1", "", "0.1,0.2,0.3", "a,2", "1,b", "a,1e400", "1e400,b", " .5  1. ",
                                "-1,2.5", "-1.0000000000000002,2.5", "-1,2.5000000000000004", "1,1", ",;", "nan,1", "0,inf",
                                "-inf,inf", "0x1p-1,0x1p0", "1e0:2e0|7/1.25", "1e-320,1", "1,1e-320", "-0,0", "a,b", "1e400,1")]
        full += ["si 1", "sf " + hx(0.5), "se " + q("red")] + READS
        core = [f"spf {hx(mn)} {hx(mx)}", f"spf {hx(1.0)} {hx(1.0)}", f"spf {hx(0.5)} {hx(2.0)}", f"spf {hx(2.0)} {hx(0.5)}",
                f"spf {hx(mn)} {hx(ulp_next(mx))}", S("1,b"), S(".5;2"), "rpf", "wr"]
        return full, core
    if k == "enum":
        full = [S(s) for s in ("red", "green", "blue", "dark blue", "pink", "", "Red", "redx", "dark", "dark  blue", " red", "gree",
                               "greenn", "GREEN", "re")]
        full += ["se " + q(n) for n in ENUM_NAMES] + ["si 1", "sf " + hx(0.5), "spi 1 2", "spf " + hx(0.5) + " " + hx(1.5)] + READS
        core = [S("red"), S("dark blue"), S("pink"), "se " + q("blue"), S(""), "si 0", "re", "rs", "wr"]
        return full, core
    if k == "str":
        full = [S(s) for s in ("", "abc", "a b", "%41", "x'y", "1", "red", "\t", "z" * 40)]
        full += ["se " + q("red"), "si 1", "sf " + hx(0.5), "spi 1 2", "spf " + hx(0.5) + " " + hx(1.5)] + READS
        core = [S(""), S("a b"), S("%"), "si 1", "se " + q("red"), "rs", "ri", "re", "wr"]
        return full, core
    full = [S("x"), S(""), "se " + q("red"), "si 1", "sf " + hx(0.5), "spi 1 2", "spf " + hx(0.5) + " " + hx(1.5)] + READS
    return full, full[:9]


def tame(spec):
    if spec.kind in ("enum", "str", "mono"):
        return True
    return all(finite(b) and abs(b) < 2 ** 62 for b in (spec.min, spec.max))


def alphabet_for(spec):
    """the alphabet is written relative to the bounds; wild bounds borrow the alphabet of the first spec of the kind"""
    if tame(spec):
        return alphabet(spec)
    return alphabet([s for s in main_specs() if s.kind == spec.kind][0])


def extra_specs(rng):
    """domains at the edges: extreme, empty, single point, infinite, NaN bounds, defaults outside the domain"""
    big = 9007199254740992.0
    out = [
        Spec("int", min=I64MIN, mincomp="le", value=0, maxcomp="le", max=I64MAX),
        Spec("int", min=I64MIN, mincomp="lt", value=I64MIN + 1, maxcomp="lt", max=I64MAX),
        Spec("int", min=0, mincomp="lt", value=1, maxcomp="lt", max=1),
        Spec("int", min=3, mincomp="le", value=3, maxcomp="le", max=3),
        Spec("int", min=3, mincomp="lt", value=3, maxcomp="le", max=3),
        Spec("int", min=5, mincomp="le", value=2, maxcomp="le", max=1),
        Spec("int", min=-2, mincomp="le", value=6, maxcomp="le", max=5),
        Spec("int", min=9007199254740991, mincomp="le", value=9007199254740993, maxcomp="lt", max=9007199254740995),
        Spec("float", min=-INF, mincomp="lt", value=0.0, maxcomp="lt", max=INF),
        Spec("float", min=-INF, mincomp="le", value=0.0, maxcomp="le", max=INF),
        Spec("float", min=0.0, mincomp="lt", value=5e-324, maxcomp="le", max=1e-300),
        Spec("float", min=1.5, mincomp="le", value=1.5, maxcomp="le", max=1.5),
        Spec("float", min=1.5, mincomp="le", value=1.5, maxcomp="lt", max=1.5),
        Spec("float", min=-0.0, mincomp="le", value=0.0, maxcomp="le", max=0.0),
        Spec("float", min=NAN, mincomp="le", value=0.0, maxcomp="le", max=1.0),
        Spec("float", min=0.0, mincomp="le", value=NAN, maxcomp="le", max=1.0),
        Spec("float", min=0.0, mincomp="le", value=INF, maxcomp="le", max=INF),
        Spec("float", min=big, mincomp="le", value=big + 2, maxcomp="lt", max=big + 4),
        Spec("float", min=-1e308, mincomp="lt", value=1e308, maxcomp="le", max=1.7976931348623157e308),
        Spec("float", min=-1.0, mincomp="le", value=3.0, maxcomp="le", max=2.5),
        Spec("ipair", min=0, mincomp="le", value1=0, valcomp="lt", value2=0, maxcomp="le", max=10),
        Spec("ipair", min=0, mincomp="lt", value1=1, valcomp="lt", value2=2, maxcomp="lt", max=3),
        Spec("ipair", min=I64MIN, mincomp="le", value1=I64MIN, valcomp="le", value2=I64MAX, maxcomp="le", max=I64MAX),
        Spec("ipair", min=0, mincomp="le", value1=7, valcomp="le", value2=3, maxcomp="le", max=10),
        Spec("fpair", min=0.0, mincomp="lt", value1=0.1, valcomp="lt", value2=0.5, maxcomp="le", max=0.5),
        Spec("fpair", min=-INF, mincomp="lt", value1=-1e20, valcomp="lt", value2=1e20, maxcomp="lt", max=INF),
        Spec("fpair", min=0.0, mincomp="le", value1=0.0, valcomp="le", value2=-0.0, maxcomp="le", max=0.0),
        Spec("fpair", min=0.0, mincomp="le", value1=NAN, valcomp="le", value2=1.0, maxcomp="le", max=2.0),
        Spec("fpair", min=0.0, mincomp="le", value1=1.5, valcomp="lt", value2=1.5, maxcomp="le", max=2.0),
        Spec("enum", value="dark blue"),
        Spec("str", value=""),
        Spec("str", value="a b%c"),
    ]
    return out


def near(rng, spec):
    """a random value at / next to a bound of the spec (python number of the spec's kind)"""
    if spec.kind in ("int", "ipair"):
        b = rng.choice([spec.min, spec.max, 0])
        return max(I64MIN, min(I64MAX, b + rng.range(-2, 2)))
    b = rng.choice([spec.min, spec.max, 0.0, 1.0])
    if b != b or b in (INF, -INF):
        return rng.choice([b, 0.0, 1e300, -1e300])
    for _ in range(rng.range(0, 2)):
        b = ulp_next(b) if rng.chance(0.5) else ulp_prev(b)
    return b


def fmt_num(rng, v):
    """a numeric text for v in one of several spellings"""
    if isinstance(v, int):
        return rng.choice([str(v), " " + str(v), ("+" if v >= 0 else "") + str(v), str(v) + "x", str(v) + ".7"])
    r = repr(v)
    return rng.choice([r, " " + r, r + "e0" if "e" not in r and "n" not in r else r, r + "#", float.hex(v) if v == v and abs(v) != INF else r])


def random_op(rng, spec, full):
    u = rng.unit()
    if u < 0.45 or spec.kind in ("enum", "str", "mono"):
        return rng.choice(full)
    k = spec.kind
    if k in ("int", "float"):
        v = near(rng, spec)
        c = rng.below(3)
        if c == 0:
            return f"si {v if isinstance(v, int) else max(I64MIN, min(I64MAX, int(v) if finite(v) else 0))}"
        if c == 1:
            return "sf " + hx(float(v))
        return S(fmt_num(rng, v))
    a, b = near(rng, spec), near(rng, spec)
    c = rng.below(3)
    if c == 0:
        f = lambda v: v if isinstance(v, int) else max(I64MIN, min(I64MAX, int(v) if finite(v) else 0))
        return f"spi {f(a)} {f(b)}"
    if c == 1:
        return f"spf {hx(float(a))} {hx(float(b))}"
    return S(fmt_num(rng, a) + rng.choice([",", ";", " , ", ":", "|", "/", "  "]) + fmt_num(rng, b))


def hist(spec, ops):
    return f"param hist {spec.wire()} {len(ops)} " + " ".join(ops) if ops else f"param hist {spec.wire()} 0"


_ACCEPT = {}


def accepts(spec, optext):
    """True / False for an assignment the reference semantics accepts / rejects, None for reads and undefined conversions"""
    key = (spec.wire(), optext)
    if key not in _ACCEPT:
        op, args, _ = read_op(Toks(optext))
        if op not in ASSIGN:
            _ACCEPT[key] = None
        else:
            st = spec.state()
            if not in_domain(st):
                _ACCEPT[key] = None
            else:
                _, e = ref_step(st, op, args)
                _ACCEPT[key] = True if e[0] == "ok" else (False if e[0] == "throw" else None)
    return _ACCEPT[key]


def corpus():
    cp = os.path.join(vlib.VERIF, "corpus", "C19", "ops.txt")
    if os.path.exists(cp):
        return [l.strip() for l in open(cp) if l.strip() and not l.startswith("#")]
    return []


FCANDS = [0.5, 1.0, 0.25, 2.0, 0.0, 1e-3, 10.0, 1e3, -1.0, 1e-8, 0.75, 0.9, 3.0, 100.0, 1e6, -1e-3, 1e-12, 0.1, 7.0]
ICANDS = [1, 2, 3, 0, 5, 10, 7, 100, 1000, -1, 50, 20, 31, 64]


def factory_ops(rng, entries, nvariants):
    """variant 0: the factory-fresh object; the others: a random subset of the parameters is given another value of its
    domain before the clone is taken (bit k % 62 of the mask <-> parameter k)"""
    ops = [f"factory ids {f}" for f in T.FACTORIES]
    for e in entries:
        f, id_ = e[0], e[1]
        for v in range(nvariants):
            ic = ICANDS if v <= 1 else rng.shuffle(ICANDS)[:rng.range(2, 8)] + [rng.range(-3, 2000)]
            fc = FCANDS if v <= 1 else rng.shuffle(FCANDS)[:rng.range(2, 8)] + [rng.uniform(-1.0, 3.0), NAN]
            mask = 0 if v == 0 else (rng.u64() >> 2) | (1 << rng.below(max(1, min(62, len(e[3])))))
            if v == 1 and rng.chance(0.3):
                mask = (1 << 62) - 1
            ops.append(f"factory walk {f} {q(id_)} {mask} {len(ic)} " + " ".join(str(i) for i in ic) + f" {len(fc)} " +
                       " ".join(hx(x) for x in fc))
    ops.append("factory walk solver " + q("no-such-solver") + " 0 0 0")
    return ops


# --- histories over objects that own other objects --------------------------------------------------------

def assign_text(rng, name, raw, inside=True):
    """an assignment (wire text) that gives the parameter another value of its domain (inside) / a value outside of it;
    None when there is no such value"""
    st = conv_state(raw)
    k = st["kind"]
    def ok(new):
        d = dict(st); d.update(new)
        return in_domain(d) == inside and (not inside or not same_state(d, st))
    if k == "enum":
        if not inside:
            d = rng.choice(st["domain"])
            near = [c for c in (d[:-1], d + "x", d.upper(), " " + d, d + " ", "", "no-such-name") if c not in st["domain"]]
            return "ss " + q(rng.choice(near))
        other = [d for d in st["domain"] if d != st["value"]]
        return "ss " + q(rng.choice(other)) if other else None
    if k == "str":
        return "ss " + q(st["value"] + rng.choice(["x", " y", "%"])) if inside else None
    if k == "int":
        mn, mx, v = st["min"], st["max"], st["value"]
        cands = [mn, mn + 1, mx, mx - 1, v + 1, v - 1, v + 7, v // 2, 1, 2, 3, 5, 10, 20, 50, 100, rng.range(mn, min(mx, mn + 2000))]
        if name == "solver::max_evals":
            cands = [10, 11, 20, 50, 100, 150, 200, 300, rng.range(10, 300)]      # the probe minimises with this budget
        if name == "lsearchk::max_iterations" and inside and rng.chance(0.6):
            cands = [1, 2, 3, 4]                                                     # the line-search configuration matters
        if not inside:
            cands = [mn - 1, mx + 1, mn - 100, mx + 100] + ([mn] if st["mincomp"] == "lt" else []) + ([mx] if st["maxcomp"] == "lt" else [])
        cands = [c for c in cands if I64MIN <= c <= I64MAX and ok({"value": c})]
        if not cands:
            return None
        c = rng.choice(cands)
        return rng.choice([f"si {c}", f"si {c}", "sf " + hx(float(c)) if abs(c) < 2 ** 52 else f"si {c}", "ss " + q(str(c))])
    if k == "float":
        mn, mx, v = st["min"], st["max"], st["value"]
        lo = mn if finite(mn) else -1e6
        hi = mx if finite(mx) else 1e6
        cands = [mn, mx, ulp_next(lo), ulp_prev(hi), v * 0.5, v * 2.0, 0.5 * (lo + v), 0.5 * (v + hi), ulp_next(v), ulp_prev(v),
                 rng.uniform(lo, hi), 0.1, 0.25, 0.4, 0.9, 1.5, 2.0, 1e-3]
        if not inside:
            cands = [ulp_prev(lo), ulp_next(hi), lo - 1.0, hi + 1.0, NAN, INF, -INF, mn, mx]
        cands = [c for c in cands if ok({"value": c})]
        if not cands:
            return None
        c = rng.choice(cands)
        return rng.choice(["sf " + hx(c), "sf " + hx(c), "ss " + q(repr(c))]) if finite(c) else "sf " + hx(c)
    if k in ("ipair", "fpair"):
        mn, mx, a, b = st["min"], st["max"], st["value1"], st["value2"]
        if k == "ipair":
            vals = sorted({mn, mn + 1, a, a + 1, b, b - 1, mx - 1, mx, rng.range(mn, min(mx, mn + 1000))})
        else:
            lo = mn if finite(mn) else -1e6
            hi = mx if finite(mx) else 1e6
            vals = sorted({lo, ulp_next(lo), 0.5 * (lo + a), a, 0.5 * (a + b), b, 0.5 * (b + hi), ulp_prev(hi), hi, rng.uniform(lo, hi)})
        pairs = [(x, y) for x in vals for y in vals]
        if not inside:
            pairs = [(y, x) for (x, y) in pairs if x < y] + [(mn - 1, b), (a, mx + 1)]
        pairs = [(x, y) for (x, y) in pairs if ok({"value1": x, "value2": y})]
        if not pairs:
            return None
        x, y = rng.choice(pairs)
        if k == "ipair":
            return rng.choice([f"spi {x} {y}", "ss " + q(f"{x},{y}")])
        return rng.choice([f"spf {hx(x)} {hx(y)}", f"spf {hx(x)} {hx(y)}", "ss " + q(f"{x!r};{y!r}")])
    return None


class OwnerHist:
    """builds one `owner hist` line; keeps what every variable holds (kind + configuration tree, by value: the value
    semantics the property demands) so that later operations can refer to existing parameters and owned objects"""
    def __init__(self, rng, entries):
        self.rng, self.entries, self.ops, self.vars = rng, entries, [], []

    def ids(self, kind):
        if kind in ("params", "gboost"):
            return [kind]
        return [e[1] for e in self.entries if e[0] == kind]

    def new(self, kind, id_=None):
        id_ = id_ if id_ is not None else self.rng.choice(self.ids(kind))
        self.ops.append(f"new {kind} {q(id_)}")
        tree = default_tree(self.entries, kind, id_)
        if tree is None:
            return None
        self.vars.append((kind, tree))
        return len(self.vars) - 1

    def set(self, v, count=1, inside=True, name=None):
        """`count` assignments to randomly chosen parameters of variable v"""
        kind, tree = self.vars[v]
        for _ in range(count):
            if not tree[1]:
                return
            names = [n for n, _ in tree[1]]
            # lsearchk::tolerance / lsearch0::epsilon are overwritten by the solver at minimize(): they are assigned too, but
            # a parameter that the probe can see is preferred
            nm = name or self.rng.choice(names)
            if name is None and self.rng.chance(0.08):
                # a name that is NOT registered but is a prefix / an extension of a registered one: must throw, nothing changes
                bad = self.rng.choice([nm[:-1], nm[:max(1, len(nm) // 2)], nm + "x", nm + ":", nm.upper(), ""])
                if bad not in names:
                    self.ops.append(f"set {v} {q(bad)} " + self.rng.choice(["si 1", "sf " + hx(0.5), "ss " + q("1")]))
                    continue
            j = names.index(nm)
            text = assign_text(self.rng, nm, tree[1][j][1], inside)
            if text is None:
                continue
            self.ops.append(f"set {v} {q(nm)} {text}")
            op, args, _ = read_op(Toks(text))
            new, expect = ref_step(conv_state(tree[1][j][1]), op, args)
            if expect[0] == "ok" and new is not None:
                tree = (tree[0], [(n, raw_state(new) if jj == j else r) for jj, (n, r) in enumerate(tree[1])], tree[2])
                self.vars[v] = (kind, tree)

    def set_to(self, v, name, text):
        """one assignment of the given wire text (e.g. `si 0`) to parameter `name` of variable v (no-op if v has no such parameter)"""
        kind, tree = self.vars[v]
        names = [n for n, _ in tree[1]]
        if name not in names:
            return False
        j = names.index(name)
        self.ops.append(f"set {v} {q(name)} {text}")
        op, args, _ = read_op(Toks(text))
        new, expect = ref_step(conv_state(tree[1][j][1]), op, args)
        if expect[0] == "ok" and new is not None:
            tree = (tree[0], [(n, raw_state(new) if jj == j else r) for jj, (n, r) in enumerate(tree[1])], tree[2])
            self.vars[v] = (kind, tree)
        return True

    def inst(self, d, child, s):
        self.ops.append(f"inst {d} {child} {s}")
        self.vars[d] = (self.vars[d][0], with_kid(self.vars[d][1], child, self.vars[s][1]))

    def instid(self, d, child, id_):
        self.ops.append(f"instid {d} {child} {q(id_)}")
        fresh = default_tree(self.entries, child_kind(self.vars[d][0], child), id_)
        if fresh is not None:
            self.vars[d] = (self.vars[d][0], with_kid(self.vars[d][1], child, fresh))

    def protos(self, d, srcs):
        self.ops.append(f"protos {d} {len(srcs)} " + " ".join(str(x) for x in srcs) if srcs else f"protos {d} 0")
        old = self.vars[d][1]
        self.vars[d] = (self.vars[d][0], (old[0], old[1], [(f"proto{j}", self.vars[x][1]) for j, x in enumerate(srcs)]))

    def ext(self, v, child):
        self.ops.append(f"ext {v} {child}")
        self.vars.append((child_kind(self.vars[v][0], child), kid_of(self.vars[v][1], child)))
        return len(self.vars) - 1

    def clone(self, v):
        self.ops.append(f"clone {v}")
        self.vars.append(self.vars[v])
        return len(self.vars) - 1

    def assign(self, d, s):
        self.ops.append(f"assign {d} {s}")
        self.vars[d] = self.vars[s]

    def probe(self, a, b):
        self.ops.append(f"probe {a} {b}")

    def configured(self, kind, id_=None, count=None):
        """a new object of `kind` with some parameters away from their defaults"""
        v = self.new(kind, id_)
        n = len(self.vars[v][1][1])
        self.set(v, count if count is not None else self.rng.range(1, max(1, min(3, n))))
        if kind == "lsearchk" and self.rng.chance(0.7):
            self.set(v, 1, name="lsearchk::max_iterations")
        if self.rng.chance(0.15):
            self.set(v, 1, inside=False)
        return v

    def change_owned(self, v, child):
        """the only way the public interface offers to change an owned object: take a copy, change it, install it"""
        w = self.ext(v, child)
        self.set(w, self.rng.range(1, 2))
        self.inst(v, child, w)
        return w

    def line(self):
        return f"owner hist {len(self.ops)} " + " ".join(self.ops)


def solver_hist(rng, entries, sid, variant):
    h = OwnerHist(rng, entries)
    s = h.new("solver", sid)
    if variant == 0:
        # the sequence of seeded change C19-a3: configure a line-search away from its defaults, install it, clone
        k = h.configured("lsearchk")
        h.inst(s, "lsearchk", k)
        h.set(s, 1, name="solver::max_evals")
        c = h.clone(s)
        h.probe(s, c)
        h.change_owned(c, "lsearchk")          # the clone's owned object changes: the original must not
        h.probe(s, c)
        cc = h.clone(c)                        # the clone of the clone carries the clone's configuration
        h.probe(c, cc)
    elif variant == 1:
        z = h.configured("lsearch0")
        h.inst(s, "lsearch0", z)
        h.set(s, rng.range(0, 2))
        c = h.clone(s)
        h.probe(s, c)
        h.change_owned(s, rng.choice(["lsearch0", "lsearchk"]))     # the original's owned object changes: the clone must not
        h.set(s, 1)
        h.probe(s, c)
        h.instid(c, rng.choice(["lsearch0", "lsearchk"]), rng.choice(h.ids("lsearch0") + h.ids("lsearchk") + ["no-such-id"]))
        h.clone(s)
    else:
        k = h.configured("lsearchk")
        z = h.configured("lsearch0")
        h.inst(s, "lsearchk", k)
        h.inst(s, "lsearch0", z)
        h.set(s, rng.range(1, 3))
        h.set(k, 1)                            # the installed object is a copy: changing the source changes nothing
        c = h.clone(s)
        cc = h.clone(c)
        h.probe(s, cc)
        e = h.ext(cc, "lsearchk")
        h.set(e, 1)
        h.probe(c, cc)
    return h.line()


def params_hist(rng, entries):
    h = OwnerHist(rng, entries)
    p = h.new("params")
    s = h.configured("solver")
    if rng.chance(0.8):
        k = h.configured("lsearchk")
        h.inst(s, "lsearchk", k)
    if rng.chance(0.4):
        z = h.configured("lsearch0")
        h.inst(s, "lsearch0", z)
    h.set(s, 1, name="solver::max_evals")
    h.inst(p, "solver", s)
    if rng.chance(0.6):
        h.inst(p, "splitter", h.configured("splitter"))
    if rng.chance(0.6):
        h.inst(p, "tuner", h.configured("tuner"))
    c = h.clone(p)
    h.probe(p, c)
    u = rng.below(4)
    if u == 0:
        q2 = h.new("params")
        h.assign(q2, p)
        h.probe(p, q2)
        h.change_owned(q2, rng.choice(["solver", "splitter", "tuner"]))
        h.probe(p, q2)
    elif u == 1:
        h.change_owned(p, rng.choice(["solver", "splitter", "tuner"]))
        h.probe(p, c)
        h.assign(p, c)
        h.probe(p, c)
    elif u == 2:
        e = h.ext(c, "solver")
        h.change_owned(e, "lsearchk")
        h.inst(c, "solver", e)
        cc = h.clone(c)
        h.probe(c, cc)
        h.probe(p, cc)
    else:
        h.instid(c, rng.choice(["solver", "splitter", "tuner"]),
                 rng.choice(h.ids("solver") + h.ids("splitter") + h.ids("tuner") + ["no-such-id"]))
        h.assign(c, c)
        h.clone(c)
    return h.line()


def gboost_hist(rng, entries):
    h = OwnerHist(rng, entries)
    g = h.new("gboost")
    ws = [h.configured("wlearner") for _ in range(rng.range(1, 3))]
    h.set(g, rng.range(0, 3))
    h.protos(g, [rng.choice(ws) for _ in range(rng.range(1, 4))])
    h.set(ws[0], 1)
    c = h.clone(g)
    u = rng.below(3)
    if u == 0:
        g2 = h.new("gboost")
        h.assign(g2, g)
        h.protos(g2, [])
        h.set(g2, 1)
        h.clone(g2)
    elif u == 1:
        e = h.ext(c, "proto0")
        h.set(e, 2)
        h.protos(c, [e] + ws)
        h.assign(g, c)
        h.set(c, 1)
    else:
        h.set(c, 2)
        h.set(g, 1, inside=False)
        h.clone(c)
        h.assign(c, g)
    return h.line()


def random_hist(rng, entries):
    h = OwnerHist(rng, entries)
    for _ in range(rng.range(2, 4)):
        h.new(rng.choice(["solver", "solver", "lsearchk", "lsearch0", "params", "splitter", "tuner"]))
    for _ in range(rng.range(3, 9)):
        v = rng.below(len(h.vars))
        kind = h.vars[v][0]
        u = rng.unit()
        same = [i for i, (k, _) in enumerate(h.vars) if k == kind]
        if u < 0.25 and kind != "params":
            h.set(v, 1, inside=rng.chance(0.85))
        elif u < 0.45 and len(h.vars) < 9:
            h.clone(v)
        elif u < 0.65 and kind in ("solver", "params"):
            child = rng.choice([c for (k, c) in CHILD_KIND if k == kind])
            src = [i for i, (k, _) in enumerate(h.vars) if k == CHILD_KIND[(kind, child)]]
            if src:
                h.inst(v, child, rng.choice(src))
            else:
                h.instid(v, child, rng.choice(h.ids(CHILD_KIND[(kind, child)]) + ["no-such-id"]))
        elif u < 0.75 and kind in ("solver", "params") and len(h.vars) < 9:
            h.ext(v, rng.choice([c for (k, c) in CHILD_KIND if k == kind]))
        elif u < 0.8 and kind == "params":
            h.assign(v, rng.choice(same))
        elif kind in ("solver", "params", "splitter", "lsearchk", "tuner"):
            h.probe(v, rng.choice(same))
        elif len(h.vars) < 9:
            h.new(rng.choice(["lsearchk", "lsearch0", "solver"]))
    return h.line()


def lsearch0_hist(rng, entries, id_):
    """the step-initialisation strategies keep a history between calls; `probe` on two lsearch0 variables makes three calls on
    each and leaves both USED, so the second clone below is the clone of a used object (seeded change C19-d3: clone() resetting the
    history). Only pairs with the same usage history are probed (a fresh and a used object with equal parameters legitimately differ)."""
    h = OwnerHist(rng, entries)
    v = h.configured("lsearch0", id_) if rng.chance(0.5) else h.new("lsearch0", id_)
    c = h.clone(v)
    h.probe(v, c)              # both fresh -> both used once
    c2 = h.clone(v)            # clone of a used object
    h.probe(v, c2)             # both used once -> both used twice
    if rng.chance(0.5):
        c3 = h.clone(c2)
        h.probe(c2, c3)
    return h.line()


def enum_hist(rng, entries):
    """an object with an enumeration parameter: a rejected (near-miss) name, then reads through clones, an accepted name, clones"""
    h = OwnerHist(rng, entries)
    cands = [(e[0], e[1], n) for e in entries if e[0] in ("wlearner", "tuner", "splitter", "solver", "lsearchk", "lsearch0")
             for n, raw in e[3] if raw["kind"] == "enum"]
    if not cands:
        return None
    kind, id_, name = rng.choice(cands)
    v = h.new(kind, id_)
    h.set(v, 1, inside=False, name=name)
    c = h.clone(v)
    h.set(c, 1, inside=True, name=name)
    h.set(c, 1, inside=False, name=name)
    h.clone(c)
    h.set(v, 1, inside=rng.chance(0.5), name=name)
    h.clone(v)
    return h.line()


def probe_hist(rng, entries, kind, id_):
    """line-search / tuner / weak learner: configure, clone, probe (a weak learner is FITTED by the probe), clone the used object,
    probe again, change the clone, clone the clone"""
    h = OwnerHist(rng, entries)
    v = h.configured(kind, id_) if rng.chance(0.6) else h.new(kind, id_)
    c = h.clone(v)
    h.probe(v, c)
    c2 = h.clone(v)
    h.probe(v, c2)
    h.set(c2, 1)
    c3 = h.clone(c2)
    h.probe(c2, c3)
    if rng.chance(0.5):
        h.probe(v, c)
    return h.line()


def splitter_bounds_hist(rng, entries, id_):
    """a splitter with its seed at an END of the declared domain (0, 1024): every value of the domain is an ordinary seed, so the
    clone must split like the original (seeded change C19-g1: k-fold treating seed 0 as 'no seed' and drawing from random_device)"""
    h = OwnerHist(rng, entries)
    v = h.new("splitter", id_)
    for text in ("si 0", "si 1024", "si 1"):
        if not h.set_to(v, "splitter::seed", text):
            return None
        c = h.clone(v)
        h.probe(v, c)
    return h.line()


def owner_ops(rng, entries, thorough):
    if not entries or not getattr(entries, "owners", None):
        return []
    ops = []
    for e in entries:
        if e[0] == "splitter":
            line = splitter_bounds_hist(rng, entries, e[1])
            if line:
                ops.append(line)
    for e in entries:
        if e[0] in ("lsearchk", "tuner", "wlearner"):
            for _ in range(3 if thorough else 1):
                ops.append(probe_hist(rng, entries, e[0], e[1]))
    for _ in range(60 if thorough else 12):
        line = enum_hist(rng, entries)
        if line:
            ops.append(line)
    for e in entries:
        if e[0] == "lsearch0":
            for _ in range(4 if thorough else 2):
                ops.append(lsearch0_hist(rng, entries, e[1]))
    for e in entries:
        if e[0] == "solver":
            for variant in range(3):
                for _ in range(3 if thorough else 1):
                    ops.append(solver_hist(rng, entries, e[1], variant))
    for _ in range(200 if thorough else 30):
        ops.append(params_hist(rng, entries))
    for _ in range(120 if thorough else 20):
        ops.append(gboost_hist(rng, entries))
    for _ in range(1500 if thorough else 120):
        ops.append(random_hist(rng, entries))
    return ops


def prefix_closed(bases, extra="c: "):
    """every prefix of every base name (the empty name included) and every base name extended by one character"""
    out = []
    for b in bases:
        for i in range(len(b) + 1):
            if b[:i] not in out:
                out.append(b[:i])
        for ch in extra:
            if b + ch not in out:
                out.append(b + ch)
    return out


CONFIG_NAMES = prefix_closed(["ab", "s::e", "A"]) + ["a b", "b"]


def config_ops(rng, count):
    names = CONFIG_NAMES
    specs = [s for s in main_specs() if s.kind != "mono"] + [Spec("int", min=0, mincomp="le", value=11, maxcomp="le", max=10)]
    vals_i = [-3, -2, 0, 1, 5, 6]
    vals_f = [-1.0, 0.5, 2.5, 2.6, 1e300]
    out = []
    for _ in range(count):
        n = rng.range(1, 14)
        cops = []
        # the names of one history come from ONE chain of prefixes / extensions most of the time, so that a lookup of a
        # prefix of a registered name (and the registration of a prefix) is the usual case
        pool = names if rng.chance(0.3) else [x for x in names if x.startswith(rng.choice(["a", "s", ""])) or x == ""]
        for _ in range(n):
            u = rng.unit()
            name = rng.choice(pool)
            if u < 0.35:
                cops.append(f"reg {q(name)} {rng.choice(specs).wire()}")
            elif u < 0.40:
                cops.append(f"copy {q('')}")
            elif u < 0.50:
                cops.append(f"has {q(name)}")
            elif u < 0.75:
                sp = rng.choice(specs)
                full, _ = alphabet(sp)
                op = rng.choice(full)
                # conversions the C++ standard leaves undefined make the final state unpredictable: kept out of this family
                if op.split()[0] in ("sf", "spf") and not all(finite(h2f(x)) and abs(h2f(x)) < 2.0 ** 62 for x in op.split()[1:]):
                    op = "ri"
                cops.append(f"get {q(name)} {op}")
            else:
                c = rng.below(3)
                if c == 0:
                    cops.append(f"cfg {q(name)} si {rng.choice(vals_i)}")
                elif c == 1:
                    cops.append(f"cfg {q(name)} sf {hx(rng.choice(vals_f))}")
                else:
                    cops.append(f"cfg {q(name)} ss {q(rng.choice(['1', '0.5', 'red', 'x', '1,2', '']))}")
        out.append(f"config hist {n} " + " ".join(cops))
    return out


XOPS_INT = ["ri32", "ru64", "rf32", "ri", "rf", "sb 0", "sb 1", "si32 -5", "si32 7", "si32 2147483647", "si32 -2147483648",
            "su64 0", "su64 3", "su64 9223372036854775807", "su64 9223372036854775808", "su64 18446744073709551615",
            "su64 18446744073709551611", "sf32 " + f2h(2.5), "sf32 " + f2h(-0.0), "sf32 " + f2h(16777216.0), "sf32 " + f2h(float("inf")),
            "sf32 nan", "rpi32", "rpf32", "wr"]


def num_wire(rng, v, prefer_float):
    if isinstance(v, float) or prefer_float:
        return "f " + hx(float(v))
    return f"i {v}"


def paramx_specs(rng):
    """parameters whose domains exceed the narrow types, and the converting factory functions with mixed argument types"""
    big = [2 ** 31 - 1, 2 ** 31, 2 ** 31 + 1, -2 ** 31, -2 ** 31 - 1, 2 ** 32, 2 ** 32 + 5, 16777217, 2 ** 53 + 1, 2 ** 62, -7, 0, 3]
    specs = []
    for v in big:
        specs.append(Spec("int", min=min(-10, v), mincomp="le", value=v, maxcomp="le", max=max(2 ** 63 - 1, v)))
    specs.append(Spec("int", min=-5, mincomp="le", value=1, maxcomp="lt", max=6))
    for v in (0.5, 1.5, -1.5, 2147483647.5, 2147483648.0, -2147483648.9, -2147483649.0, 1e10, 16777217.0, 3.4028235677973366e38,
              3.5e38, 1e-46, 0.1, -0.0):
        specs.append(Spec("float", min=-1e300, mincomp="le", value=v, maxcomp="le", max=1e300))
    specs.append(Spec("ipair", min=-2 ** 40, mincomp="le", value1=-2 ** 31 - 1, valcomp="lt", value2=2 ** 31, maxcomp="le", max=2 ** 40))
    specs.append(Spec("ipair", min=0, mincomp="le", value1=1, valcomp="lt", value2=16777217, maxcomp="le", max=2 ** 40))
    specs.append(Spec("fpair", min=-1e300, mincomp="le", value1=-2147483648.5, valcomp="lt", value2=2147483647.9, maxcomp="le", max=1e300))
    specs.append(Spec("fpair", min=-1e300, mincomp="le", value1=0.1, valcomp="lt", value2=1e39, maxcomp="le", max=1e300))
    specs += [Spec("enum", value="green"), Spec("str", value="abc"), Spec("mono")]
    return specs


def xspec_wire(rng):
    """make_integer / make_scalar / make_*_pair called with a mix of integral and floating point arguments"""
    kind = rng.choice(["xint", "xint", "xfloat", "xipair", "xfpair"])
    fl = lambda: rng.chance(0.5)
    cands = [0, 1, 2, 3, 5, 10, -1, -3, 0.5, 1.7, 2.5, -0.5, -1.5, 9.99, 10.9, 0.9, 0.999, -0.0, 1e3, 7]
    def pick():
        v = rng.choice(cands)
        return num_wire(rng, v, False)
    c = lambda: rng.choice(["le", "lt"])
    if kind in ("xint", "xfloat"):
        return f"{kind} {pick()} {c()} {pick()} {c()} {pick()}"
    return f"{kind} {pick()} {c()} {pick()} {c()} {pick()} {c()} {pick()}"


def paramx_ops(rng, count):
    out = []
    specs = paramx_specs(rng)
    others = [sp.wire() for sp in main_specs()[:6]] + ["int 0 le 1 le 10", "float " + hx(-0.0) + " le " + hx(0.0) + " le " + hx(1.0),
                                                       "float " + hx(0.0) + " le " + hx(-0.0) + " le " + hx(1.0)]
    for sp in specs:
        out.append(f"paramx hist {sp.wire()} {len(XOPS_INT)} " + " ".join(XOPS_INT))
        # (a default constructed parameter has no name: `eq 0` is not meaningful for it)
        out.append(f"paramx hist {sp.wire()} 3 eq 1 {sp.wire()} eq {1 if sp.kind == 'mono' else 0} {sp.wire()} eq 1 {rng.choice(others)}")
    for _ in range(count):
        w = xspec_wire(rng) if rng.chance(0.6) else rng.choice(specs).wire()
        try:
            sp = read_spec(Toks(w))
        except ValueError:
            continue
        full, _ = alphabet_for(sp) if sp.kind not in ("int", "float", "ipair", "fpair") or tame(sp) else (XOPS_INT, None)
        n = rng.range(3, 10)
        ops = []
        for _ in range(n):
            u = rng.unit()
            if u < 0.45:
                ops.append(rng.choice(XOPS_INT))
            elif u < 0.6:
                ow = w if rng.chance(0.5) else (xspec_wire(rng) if rng.chance(0.5) else rng.choice(others))
                ops.append(f"eq {1 if ow == 'mono' else rng.below(2)} " + ow)
            else:
                ops.append(random_op(rng, sp, full) if tame(sp) else rng.choice(full))
        out.append(f"paramx hist {w} {len(ops)} " + " ".join(ops))
    return out


FACT_IDS = prefix_closed(["gd", "cgd-n"], "x-") + ["lbfgs", "n"]
FACT_FRAGS = ["", "g", "gd", "cgd", "cgd-", "d", "n", "-n", "x", "gdx", "lbfgs", "c"]


def fact_ops(rng, count):
    out = []
    for _ in range(count):
        n = rng.range(3, 14)
        fops, nvars = [], 0
        live = []            # ids the reference semantics knows to be registered
        for _ in range(n):
            u = rng.unit()
            i = rng.choice(FACT_IDS)
            if u < 0.3:
                v = rng.choice([0, 1, 3, 5, 10, 10, 11, -1])
                fops.append(f"add {q(i)} {v} {q(rng.choice(['', 'a description', i + '?']))}")
                if 0 <= v <= 10 and i not in live:
                    live.append(i)
            elif u < 0.4:
                fops.append(f"has {q(i)}")
            elif u < 0.45:
                fops.append("size")
            elif u < 0.52:
                fops.append(f"desc {q(i)}")
            elif u < 0.7:
                i = rng.choice(live) if live and rng.chance(0.7) else i
                fops.append(f"get {q(i)}")
                if i in live:
                    nvars += 1
            elif u < 0.8:
                fops.append(f"ids {rng.choice(['any', 'lit', 'pre', 'suf', 'sub'])} {q(rng.choice(FACT_FRAGS))}")
            elif u < 0.95 and nvars:
                name = "p" if rng.chance(0.85) else rng.choice(["", "pp", "q"])
                fops.append(f"setp {rng.below(nvars)} {q(name)} " + rng.choice(["si 0", "si 7", "si 10", "si 11", "si -1", "sf " + hx(2.5),
                                                                                  "ss " + q("4"), "ss " + q("x")]))
            elif nvars:
                fops.append(f"clonev {rng.below(nvars)}")
                nvars += 1
            else:
                fops.append("size")
        out.append(f"fact hist {len(fops)} " + " ".join(fops))
    return out


def idsre_ops(rng, entries):
    out = []
    for f in T.FACTORIES:
        ids = [e[1] for e in entries if e[0] == f]
        frags = {""}
        for i in ids[:40]:
            if re.fullmatch(r"[a-z0-9-]+", i):
                frags.update({i, i[:1], i[:max(1, len(i) // 2)], i[-2:], i[1:3]})
        frags = sorted(frags)
        for _ in range(6):
            out.append(f"factory idsre {f} {rng.choice(['lit', 'pre', 'suf', 'sub', 'any'])} {q(rng.choice(frags))}")
    return out


def paramshow_ops(rng, count):
    """oracle-only monitor of the printed texts: random histories over the main and the edge specs"""
    out = []
    specs = main_specs() + extra_specs(rng)
    for _ in range(count):
        spec = rng.choice(specs)
        full, _ = alphabet_for(spec)
        ops = [random_op(rng, spec, full) for _ in range(rng.range(1, 6))]
        out.append(hist(spec, ops).replace("param hist", "paramshow hist", 1))
    return out


def gen(rng, tier):
    thorough = tier == "thorough"
    ops = corpus()
    entries = _ENTRIES
    if not entries:
        try:
            entries = _dump()
        except Broken:
            entries = []      # a factory that throws is reported by the `factory ids` lines below
    ops += factory_ops(rng, entries, 4 if thorough else 2)
    ops += owner_ops(rng, entries, thorough)
    specs = main_specs()
    deep = 6 if thorough else 4
    ncore = 5 if thorough else 6
    for spec in specs:
        full, core = alphabet(spec)
        # every history of <= 2 operations over the full alphabet (length-1 histories are prefixes)
        for a in full:
            for b in full:
                ops.append(hist(spec, [a, b]))
        # every history of <= deep operations over a core alphabet
        c = core[:ncore]
        if spec.kind in ("enum", "str", "mono") and thorough:
            c = core[:4]
        for h in itertools.product(c, repeat=deep):
            ops.append(hist(spec, list(h)))
        if thorough:
            for h in itertools.product(core, repeat=4):
                ops.append(hist(spec, list(h)))
        else:
            for h in itertools.product(core, repeat=3):
                ops.append(hist(spec, list(h)))
    # random longer histories, boundary-biased values, edge domains
    allspecs = specs + extra_specs(rng)
    for spec in extra_specs(rng):
        full, core = alphabet_for(spec)
        ops.append(hist(spec, []))
        for a in full:
            ops.append(hist(spec, [a, rng.choice(full)]))
    nrand = 60000 if thorough else 9000
    for _ in range(nrand):
        spec = rng.choice(allspecs)
        full, _ = alphabet_for(spec)
        n = rng.range(5, 30 if thorough else 12)
        ops.append(hist(spec, [random_op(rng, spec, full) for _ in range(n)]))
    ops += config_ops(rng, 20000 if thorough else 3000)
    ops += paramx_ops(rng, 8000 if thorough else 1500)
    ops += fact_ops(rng, 6000 if thorough else 800)
    ops += idsre_ops(rng, entries)
    ops += paramshow_ops(rng, 3000 if thorough else 400)
    # distinct by text, order kept
    seen, out = set(), []
    for o in ops:
        if o not in seen:
            seen.add(o); out.append(o)
    return out


def nontrivial(op):
    t = Toks(op)
    fam = t.s(); what = t.s()
    if fam == "factory":
        return what == "walk"
    if fam == "config":
        return " reg " in op and (" get " in op or " cfg " in op)
    if fam == "fact":
        return " add " in op and " get " in op
    if fam == "paramshow":
        return True
    if fam == "owner":
        # a copy is taken of an owner whose owned objects / own parameters were configured before
        toks = op.split()
        copies = [i for i, w in enumerate(toks) if w in ("clone", "assign")]
        conf = [i for i, w in enumerate(toks) if w in ("inst", "protos", "set")]
        return bool(copies) and bool(conf) and min(conf) < max(copies)
    spec = read_spec(t)
    n = t.int()
    acc = rej = False
    for _ in range(n):
        k, _, raw = read_op(t)
        if fam == "paramx" and k in ("ri32", "ru64", "rf32", "rpi32", "rpf32", "eq"):
            acc = rej = True          # a narrowing read / a comparison is what the family is about
            continue
        a = accepts(spec, " ".join(raw))
        acc = acc or a is True
        rej = rej or a is False
    return acc and rej


def distribution(ops):
    d = {}
    for op in ops:
        t = op.split()
        if t[0] in ("param", "paramx", "paramshow"):
            n = Toks(op); n.s(); n.s(); read_spec(n); k = n.int()
            key = f"{t[0]}/{t[2]}/len{k if k <= 6 else '7+'}"
        elif t[0] == "fact":
            key = "fact/len" + (t[2] if int(t[2]) <= 6 else "7+")
        elif t[0] == "config":
            key = "config/len" + (t[2] if int(t[2]) <= 6 else "7+")
        elif t[0] == "owner":
            key = "owner/" + (t[4] if len(t) > 4 and t[3] == "new" else "?")
            for w in ("inst", "instid", "protos", "ext", "clone", "assign", "probe"):
                if w in t:
                    d["owner-op/" + w] = d.get("owner-op/" + w, 0) + t.count(w)
        else:
            key = f"factory/{t[1]}" + (f"/{t[2]}" if t[1] == "walk" else "")
        d[key] = d.get(key, 0) + 1
    return d


def classify(op, kind, detail):
    t = op.split()
    fam = t[0] if t else "?"
    sub = t[2] if fam in ("param", "factory") and len(t) > 2 else ""
    if fam == "owner":
        sub = t[4] if len(t) > 4 and t[3] == "new" else "hist"
    if kind == "oracle":
        m = re.match(r"\[([a-z-]+)\]", detail or "")
        return f"{fam}/{sub}/{m.group(1) if m else 'oracle'}"
    return f"{fam}/{sub}/{kind}"


def model_skip(aug):
    return aug.startswith("factory dump") or aug.startswith("paramshow ")


def shrink_candidates(op):
    """drop operations of a history one at a time (later ones first)"""
    t = Toks(op)
    fam = t.s(); what = t.s()
    if fam in ("param", "paramx", "paramshow"):
        spec = read_spec(t)
        n = t.int()
        raws = [" ".join(read_op(t)[2]) for _ in range(n)]
        for i in reversed(range(n)):
            yield hist(spec, raws[:i] + raws[i + 1:]).replace("param hist", fam + " hist", 1)
    elif fam == "config":
        n = t.int()
        cops = []
        for _ in range(n):
            start = t.i
            cop = t.s(); t.s()
            if cop == "reg":
                read_spec(t)
            elif cop in ("get", "cfg"):
                read_op(t)
            cops.append(" ".join(t.t[start:t.i]))
        for i in reversed(range(n)):
            rest = cops[:i] + cops[i + 1:]
            yield f"config hist {len(rest)} " + " ".join(rest) if rest else "config hist 0"
    elif fam == "factory" and what == "walk" and " probe " in op:
        yield op[:op.rfind(" probe ")]
    elif fam == "fact":
        # operations are dropped from the end (variables are numbered in order of creation, so a prefix is well formed)
        n = t.int()
        fops = []
        arity = {"add": 3, "has": 1, "size": 0, "desc": 1, "get": 1, "ids": 2, "clonev": 1}
        for _ in range(n):
            start = t.i
            k = t.s()
            if k == "setp":
                t.int(); t.s(); read_op(t)
            else:
                for _ in range(arity[k]):
                    t.s()
            fops.append(" ".join(t.t[start:t.i]))
        for i in reversed(range(1, n)):
            yield f"fact hist {i} " + " ".join(fops[:i])
    elif fam == "owner":
        n = t.int()
        oops = [read_oop(t) for _ in range(n)]
        def refs(o):
            k = o[0]
            if k in ("set", "ext", "clone", "instid"):
                return [o[1]]
            if k in ("inst",):
                return [o[1], o[3]]
            if k in ("assign", "probe"):
                return [o[1], o[2]]
            if k == "protos":
                return [o[1]] + list(o[2])
            return []
        def renum(text, o, drop):
            """the wire text of o with every variable index above `drop` decreased by one"""
            f = lambda x: x - 1 if x > drop else x
            k = o[0]
            w = text.split()
            if k in ("set", "ext", "clone", "instid"):
                w[1] = str(f(o[1]))
            elif k == "inst":
                w[1] = str(f(o[1])); w[3] = str(f(o[3]))
            elif k in ("assign", "probe"):
                w[1] = str(f(o[1])); w[2] = str(f(o[2]))
            elif k == "protos":
                w[1] = str(f(o[1])); w[3:] = [str(f(x)) for x in o[2]]
            return " ".join(w)
        # which variable an operation creates (the factory knows every id the generator uses except `no-such-…`)
        made, count = [], 0
        for o, text in oops:
            creates = o[0] in ("ext", "clone") or (o[0] == "new" and not o[2].startswith("no-such"))
            made.append(count if creates else None)
            count += 1 if creates else 0
        for i in reversed(range(n)):
            if made[i] is None:
                rest = [x[1] for x in oops[:i] + oops[i + 1:]]
            elif all(made[i] not in refs(o) for o, _ in oops[i + 1:]):
                rest = [x[1] for x in oops[:i]] + [renum(text, o, made[i]) for o, text in oops[i + 1:]]
            else:
                continue
            yield f"owner hist {len(rest)} " + " ".join(rest) if rest else "owner hist 0"
