"""C10: C++ -> Lean translator for the scalar formulas of the weak learners (DESIGN.md §2.3.a, WORKER.md "Translation rounds").

Extracts, *by function name* from the current source text of the repository under check (`vlib.REPO`), and emits three core-Lean
files (self-contained, generic over the scalar):

  Gen/WLearnerCriterion.lean
    enum class wlearner_criterion                         (include/nano/wlearner/criterion.h)  -> `Criterion`
    AIC / AICc / BIC                                      (include/nano/core/stats.h)          -> `AIC`, `AICc`, `BIC` (+ `…Asserts`)
    wlearner::make_score                                  (src/wlearner/criterion.cpp)         -> `scoreFloor`, `makeScore`
  Gen/WLearnerAccumulator.lean
    accumulator_t::fit_constant / rss_zero / rss_constant (include/nano/wlearner/accumulator.h) -> `fitConstant`, `rssZeroTerm`, `rssConstantTerm`
    accumulator_t::update (both overloads)                (include/nano/wlearner/accumulator.h) -> `upd0_x0/r1/r2`, `upd_x1/x2/rx` (gradient form)
    cache_t::constant / w / b / rss_affine / score        (src/wlearner/affine.cpp)            -> `constant`, `w`, `b`, `rssAffineTerm`,
                                                                                                  `affineRss`, `affineK`
    affine_wlearner_t::do_predict element                 (src/wlearner/affine.cpp)            -> `affinePredict`
  Gen/WLearnerSweep.lean
    ::score, cache_t::x0_pos/r1_pos/r2_pos/output_neg/output_pos/score, the sweep of do_fit (distinct-values rule, mid-point
    threshold, acceptance rule), do_predict / split elements   (src/wlearner/stump.cpp)        -> `stump…`
    ::beta, ::score, cache_t::*_pos, score_neg/score_pos (both overloads), the sweep of do_fit (as above + the second table row),
    the two activity conditions of do_predict                  (src/wlearner/hinge.cpp)        -> `hinge…`
  Gen/WLearnerTable.lean
    cache_t::score(bin), the parameter counts / table rows / acceptance rule of score_dense, score_kbest, score_ksplit, the per-cluster
    RSS of score_ksplit                                        (src/wlearner/table.cpp)        -> `binScoreTerm`, `denseK` …, `tableAccept`
    the key of accumulator_t::sort                             (src/wlearner/accumulator.cpp)  -> `binDelta`

Statement language: `assert(…);` (kept as `…Asserts`), `const auto x = e;` (a `let`), `if (c) { return a; }` guards, a final `return e;`
with an optional Eigen `.sum()` (the generated definition is then the summand, one output component: arrays are read element-wise,
`x.square()` is `x * x`), `switch` over the criterion with `return` cases, `c ? a : b`, `std::max`, `std::log` (parameter `log`),
`std::isfinite` (parameter `fin`), `static_cast<double>(k)`. The expression parser is the one of c14_translate.py (sub-classed: calls
with argument lists, the conditional operator, the literals of Model/WLearner.lean: `2` ↦ `1 + 1`, `0.5` ↦ `1 / (1 + 1)`).
Anything else raises vlib.Broken("translate", …).
"""
import os, re
from fractions import Fraction
import vlib
from props import c14_translate as T14

TranslateError = T14.TranslateError
GEN = os.path.join(vlib.LEAN, "NanoVerif", "Gen")
OUT_CRIT = os.path.join(GEN, "WLearnerCriterion.lean")
OUT_ACC = os.path.join(GEN, "WLearnerAccumulator.lean")
OUT_SWEEP = os.path.join(GEN, "WLearnerSweep.lean")
OUT_TABLE = os.path.join(GEN, "WLearnerTable.lean")

CRIT_H = "include/nano/wlearner/criterion.h"
CRIT_CPP = "src/wlearner/criterion.cpp"
STATS_H = "include/nano/core/stats.h"
ACC_H = "include/nano/wlearner/accumulator.h"
AFFINE = "src/wlearner/affine.cpp"
STUMP = "src/wlearner/stump.cpp"
HINGE = "src/wlearner/hinge.cpp"
TABLE = "src/wlearner/table.cpp"
ACC_CPP = "src/wlearner/accumulator.cpp"

TOK = re.compile(r"\s*(?:(\d+\.\d*(?:[eE][-+]?\d+)?|\.\d+(?:[eE][-+]?\d+)?|\d+(?:[eE][-+]?\d+)?)"
                 r"|((?:::)?[A-Za-z_]\w*(?:::[A-Za-z_]\w*)*)"
                 r"|(<=|>=|==|!=|&&|\|\||[-+*/()<>,!?:]))")


def tokenize(s):
    out = []; i = 0
    while i < len(s):
        if s[i:].strip() == "":
            break
        m = TOK.match(s, i)
        if not m:
            raise TranslateError("cannot tokenize at: " + s[i:i + 40].strip())
        if m.group(1):
            out.append(("num", m.group(1)))
        elif m.group(2):
            out.append(("id", m.group(2)))
        else:
            out.append(("op", m.group(3)))
        i = m.end()
    return out


def pre(text):
    """comments, casts, machine constants, `this->`, Eigen's `.square()`, member access paths `a.b` -> `a_b`"""
    s = T14.strip_comments(text)
    s = re.sub(r"static_cast<\s*(?:double|scalar_t)\s*>", "SCAST", s)
    s = re.sub(r"static_cast<\s*tensor_size_t\s*>", "ICAST", s)
    s = re.sub(r"std::numeric_limits<\s*(?:double|scalar_t)\s*>::epsilon\(\)", "MACHEPS", s)
    s = re.sub(r"epsilon1<\s*scalar_t\s*>\(\)", "EPS1", s)
    s = re.sub(r"array_t::Zero\((?:[^()]|\([^()]*\))*\)", "ZERO", s)
    s = s.replace("this->", "")
    s = re.sub(r"\b((?:[A-Za-z_]\w*\.)*[A-Za-z_]\w*(?:\([^()]*\))?)\.square\(\)", r"SQ(\1)", s)
    while True:
        s2 = re.sub(r"\b([A-Za-z_]\w*)\.([A-Za-z_]\w*)", r"\1_\2", s)
        if s2 == s:
            break
        s = s2
    return s


def enclosed(e):
    """is `e` one parenthesised group?"""
    if not (e.startswith("(") and e.endswith(")")):
        return False
    d = 0
    for i, c in enumerate(e):
        d += (c == "(") - (c == ")")
        if d == 0 and i + 1 < len(e):
            return False
    return True


def atom(e):
    return e if (" " not in e or enclosed(e)) else f"({e})"


def lean_lit(text, lits, nat):
    """literals as Model/WLearner.lean writes them: over `OfNat α 0`, `OfNat α 1`, `+`, `/` (`two`, `half`); other integers through OfNat"""
    if nat:
        if not re.fullmatch(r"\d+", text):
            raise TranslateError(f"floating literal {text} in an integer expression")
        return text
    q = Fraction(text)
    one = "(1 : α)"
    if q == 0:
        return "(0 : α)"
    if q == 1:
        return one
    if q == 2:
        return f"({one} + {one})"
    if q == Fraction(1, 2):
        return f"({one} / ({one} + {one}))"
    if q.denominator == 1 and q.numerator < 2 ** 53:
        lits.add(q.numerator)
        return f"({q.numerator} : α)"
    raise TranslateError(f"literal {text} is not translated")


class Parser(T14.Parser):
    """c14's expression parser (|| && comparison + - * / unary) with: argument-list calls looked up in `calls` (name -> function of the
    translated arguments), the conditional operator, `!`, and the literal forms of the C10 model; `nat` = an integer (count) expression"""

    def __init__(self, toks, bind, calls, lits, nat=False, eq=False):
        T14.Parser.__init__(self, toks, bind, lits)
        self.calls = calls; self.nat = nat; self.eq = eq

    def expr(self):
        c = self.cond()
        if self.peek()[1] == "?":
            self.eat(); a = self.expr(); self.eat(":"); b = self.expr()
            return f"(if {c} then {a} else {b})"
        return c

    def cmp(self):
        a = self.add()
        if self.peek()[1] in ("<=", ">=", "<", ">"):
            op = self.eat()[1]; b = self.add()
            lean = {"<=": "≤", ">=": "≥", "<": "<", ">": ">"}[op]
            return f"{atom(a)} {lean} {atom(b)}"
        if self.peek()[1] == "==" and self.eq:
            self.eat(); b = self.add()
            return f"{atom(a)} = {atom(b)}"
        if self.peek()[1] in ("==", "!="):
            raise TranslateError("equality comparison of scalars is not translated")
        return a

    def unary(self):
        if self.peek()[1] == "-":
            self.eat(); return f"(-{atom(self.unary())})"
        if self.peek()[1] == "+":
            self.eat(); return self.unary()
        if self.peek()[1] == "!":
            self.eat(); return f"(¬ {atom(self.unary())})"
        return self.primary()

    def primary(self):
        k = self.eat()
        if k[0] == "num":
            return lean_lit(k[1], self.lits, self.nat)
        if k[1] == "(":
            e = self.expr(); self.eat(")")
            return atom(e)
        if k[0] == "id":
            name = k[1]
            if self.peek()[1] != "(":
                if name in self.bind:
                    return self.bind[name]
                raise TranslateError("unbound symbol " + name)
            self.eat("(")
            a = []
            if self.peek()[1] == ")":
                self.eat(")")
            else:
                a.append(self.expr())
                while self.peek()[1] == ",":
                    self.eat(); a.append(self.expr())
                self.eat(")")
            if name not in self.calls:
                raise TranslateError(f"unbound call {name}({', '.join(a)})")
            r = self.calls[name](a)
            if r is None:
                raise TranslateError(f"call not understood: {name}({', '.join(a)})")
            return r
        raise TranslateError(f"unexpected token {k[1]!r}")


def expr(text, bind, calls, lits, what, nat=False, eq=False):
    p = Parser(tokenize(text), bind, calls, lits, nat, eq)
    try:
        e = p.expr()
    except TranslateError as ex:
        raise TranslateError(f"{what}: {ex} in `{' '.join(text.split())[:120]}`")
    if p.peek()[0] != "eof":
        raise TranslateError(f"{what}: trailing tokens in `{' '.join(text.split())[:120]}`")
    return e


def one(n):
    """a call handler for a fixed arity"""
    def deco(f):
        def g(a):
            return f(*a) if len(a) == n else None
        return g
    return deco


STD = {
    "std::max": one(2)(lambda a, b: f"(gmax {atom(a)} {atom(b)})"),
    "SQ": one(1)(lambda a: f"({atom(a)} * {atom(a)})"),
    "SCAST": one(1)(lambda a: f"({a} : α)"),
    "std::log": one(1)(lambda a: f"(log {atom(a)})"),
}


def read(repo, path):
    try:
        with open(os.path.join(repo, path)) as f:
            return f.read()
    except OSError as ex:
        raise TranslateError(f"cannot read {path}: {ex}")


def quote(body):
    return " ".join(T14.strip_comments(body).split()).replace("-/", "- /").replace("/-", "/ -")


def formula(body, bind, calls, lits, what, params_from=None):
    """a function body made of asserts, `const auto x = e;` lets, `if (c) { return a; }` guards and a final `return e;`
    -> (asserts, Lean body text, summed?); a let whose right-hand side is a call listed in `params_from` binds a parameter instead"""
    bind = dict(bind); asserts = []; lines = []; ret = None; summed = False
    for st in T14.split_top(pre(body)):
        if ret is not None:
            raise TranslateError(f"{what}: statement after the final return")
        if st[0] == "stmt":
            t = st[1]
            m = re.fullmatch(r"assert\s*\((.*)\)", t)
            if m:
                try:
                    asserts.append(expr(m.group(1), bind, calls, lits, what, nat=True))
                except TranslateError:
                    asserts.append(expr(m.group(1), bind, calls, lits, what))
                continue
            m = re.fullmatch(r"const (?:auto|scalar_t|double) (\w+) = (.*)", t)
            if m:
                x, rhs = m.group(1), m.group(2)
                if params_from is not None and rhs.replace(" ", "") in params_from:
                    bind[x] = params_from[rhs.replace(" ", "")]; continue
                lines.append(f"  let {x} := {expr(rhs, bind, calls, lits, what)}")
                bind[x] = x; continue
            m = re.fullmatch(r"return (.*)", t)
            if m:
                rhs = m.group(1).strip()
                if rhs.endswith(".sum()"):
                    rhs = rhs[:-len(".sum()")].rstrip(); summed = True
                    if not enclosed(rhs.replace(" ", "")) and not re.fullmatch(r"\w+\([^()]*\)", rhs):
                        raise TranslateError(f"{what}: `.sum()` is not applied to the whole expression")
                ret = expr(rhs, bind, calls, lits, what); continue
            raise TranslateError(f"{what}: statement not understood: `{t[:100]}`")
        kind, head, blk, els = st
        if kind != "if" or els is not None:
            raise TranslateError(f"{what}: nested `{kind}`/`else` is not translated")
        m = re.fullmatch(r"\s*return ([^;]*);\s*", blk)
        if not m:
            raise TranslateError(f"{what}: guard body is not a single return: `{' '.join(blk.split())[:80]}`")
        lines.append(f"  if {expr(head, bind, calls, lits, what)} then {expr(m.group(1), bind, calls, lits, what)} else")
    if ret is None:
        raise TranslateError(f"{what}: no return statement")
    lines.append(f"  {ret}")
    return asserts, "\n".join(lines), summed


def inst(lits):
    return "".join(f" [OfNat α {n}]" for n in sorted(lits))


VARS = ("variable {α : Type} [Add α] [Sub α] [Mul α] [Div α] [Neg α] [LT α] [LE α] [DecidableLT α] [DecidableLE α] [OfNat α 0] "
        "[OfNat α 1] [NatCast α]\n")
GMAX = "/-- `std::max(a, b)`: `(a < b) ? b : a` (libstdc++) -/\ndef gmax (a b : α) : α := if a < b then b else a\n"


# ---------------------------------------------------------------------------------------------------------------------
# Gen/WLearnerCriterion.lean

def gen_criterion(repo):
    hdr = read(repo, CRIT_H); cpp = read(repo, CRIT_CPP); sth = read(repo, STATS_H)
    m = re.search(r"enum\s+class\s+wlearner_criterion\s*(?::\s*\w+\s*)?\{([^}]*)\}", T14.strip_comments(hdr))
    if not m:
        raise TranslateError(f"enum class wlearner_criterion not found in {CRIT_H}")
    enum = [n.strip() for n in m.group(1).split(",") if n.strip()]
    for n in enum:
        if not re.fullmatch(r"[a-z_][a-z_0-9]*", n):
            raise TranslateError(f"wlearner_criterion: enumerator `{n}` not translated")
    out = [f"-- GENERATED by tools/props/c10.py (c10_translate.py) from {CRIT_H}, {CRIT_CPP}, {STATS_H} — do not edit\n"
           "/-!\n  The selection criteria of libnano's weak learners, re-translated from the C++ source text on every check (DESIGN.md §2.3.a).\n"
           "  Core Lean only; self-contained. `std::log` is the parameter `log`; `static_cast<double>(k)` ↦ `(k : α)` (`NatCast`); literals as in\n"
           "  Model/WLearner.lean (`2.0` ↦ `1 + 1`); `std::max` ↦ `gmax`; `std::numeric_limits<double>::epsilon()` is the parameter `eps`.\n"
           "  `Proofs/WLearnerGen.lean` (`model_score_is_generated`, …) proves the hand-written model text equal to these definitions.\n-/\n"
           "set_option linter.unusedVariables false\nnamespace NanoVerif.Gen.WLearnerCriterion\n",
           f"/-- `enum class wlearner_criterion` ({CRIT_H}) -/\ninductive Criterion where\n" + "".join(f"  | {n}\n" for n in enum) +
           "deriving DecidableEq, Repr\n", "section\n" + VARS, GMAX]
    sib = {}
    for name in ("AIC", "AICc", "BIC"):
        body = T14.body_of(sth, r"inline\s+double\s+" + name + r"\s*\(\s*const\s+double\s+RSS\s*,\s*const\s+int64_t\s+k\s*,\s*const\s+int64_t\s+n\s*\)",
                           f"{name} in {STATS_H}")
        lits = set()
        calls = dict(STD); calls.update(sib)
        asserts, text, summed = formula(body, {"RSS": "RSS", "k": "k", "n": "n"}, calls, lits, name)
        if summed:
            raise TranslateError(f"{name}: unexpected `.sum()`")
        if asserts:
            # the preconditions (compiled out in the release build): integer comparisons are over Nat, `RSS > 0.0` over the scalar
            conj = " ∧ ".join(asserts)
            out.append(f"/-- the `assert`s of `{name}` ({STATS_H}); compiled out in the release build -/\n"
                       f"def {name}Asserts (RSS : α) (k n : Nat) : Prop := {conj}\n")
        out.append(f"/-- `{name}` ({STATS_H}): `{quote(body)}` -/\ndef {name}{inst(lits)} (log : α → α) (RSS : α) (k n : Nat) : α :=\n{text}\n")
        sib[name] = (lambda nm: one(3)(lambda a, b, c: f"({nm} log {atom(a)} {atom(b)} {atom(c)})"))(name)
    body = pre(T14.body_of(cpp, r"double\s+nano::wlearner::make_score\s*\(\s*const\s+wlearner_criterion\s+criterion\s*,\s*double\s+rss\s*,"
                                r"\s*const\s+int64_t\s+k\s*,\s*const\s+int64_t\s+n\s*\)", f"make_score in {CRIT_CPP}"))
    m = re.fullmatch(r"\s*rss\s*=\s*std::max\(\s*rss\s*,([^;]*)\)\s*;\s*switch\s*\(\s*criterion\s*\)\s*\{(.*)\}\s*", body, re.S)
    if not m:
        raise TranslateError(f"make_score: body is not `rss = std::max(rss, floor); switch (criterion) {{…}}`: {quote(body)[:160]}")
    lits = set()
    floor = expr(m.group(1), {"MACHEPS": "eps"}, STD, lits, "make_score (floor)")
    out.append(f"/-- the floor of `make_score` ({CRIT_CPP}): `rss = std::max(rss, {quote(m.group(1))})` -/\n"
               f"def scoreFloor{inst(lits)} (eps : α) : α := {floor}\n")
    parts = re.split(r"(case\s+wlearner_criterion::\w+\s*:|default\s*:)", m.group(2))
    if parts[0].strip():
        raise TranslateError("make_score: text before the first case label")
    arms = {}; default = None
    calls = dict(STD); calls.update(sib)
    for k in range(1, len(parts), 2):
        ml = re.match(r"case\s+wlearner_criterion::(\w+)", parts[k])
        mr = re.fullmatch(r"\s*return ([^;]*);\s*", parts[k + 1])
        if not mr:
            raise TranslateError(f"make_score: case body is not a single return: `{quote(parts[k + 1])[:80]}`")
        e = expr(mr.group(1), {"rss": "rss", "k": "k", "n": "n"}, calls, lits, "make_score")
        if ml:
            if ml.group(1) not in enum or ml.group(1) in arms:
                raise TranslateError(f"make_score: unexpected case label {ml.group(1)}")
            arms[ml.group(1)] = e
        else:
            default = e
    if default is None and len(arms) < len(enum):
        raise TranslateError("make_score: no default label and not every enumerator has a case")
    out.append(f"/-- `wlearner::make_score` ({CRIT_CPP}): `{quote(body)}` -/\n"
               f"def makeScore{inst(lits)} (log : α → α) (eps : α) (criterion : Criterion) (rss : α) (k n : Nat) : α :=\n"
               f"  let rss := gmax rss (scoreFloor eps)\n  match criterion with\n" +
               "".join(f"  | .{n} => {arms.get(n, default)}\n" for n in enum))
    out.append("end\nend NanoVerif.Gen.WLearnerCriterion\n")
    return "\n".join(out)


# ---------------------------------------------------------------------------------------------------------------------
# Gen/WLearnerAccumulator.lean

def member(src, regex, what):
    return T14.body_of(src, regex, what)


def size_calls():
    """`::nano::size(tdims())` = the number of outputs `T`"""
    return {"::nano::size": one(1)(lambda a: "T" if a == "TDIMS" else None),
            "tdims": lambda a: "TDIMS" if not a else None, "m_acc_sum_tdims": lambda a: "TDIMS" if not a else None}


def gen_accumulator(repo):
    hdr = read(repo, ACC_H); cpp = read(repo, AFFINE)
    out = [f"-- GENERATED by tools/props/c10.py (c10_translate.py) from {ACC_H}, {AFFINE} — do not edit\n"
           "/-!\n  The closed forms of the moment accumulator and of the affine weak learner (libnano), re-translated from the C++ source text on\n"
           "  every check (DESIGN.md §2.3.a). Core Lean only; self-contained. Every definition is ONE output component of an Eigen array expression\n"
           "  (`r1`, `rx`, `r2`, `w`, `b`, `vgrad` are the components, `x0`, `x1`, `x2`, `value` the scalars); a trailing `.sum()` is dropped and the\n"
           "  definition is named `…Term`. `epsilon1<scalar_t>()` is the parameter `eps1`; `x.square()` ↦ `x * x`; literals as in Model/WLearner.lean.\n"
           "  `Proofs/WLearnerGen.lean` proves the hand-written model text equal to these definitions.\n-/\n"
           "set_option linter.unusedVariables false\nnamespace NanoVerif.Gen.WLearnerAccumulator\nsection\n" + VARS, GMAX]
    lits = set()
    acc = lambda nm: one(1)(lambda a: nm if a == "bin" else None)
    calls = dict(STD); calls.update({n: acc(n) for n in ("x0", "x1", "x2", "r1", "rx", "r2")})
    for cname, lname, params in (("fit_constant", "fitConstant", "x0 r1"), ("rss_zero", "rssZero", "r2"), ("rss_constant", "rssConstant", "x0 r1 r2")):
        body = member(hdr, r"auto\s+" + cname + r"\s*\(\s*const\s+tensor_size_t\s+bin\s*\)\s*const", f"accumulator_t::{cname}")
        a, text, summed = formula(body, {"bin": "bin"}, calls, lits, cname)
        out.append(f"/-- `accumulator_t::{cname}` ({ACC_H}): `{quote(body)}`" + (" — the summand" if summed else "") + " -/\n"
                   f"def {lname}{'Term' if summed else ''} ({params} : α) : α :=\n{text}\n")
    # the two `update` overloads: compound assignments on the attributes of one bin
    for rx_, pars, pre_defs, tag in ((r"void\s+update\s*\(\s*const\s+tarray&\s+vgrad\s*,\s*const\s+tensor_size_t\s+bin\s*=\s*0\s*\)", "vgrad", [], "upd0"),
                                     (r"void\s+update\s*\(\s*const\s+scalar_t\s+value\s*,\s*const\s+tarray&\s+vgrad\s*,\s*const\s+tensor_size_t\s+bin\s*=\s*0\s*\)",
                                      "value vgrad", ["update(vgrad,bin)"], "upd")):
        body = member(hdr, rx_, f"accumulator_t::update({pars})")
        seen = []
        for st in T14.split_top(pre(body)):
            if st[0] != "stmt":
                raise TranslateError("accumulator_t::update: nested block")
            t = st[1]
            if t.replace(" ", "") in pre_defs:
                seen.append(t); continue
            m = re.fullmatch(r"(x0|x1|x2|r1|rx|r2)\(bin\) (\+=|-=) (.*)", t)
            if not m:
                raise TranslateError(f"accumulator_t::update: statement not understood: `{t}`")
            f, op, rhs = m.groups()
            e = expr(rhs, {"value": "value", "vgrad": "vgrad"}, STD, lits, "update")
            used = [p for p in pars.split() if re.search(r"\b" + p + r"\b", e)]
            out.append(f"/-- `accumulator_t::update({pars.replace(' ', ', ')})` ({ACC_H}): `{t};` -/\n"
                       f"def {tag}_{f} ({' '.join([f] + used)} : α) : α := {f} {op[0]} {atom(e)}\n")
            seen.append(f)
        want = ["x0", "r1", "r2"] if tag == "upd0" else ["update(vgrad, bin)", "x1", "x2", "rx"]
        if seen != want:
            raise TranslateError(f"accumulator_t::update({pars}): statements {seen}, expected {want}")
    # affine.cpp: cache_t
    bins = {"bin_affine": "A", "bin_missed": "M"}
    accA = lambda nm: one(1)(lambda a: nm if a == "A" else (nm + "m" if a == "M" else None))
    calls = dict(STD); calls.update({n: accA(n) for n in ("x0", "x1", "x2", "r1", "rx", "r2")})
    body = member(cpp, r"bool\s+constant\s*\(\s*\)\s*const", "affine cache_t::constant")
    a, text, s = formula(body, dict(bins, EPS1="eps1"), calls, lits, "constant")
    out.append(f"/-- `cache_t::constant` ({AFFINE}): `{quote(body)}` -/\ndef constant (eps1 x0 x1 x2 : α) : Prop :=\n{text}\n\n"
               "instance (eps1 x0 x1 x2 : α) : Decidable (constant eps1 x0 x1 x2) := by unfold constant; exact inferInstance\n")
    calls["constant"] = lambda a: "constant eps1 x0 x1 x2" if not a else None
    calls["fit_constant"] = one(1)(lambda a: "(fitConstant x0 r1)" if a == "A" else None)
    for nm in ("w", "b"):
        body = member(cpp, r"array_t\s+" + nm + r"\s*\(\s*\)\s*const", f"affine cache_t::{nm}")
        a, text, s = formula(body, dict(bins, ZERO="(0 : α)"), calls, lits, nm)
        out.append(f"/-- `cache_t::{nm}` ({AFFINE}), one component: `{quote(body)}` -/\ndef {nm} (eps1 x0 x1 x2 r1 rx : α) : α :=\n{text}\n")
    body = member(cpp, r"auto\s+rss_affine\s*\(\s*\)\s*const", "affine cache_t::rss_affine")
    a, text, s = formula(body, bins, calls, lits, "rss_affine", params_from={"w()": "w", "b()": "b"})
    if not s:
        raise TranslateError("rss_affine: expected `.sum()`")
    out.append(f"/-- `cache_t::rss_affine` ({AFFINE}), the summand; `w`, `b` = the components of `this->w()`, `this->b()`: `{quote(body)}` -/\n"
               f"def rssAffineTerm (x0 x1 x2 r1 rx r2 w b : α) : α :=\n{text}\n")
    body = member(cpp, r"auto\s+score\s*\(\s*const\s+wlearner_criterion\s+criterion\s*\)\s*const", "affine cache_t::score")
    sts = [st[1] if st[0] == "stmt" else None for st in T14.split_top(pre(body))]
    if len(sts) != 4 or None in sts:
        raise TranslateError(f"affine cache_t::score: expected `rss`, `k`, `n`, `return make_score(…)`: {quote(body)[:160]}")
    c2 = {"rss_affine": lambda a: "rssAffine" if not a else None, "rss_zero": one(1)(lambda a: "rssZeroMissed" if a == "M" else None)}
    m = re.fullmatch(r"const auto rss = (.*)", sts[0])
    if not m:
        raise TranslateError(f"affine cache_t::score: `{sts[0]}`")
    out.append(f"/-- the RSS handed to `make_score` by `cache_t::score` ({AFFINE}): `{sts[0]};` -/\n"
               f"def affineRss (rssAffine rssZeroMissed : α) : α := {expr(m.group(1), bins, c2, lits, 'affine score')}\n")
    m = re.fullmatch(r"const auto k = (.*)", sts[1])
    if not m:
        raise TranslateError(f"affine cache_t::score: `{sts[1]}`")
    out.append(f"/-- the parameter count of `cache_t::score` ({AFFINE}): `{sts[1]};` (`T` = `::nano::size(tdims())`) -/\n"
               f"def affineK (T : Nat) : Nat := {expr(m.group(1), {}, size_calls(), lits, 'affine score', nat=True)}\n")
    if sts[2].replace(" ", "") != "constauton=ICAST(x0(bin_affine)+x0(bin_missed))":
        raise TranslateError(f"affine cache_t::score: sample count not understood: `{sts[2]}`")
    if sts[3].replace(" ", "") != "returnmake_score(criterion,rss,k,n)":
        raise TranslateError(f"affine cache_t::score: `{sts[3]}`")
    body = member(cpp, r"void\s+affine_wlearner_t::do_predict\s*\(", "affine_wlearner_t::do_predict")
    out.append(predict_element(body, "affinePredict", "affine_wlearner_t::do_predict", AFFINE, lits))
    if lits:
        raise TranslateError(f"unexpected literals {sorted(lits)}")
    out.append("end\nend NanoVerif.Gen.WLearnerAccumulator\n")
    return "\n".join(out)


def predict_element(body, lname, cname, path, lits):
    """`outputs.vector(i) += w * value + b;` inside the loop_scalar lambda; `w`, `b` = `vector(0)`, `vector(1)`"""
    s = pre(body)
    for v, k in (("w", 0), ("b", 1)):
        if not re.search(r"const auto " + v + r"\s*=\s*vector\(" + str(k) + r"\)\s*;", s):
            raise TranslateError(f"{cname}: `const auto {v} = vector({k});` not found")
    ms = re.findall(r"outputs_vector\(i\)\s*\+=\s*([^;]*);", s)
    if not ms or any(" ".join(x.split()) != " ".join(ms[0].split()) for x in ms):
        raise TranslateError(f"{cname}: the added element is not unique")
    e = expr(ms[0], {"w": "w", "b": "b", "value": "value"}, STD, lits, cname)
    return (f"/-- what `{cname}` ({path}) adds to one output component: `outputs.vector(i) += {' '.join(ms[0].split())};` -/\n"
            f"def {lname} (w b value : α) : α := {e}\n")


# ---------------------------------------------------------------------------------------------------------------------
# Gen/WLearnerSweep.lean

def accept_rule(fit, score_name, what):
    """`if (std::isfinite(score) && score < cache.m_score)`"""
    ms = re.findall(r"if\s*\(\s*(std::isfinite\(\s*" + score_name + r"\s*\)[^{};]*)\)\s*\{", fit)
    if len(ms) != 1:
        raise TranslateError(f"{what}: acceptance rule of `{score_name}` not found (or not unique)")
    calls = {"std::isfinite": one(1)(lambda a: f"fin {atom(a)} = true")}
    return expr(ms[0], {score_name: "score", "cache_m_score": "best"}, calls, set(), what), " ".join(ms[0].split())


def sweep_rules(fit, what, thr_regex):
    ms = re.findall(r"if\s*\(([^(){};]*ivalue[12]_first[^(){};]*)\)\s*\{", fit)
    if len(ms) != 1:
        raise TranslateError(f"{what}: the distinct-values rule `if (ivalue1.first < ivalue2.first)` not found (or not unique)")
    b = {"ivalue1_first": "v1", "ivalue2_first": "v2"}
    lits = set()
    distinct = expr(ms[0], b, {}, lits, what)
    mt = re.findall(thr_regex, fit)
    if len(mt) != 1:
        raise TranslateError(f"{what}: the threshold assignment not found (or not unique)")
    thr = expr(mt[0], b, {}, lits, what)
    if lits:
        raise TranslateError(f"{what}: unexpected literals")
    if not re.search(r"const auto& ivalue1\s*=\s*cache_m_ivalues\[iv \+ 0\];\s*const auto& ivalue2\s*=\s*cache_m_ivalues\[iv \+ 1\];", fit):
        raise TranslateError(f"{what}: `ivalue1`, `ivalue2` are not the consecutive sorted values")
    return distinct, " ".join(ms[0].split()), thr, " ".join(mt[0].split())


def pos_parts(cpp, names, out, prefix, path):
    for nm in names:
        f = nm[:2]
        body = member(cpp, r"auto\s+" + nm + r"_pos\s*\(\s*\)\s*const", f"{prefix} cache_t::{nm}_pos")
        calls = {f"m_acc_sum_{f}": lambda a: "sum" if not a else None, f"m_acc_neg_{f}": lambda a: "neg" if not a else None}
        a, text, s = formula(body, {}, calls, set(), f"{nm}_pos")
        out.append(f"/-- `cache_t::{nm}_pos` ({path}): `{quote(body)}` -/\ndef {prefix}_{nm}_pos (sum neg : α) : α :=\n{text}\n")
        body = member(cpp, r"auto\s+" + nm + r"_neg\s*\(\s*\)\s*const", f"{prefix} cache_t::{nm}_neg")
        if quote(body).replace(" ", "") != f"returnm_acc_neg.{f}();":
            raise TranslateError(f"{prefix} cache_t::{nm}_neg is not `return m_acc_neg.{f}();`")


def gen_sweep(repo):
    st = read(repo, STUMP); hg = read(repo, HINGE)
    out = [f"-- GENERATED by tools/props/c10.py (c10_translate.py) from {STUMP}, {HINGE} — do not edit\n"
           "/-!\n  The scalar formulas of the decision stump and of the hinge (libnano), re-translated from the C++ source text on every check\n"
           "  (DESIGN.md §2.3.a). Core Lean only; self-contained. Conventions as in Gen/WLearnerAccumulator.lean (one output component per\n"
           "  definition, `…Term` = summand of a `.sum()`); `std::isfinite` is the parameter `fin`; `v1`, `v2` = `ivalue1.first`, `ivalue2.first`,\n"
           "  two consecutive entries of the sorted values. `Proofs/WLearnerGen.lean` proves the model text equal to these definitions.\n-/\n"
           "set_option linter.unusedVariables false\nnamespace NanoVerif.Gen.WLearnerSweep\nsection\n" + VARS]
    none = set()
    # ---- stump
    body = member(st, r"auto\s+score\s*\(\s*const\s+scalar_t\s+r0\s*,\s*const\s+tarray&\s+r1\s*,\s*const\s+tarray&\s+r2\s*,\s*const\s+toutputs&\s+outputs\s*\)",
                  "::score of stump.cpp")
    a, text, s = formula(body, {x: x for x in ("r0", "r1", "r2", "outputs")}, STD, none, "stump ::score")
    if not s:
        raise TranslateError("stump ::score: expected `.sum()`")
    out.append(f"/-- `::score` ({STUMP}), the summand: `{quote(body)}` -/\ndef stumpScoreTerm (r0 r1 r2 outputs : α) : α :=\n{text}\n")
    pos_parts(st, ("x0", "r1", "r2"), out, "stump", STUMP)
    for side in ("neg", "pos"):
        body = member(st, r"auto\s+output_" + side + r"\s*\(\s*\)\s*const", f"stump cache_t::output_{side}")
        calls = {f"r1_{side}": lambda a: "r1" if not a else None, f"x0_{side}": lambda a: "x0" if not a else None}
        a, text, s = formula(body, {}, calls, none, f"output_{side}")
        out.append(f"/-- `cache_t::output_{side}` ({STUMP}): `{quote(body)}` (`r1`, `x0` = `r1_{side}()`, `x0_{side}()`) -/\n"
                   f"def stumpOutput_{side} (r1 x0 : α) : α :=\n{text}\n")
    body = member(st, r"auto\s+score\s*\(\s*const\s+wlearner_criterion\s+criterion\s*,\s*const\s+scalar_t\s+missing_rss\s*,\s*const\s+scalar_t\s+missing_cnt\s*\)\s*const",
                  "stump cache_t::score")
    sts = [x[1] if x[0] == "stmt" else None for x in T14.split_top(pre(body))]
    if len(sts) != 4 or None in sts:
        raise TranslateError(f"stump cache_t::score: expected `rss`, `k`, `n`, `return make_score(…)`: {quote(body)[:160]}")
    nul = lambda v: (lambda a: v if not a else None)
    side_calls = {}
    for side in ("neg", "pos"):
        side_calls.update({f"x0_{side}": nul(f"x0{side}"), f"r1_{side}": nul(f"r1{side}"), f"r2_{side}": nul(f"r2{side}"),
                           f"output_{side}": nul(f"out{side}")})
    side_calls["::score"] = one(4)(lambda a, b, c, d: "scoreNeg" if (a, b, c, d) == ("x0neg", "r1neg", "r2neg", "outneg")
                                   else ("scorePos" if (a, b, c, d) == ("x0pos", "r1pos", "r2pos", "outpos") else None))
    m = re.fullmatch(r"const auto rss = (.*)", sts[0])
    if not m:
        raise TranslateError(f"stump cache_t::score: `{sts[0]}`")
    out.append(f"/-- the RSS handed to `make_score` by `cache_t::score` ({STUMP}): `{sts[0]};` (`scoreNeg`, `scorePos` = `::score` of the two sides "
               f"with `output_neg()`, `output_pos()`) -/\n"
               f"def stumpRss (scoreNeg scorePos missing_rss : α) : α := {expr(m.group(1), {'missing_rss': 'missing_rss'}, side_calls, none, 'stump score')}\n")
    m = re.fullmatch(r"const auto k = (.*)", sts[1])
    if not m:
        raise TranslateError(f"stump cache_t::score: `{sts[1]}`")
    out.append(f"/-- the parameter count of `cache_t::score` ({STUMP}): `{sts[1]};` -/\n"
               f"def stumpK (T : Nat) : Nat := {expr(m.group(1), {}, size_calls(), none, 'stump score', nat=True)}\n")
    if sts[2].replace(" ", "") != "constauton=ICAST(m_acc_sum_x0()+missing_cnt)":
        raise TranslateError(f"stump cache_t::score: sample count not understood: `{sts[2]}`")
    if sts[3].replace(" ", "") != "returnmake_score(criterion,rss,k,n)":
        raise TranslateError(f"stump cache_t::score: `{sts[3]}`")
    fit = pre(member(st, r"scalar_t\s+stump_wlearner_t::do_fit\s*\(", "stump_wlearner_t::do_fit"))
    distinct, dq, thr, tq = sweep_rules(fit, "stump do_fit", r"cache_m_threshold\s*=\s*([^;]*);")
    out.append(f"/-- the distinct-values rule of the sweep of `stump_wlearner_t::do_fit` ({STUMP}): `if ({dq})` -/\n"
               f"def stumpDistinct (v1 v2 : α) : Prop := {distinct}\n\n"
               f"instance (v1 v2 : α) : Decidable (stumpDistinct v1 v2) := inferInstanceAs (Decidable ({distinct}))\n")
    out.append(f"/-- the threshold tried between two distinct consecutive values ({STUMP}): `cache.m_threshold = {tq};` -/\n"
               f"def stumpThreshold (v1 v2 : α) : α := {thr}\n")
    acc, aq = accept_rule(fit, "score", "stump do_fit")
    out.append(f"/-- the acceptance rule of a cache ({STUMP}): `if ({aq})` -/\n"
               f"def stumpAccept (fin : α → Bool) (score best : α) : Prop := {acc}\n\n"
               f"instance (fin : α → Bool) (score best : α) : Decidable (stumpAccept fin score best) := inferInstanceAs (Decidable ({acc}))\n")
    if not re.search(r"cache_m_tables_array\(0\)\s*=\s*cache_output_neg\(\);\s*cache_m_tables_array\(1\)\s*=\s*cache_output_pos\(\);", fit):
        raise TranslateError("stump do_fit: the table rows are not `output_neg()`, `output_pos()`")
    if not re.search(r"cache_m_acc_neg_update\(gradients_array\(ivalue1_second\)\);\s*if", fit):
        raise TranslateError("stump do_fit: the running update before the distinct-values rule not found")
    pr = pre(member(st, r"void\s+stump_wlearner_t::do_predict\s*\(", "stump_wlearner_t::do_predict"))
    if not re.search(r"const auto lo\s*=\s*vector\(0\);\s*const auto hi\s*=\s*vector\(1\);", pr):
        raise TranslateError("stump do_predict: `lo`, `hi` are not `vector(0)`, `vector(1)`")
    ms = re.findall(r"outputs_vector\(i\)\s*\+=\s*([^;]*);", pr)
    if len(ms) != 1:
        raise TranslateError("stump do_predict: the added element not found")
    e = expr(ms[0], {"value": "value", "m_threshold": "threshold", "lo": "lo", "hi": "hi"}, {}, none, "stump do_predict")
    out.append(f"/-- what `stump_wlearner_t::do_predict` ({STUMP}) adds to one output component: `outputs.vector(i) += {' '.join(ms[0].split())};` -/\n"
               f"def stumpPredict (value threshold lo hi : α) : α := {e}\n")
    sp = pre(member(st, r"cluster_t\s+stump_wlearner_t::split\s*\(", "stump_wlearner_t::split"))
    ms = re.findall(r"cluster_assign\(\s*samples\(i\)\s*,\s*([^;]*)\)\s*;", sp)
    if len(ms) != 1:
        raise TranslateError("stump split: the assignment not found")
    e = expr(ms[0], {"value": "value", "threshold": "threshold"}, {}, none, "stump split", nat=True)
    out.append(f"/-- the group `stump_wlearner_t::split` ({STUMP}) assigns: `cluster.assign(samples(i), {' '.join(ms[0].split())});` -/\n"
               f"def stumpGroup (value threshold : α) : Nat := {e}\n")
    # ---- hinge
    six = ("x0", "x1", "x2", "r1", "rx", "r2")
    body = member(hg, r"auto\s+beta\s*\(\s*const\s+scalar_t\s+x0\s*,\s*const\s+scalar_t\s+x1\s*,\s*const\s+scalar_t\s+x2\s*,\s*const\s+tarray&\s+r1\s*,"
                      r"\s*const\s+tarray&\s+rx\s*,\s*const\s+scalar_t\s+threshold\s*\)", "::beta of hinge.cpp")
    a, text, s = formula(body, {x: x for x in ("x0", "x1", "x2", "r1", "rx", "threshold")}, STD, none, "hinge ::beta")
    out.append(f"/-- `::beta` ({HINGE}), one component: `{quote(body)}` -/\ndef hingeBeta (x0 x1 x2 r1 rx threshold : α) : α :=\n{text}\n")
    body = member(hg, r"auto\s+score\s*\(\s*const\s+scalar_t\s+x0\s*,\s*const\s+scalar_t\s+x1\s*,\s*const\s+scalar_t\s+x2\s*,\s*const\s+tarray&\s+r1\s*,"
                      r"\s*const\s+tarray&\s+rx\s*,\s*const\s+tarray&\s+r2\s*,\s*const\s+scalar_t\s+threshold\s*,\s*const\s+tbarray&\s+beta\s*\)",
                  "::score of hinge.cpp")
    a, text, s = formula(body, {x: x for x in six + ("threshold", "beta")}, STD, none, "hinge ::score")
    if not s:
        raise TranslateError("hinge ::score: expected `.sum()`")
    out.append(f"/-- `::score` ({HINGE}), the summand: `{quote(body)}` -/\ndef hingeScoreTerm (x0 x1 x2 r1 rx r2 threshold beta : α) : α :=\n{text}\n")
    pos_parts(hg, six, out, "hinge", HINGE)
    for side in ("neg", "pos"):
        body = member(hg, r"auto\s+beta_" + side + r"\s*\(\s*const\s+scalar_t\s+threshold\s*\)\s*const", f"hinge cache_t::beta_{side}")
        want = "return::beta(" + ",".join(f"{x}_{side}()" for x in ("x0", "x1", "x2", "r1", "rx")) + ",threshold);"
        if quote(body).replace(" ", "") != want:
            raise TranslateError(f"hinge cache_t::beta_{side}: not `{want}`")
    sc = {}
    for side in ("neg", "pos"):
        sc.update({f"{x}_{side}": nul(f"{x}{side}") for x in six})
        sc[f"beta_{side}"] = one(1)(lambda a, side=side: f"beta{side}" if a == "threshold" else None)
    sc["beta0"] = nul("beta0")

    def hscore(*a):
        for side in ("neg", "pos"):
            if a[:7] == tuple(f"{x}{side}" for x in six) + ("threshold",):
                return {"beta" + side: "s" + side.capitalize() + "Beta", "beta0": "s" + side.capitalize() + "Zero"}.get(a[7])
        return None
    sc["::score"] = one(8)(hscore)
    for side, other in (("neg", "pos"), ("pos", "neg")):
        body = member(hg, r"auto\s+score_" + side + r"\s*\(\s*const\s+scalar_t\s+threshold\s*\)\s*const", f"hinge cache_t::score_{side}(threshold)")
        a, text, s = formula(body, {"threshold": "threshold"}, sc, none, f"score_{side}")
        ps = ("sNegBeta sPosZero" if side == "neg" else "sNegZero sPosBeta")
        out.append(f"/-- `cache_t::score_{side}(threshold)` ({HINGE}): `{quote(body)}` (`s<Side>Beta` / `s<Side>Zero` = `::score` of that side with its "
                   f"`beta_<side>(threshold)` / with `beta0()` = 0) -/\ndef hingeScore_{side} ({ps} : α) : α :=\n{text}\n")
        body = member(hg, r"auto\s+score_" + side + r"\s*\(\s*const\s+scalar_t\s+threshold\s*,\s*const\s+wlearner_criterion\s+criterion\s*,\s*const\s+scalar_t\s+missing_rss\s*,"
                          r"\s*const\s+scalar_t\s+missing_cnt\s*\)\s*const", f"hinge cache_t::score_{side}(threshold, criterion, …)")
        sts = [x[1] if x[0] == "stmt" else None for x in T14.split_top(pre(body))]
        if len(sts) != 4 or None in sts:
            raise TranslateError(f"hinge cache_t::score_{side}: expected `rss`, `k`, `n`, `return make_score(…)`")
        m = re.fullmatch(r"const auto rss = (.*)", sts[0])
        if not m:
            raise TranslateError(f"hinge cache_t::score_{side}: `{sts[0]}`")
        c3 = {f"score_{side}": one(1)(lambda a: "score" if a == "threshold" else None)}
        out.append(f"/-- the RSS handed to `make_score` by `cache_t::score_{side}` ({HINGE}): `{sts[0]};` -/\n"
                   f"def hingeRss_{side} (score missing_rss : α) : α := "
                   f"{expr(m.group(1), {'threshold': 'threshold', 'missing_rss': 'missing_rss'}, c3, none, 'hinge score')}\n")
        m = re.fullmatch(r"const auto k = (.*)", sts[1])
        if not m:
            raise TranslateError(f"hinge cache_t::score_{side}: `{sts[1]}`")
        out.append(f"/-- the parameter count of `cache_t::score_{side}` ({HINGE}): `{sts[1]};` -/\n"
                   f"def hingeK_{side} (T : Nat) : Nat := {expr(m.group(1), {}, size_calls(), none, 'hinge score', nat=True)}\n")
        if sts[2].replace(" ", "") != f"constauton=ICAST(x0_{side}()+missing_cnt)":
            raise TranslateError(f"hinge cache_t::score_{side}: sample count not understood: `{sts[2]}`")
        if sts[3].replace(" ", "") != "returnmake_score(criterion,rss,k,n)":
            raise TranslateError(f"hinge cache_t::score_{side}: `{sts[3]}`")
    fit = pre(member(hg, r"scalar_t\s+hinge_wlearner_t::do_fit\s*\(", "hinge_wlearner_t::do_fit"))
    distinct, dq, thr, tq = sweep_rules(fit, "hinge do_fit", r"const auto threshold\s*=\s*([^;]*);")
    out.append(f"/-- the distinct-values rule of the sweep of `hinge_wlearner_t::do_fit` ({HINGE}): `if ({dq})` -/\n"
               f"def hingeDistinct (v1 v2 : α) : Prop := {distinct}\n\n"
               f"instance (v1 v2 : α) : Decidable (hingeDistinct v1 v2) := inferInstanceAs (Decidable ({distinct}))\n")
    out.append(f"/-- the threshold tried between two distinct consecutive values ({HINGE}): `const auto threshold = {tq};` -/\n"
               f"def hingeThreshold (v1 v2 : α) : α := {thr}\n")
    accs = [accept_rule(fit, nm, "hinge do_fit") for nm in ("score_neg", "score_pos")]
    if accs[0][0] != accs[1][0]:
        raise TranslateError("hinge do_fit: the two acceptance rules differ")
    out.append(f"/-- the acceptance rule of a cache, the same for both hinges ({HINGE}): `if ({accs[0][1]})` -/\n"
               f"def hingeAccept (fin : α → Bool) (score best : α) : Prop := {accs[0][0]}\n\n"
               f"instance (fin : α → Bool) (score best : α) : Decidable (hingeAccept fin score best) := inferInstanceAs (Decidable ({accs[0][0]}))\n")
    rows = re.findall(r"cache_m_tables_array\(1\)\s*=\s*([^;]*);", fit)
    if len(rows) != 2 or " ".join(rows[0].split()) != " ".join(rows[1].split()):
        raise TranslateError("hinge do_fit: the second table row is not assigned twice by the same expression")
    e = expr(rows[0], {"threshold": "threshold"}, {"cache_m_tables_array": one(1)(lambda a: "beta" if a == "(0 : α)" else None)}, none, "hinge do_fit")
    # (the `0` of `array(0)` is a scalar literal for the parser)
    out.append(f"/-- the second table row ({HINGE}): `cache.m_tables.array(1) = {' '.join(rows[0].split())};` (`beta` = `cache.m_tables.array(0)`) -/\n"
               f"def hingeIntercept (threshold beta : α) : α := {e}\n")
    r0 = [" ".join(x.split()) for x in re.findall(r"cache_m_tables_array\(0\)\s*=\s*([^;]*);", fit)]
    if r0 != ["cache_beta_neg(threshold)", "cache_beta_pos(threshold)"]:
        raise TranslateError("hinge do_fit: the first table row is not `beta_neg(threshold)` (left) / `beta_pos(threshold)` (right)")
    if not re.search(r"cache_m_acc_neg_update\(ivalue1_first, gradients_array\(ivalue1_second\)\);\s*if", fit):
        raise TranslateError("hinge do_fit: the running update before the distinct-values rule not found")
    body = member(hg, r"void\s+hinge_wlearner_t::do_predict\s*\(", "hinge_wlearner_t::do_predict")
    pr = pre(body)
    m = re.search(r"switch\s*\(\s*m_hinge\s*\)\s*\{\s*case\s+hinge_type::left\s*:(.*?)break\s*;\s*default\s*:(.*?)break\s*;\s*\}", pr, re.S)
    if not m:
        raise TranslateError("hinge do_predict: `switch (m_hinge) { case hinge_type::left: … default: … }` not found")
    for side, txt in (("left", m.group(1)), ("right", m.group(2))):
        ms = re.findall(r"if\s*\(([^(){};]*)\)\s*\{\s*outputs_vector\(i\)\s*\+=", txt)
        if len(ms) != 1:
            raise TranslateError(f"hinge do_predict: the activity condition of the {side} hinge not found")
        e = expr(ms[0], {"value": "value", "m_threshold": "threshold"}, {}, none, "hinge do_predict")
        out.append(f"/-- when the {side} hinge adds its prediction (`hinge_wlearner_t::do_predict`, {HINGE}): `if ({' '.join(ms[0].split())})` -/\n"
                   f"def hingeActive_{side} (value threshold : α) : Prop := {e}\n\n"
                   f"instance (value threshold : α) : Decidable (hingeActive_{side} value threshold) := inferInstanceAs (Decidable ({e}))\n")
    lits = set()
    out.append(predict_element(body, "hingePredict", "hinge_wlearner_t::do_predict", HINGE, lits))
    if lits:
        raise TranslateError("hinge do_predict: unexpected literals")
    out.append("end\nend NanoVerif.Gen.WLearnerSweep\n")
    return "\n".join(out)


# ---------------------------------------------------------------------------------------------------------------------
# Gen/WLearnerTable.lean

def gen_table(repo):
    tb = read(repo, TABLE); ac = read(repo, ACC_CPP)
    out = [f"-- GENERATED by tools/props/c10.py (c10_translate.py) from {TABLE}, {ACC_CPP} — do not edit\n"
           "/-!\n  The scalar formulas of the look-up-table weak learners (dense / k-best / k-split / discrete step; libnano), re-translated from the\n"
           "  C++ source text on every check (DESIGN.md §2.3.a). Core Lean only; self-contained. Conventions as in Gen/WLearnerAccumulator.lean.\n"
           "  `Proofs/WLearnerGen.lean` proves the model text equal to these definitions.\n-/\n"
           "set_option linter.unusedVariables false\nnamespace NanoVerif.Gen.WLearnerTable\nsection\n" + VARS]
    none = set()
    acc = lambda nm: one(1)(lambda a: nm if a == "bin" else None)
    calls = dict(STD); calls.update({n: acc(n) for n in ("x0", "r1", "r2")})
    body = member(tb, r"auto\s+score\s*\(\s*const\s+tensor_size_t\s+bin\s*\)\s*const", "table cache_t::score(bin)")
    a, text, s = formula(body, {"bin": "bin"}, calls, none, "table score(bin)")
    if not s:
        raise TranslateError("table cache_t::score(bin): expected `.sum()`")
    out.append(f"/-- `cache_t::score(bin)` ({TABLE}), the summand: `{quote(body)}` -/\ndef binScoreTerm (x0 r1 r2 : α) : α :=\n{text}\n")
    fns = {}
    for nm, hdr in (("score_dense", r"void\s+score_dense\s*\("), ("score_kbest", r"void\s+score_kbest\s*\("), ("score_ksplit", r"void\s+score_ksplit\s*\(")):
        fns[nm] = pre(member(tb, hdr, f"table cache_t::{nm}"))
    # the parameter counts
    for nm, cnt in (("score_dense", "bins"), ("score_kbest", "kbest"), ("score_ksplit", "ksplit")):
        ms = re.findall(r"const auto k\s*=\s*([^;]*);", fns[nm])
        if len(ms) != 1:
            raise TranslateError(f"{nm}: `const auto k = …;` not found (or not unique)")
        e = expr(ms[0], {cnt: "rows"}, size_calls(), none, nm, nat=True)
        out.append(f"/-- the parameter count of `cache_t::{nm}` ({TABLE}): `const auto k = {' '.join(ms[0].split())};` (`rows` = `{cnt}`) -/\n"
                   f"def {nm.split('_')[1]}K (rows T : Nat) : Nat := {e}\n")
        if len(re.findall(r"const auto n\s*=\s*m_samples\s*;", fns[nm])) != 1:
            raise TranslateError(f"{nm}: `const auto n = m_samples;` not found")
        if len(re.findall(r"const auto score\s*=\s*make_score\(criterion, rss, k, n\)\s*;", fns[nm])) != 1:
            raise TranslateError(f"{nm}: `const auto score = make_score(criterion, rss, k, n);` not found")
    # the acceptance rule, the same in the three functions
    rules = []
    for nm in fns:
        ms = re.findall(r"if\s*\(\s*(std::isfinite\(\s*score\s*\)\s*&&\s*\((?:[^(){};]|\([^(){};]*\))*\))\s*\)\s*\{", fns[nm])
        if len(ms) != 1:
            raise TranslateError(f"{nm}: the acceptance rule not found (or not unique)")
        c2 = {"std::isfinite": one(1)(lambda a: f"fin {atom(a)} = true")}
        rules.append((expr(ms[0], {"score": "score", "m_score": "best", "feature": "feature", "m_feature": "bestFeature"}, c2, none, nm, eq=True),
                      " ".join(ms[0].split())))
    if len({r[0] for r in rules}) != 1:
        raise TranslateError("table cache_t: the acceptance rules of score_dense / score_kbest / score_ksplit differ")
    out.append(f"/-- the acceptance rule of a table cache, the same in `score_dense`, `score_kbest`, `score_ksplit` ({TABLE}): `if ({rules[0][1]})` -/\n"
               f"def tableAccept (fin : α → Bool) (score best : α) (feature bestFeature : Nat) : Prop := {rules[0][0]}\n\n"
               f"instance [DecidableEq α] (fin : α → Bool) (score best : α) (feature bestFeature : Nat) :\n"
               f"    Decidable (tableAccept fin score best feature bestFeature) := inferInstanceAs (Decidable ({rules[0][0]}))\n")
    # the table rows of score_dense / score_kbest
    for nm, idx in (("score_dense", "bin"), ("score_kbest", "fv")):
        ms = re.findall(r"m_tables_array\(" + idx + r"\)\s*=\s*([^;]*);", fns[nm])
        if len(ms) != 1:
            raise TranslateError(f"{nm}: the table row assignment not found")
        e = expr(ms[0], {"bin": "bin"}, calls, none, nm)
        out.append(f"/-- a table row of `cache_t::{nm}` ({TABLE}), one component: `m_tables.array({idx}) = {' '.join(ms[0].split())};` -/\n"
                   f"def {nm.split('_')[1]}Row (r1 x0 : α) : α := {e}\n")
    # the per-cluster RSS of score_ksplit
    ms = re.findall(r"rss\s*\+=\s*(\([^;]*\))\.sum\(\)\s*;", fns["score_ksplit"])
    if len(ms) != 1:
        raise TranslateError("score_ksplit: `rss += (…).sum();` not found")
    c3 = dict(STD); c3.update({"r1_array": one(1)(lambda a: "r1" if a == "fv" else None), "r2_array": one(1)(lambda a: "r2" if a == "fv" else None),
                               "x0": one(1)(lambda a: "x0" if a == "fv" else None)})
    e = expr(ms[0], {"fv": "fv"}, c3, none, "score_ksplit")
    out.append(f"/-- the RSS of one cluster in `cache_t::score_ksplit` ({TABLE}), the summand: `rss += {' '.join(ms[0].split())}.sum();` -/\n"
               f"def ksplitScoreTerm (x0 r1 r2 : α) : α := {e}\n")
    for a_, b_ in (("x0", "cluster_x0"), ("r1", "cluster_r1"), ("r2", "cluster_r2")):
        if not re.search(r"const auto " + a_ + r"\s*=\s*" + b_ + r"_tensor\(ic\);", fns["score_ksplit"]):
            raise TranslateError(f"score_ksplit: `{a_}` is not `{b_}.tensor(ic)`")
    # accumulator_t::sort: the delta of a bin
    body = pre(member(ac, r"wlearner::accumulator_t::sort\s*\(\s*\)\s*const", "accumulator_t::sort"))
    ms = re.findall(r"deltas_emplace_back\(\s*(.*?)\s*,\s*bin\s*\)\s*;", body)
    if len(ms) != 1:
        raise TranslateError("accumulator_t::sort: `deltas.emplace_back(…, bin);` not found")
    txt = ms[0].replace("SQ(r1(bin)).sum()", "SUMSQ")
    e = expr(txt, {"bin": "bin", "SUMSQ": "sumsq"}, calls, none, "accumulator_t::sort")
    out.append(f"/-- the key of a bin in `accumulator_t::sort` ({ACC_CPP}): `deltas.emplace_back({' '.join(ms[0].split())}, bin);` "
               f"(`sumsq` = `r1(bin).square().sum()`) -/\ndef binDelta (sumsq x0 : α) : α := {e}\n")
    if not re.search(r"std::sort\(deltas_begin\(\), deltas_end\(\)\);", body):
        raise TranslateError("accumulator_t::sort: `std::sort(deltas.begin(), deltas.end());` not found")
    out.append("end\nend NanoVerif.Gen.WLearnerTable\n")
    return "\n".join(out)


def translate():
    for path, g in ((OUT_CRIT, gen_criterion), (OUT_ACC, gen_accumulator), (OUT_SWEEP, gen_sweep), (OUT_TABLE, gen_table)):
        try:
            text = g(vlib.REPO)
        except TranslateError as ex:
            raise vlib.Broken("translate", f"Gen/{os.path.basename(path)}: {ex}")
        vlib.write_if_changed(path, text)
    return True


if __name__ == "__main__":
    import sys
    for g in (gen_criterion, gen_accumulator, gen_sweep, gen_table):
        sys.stdout.write(g(vlib.REPO))
