"""C01 / C02: C++ -> Lean translator for the decision logic of the solver skeleton (DESIGN.md §2.3.a).

Extracts, *by function name* from the current source text of the repository under check,
  enum class solver_status                                  (include/nano/solver/status.h)
  solver_t::done                (the status decision)       (src/solver.cpp)
  solver_state_t::gradient_test(vector_cmap_t)              (src/solver/state.cpp)
  solver_state_t::valid         (the shape of the conjunction)
  solver_state_t::update_if_better  (the `isfinite` guard, `df`, `better = df > 0.0`, what is recorded in the history)
  solver_state_t::update_calls  (the counters are copies of the function's counters)
  nano::converged
  function_t::vgrad             (how the function's counters move)          (src/function.cpp)
  the `converged` flag, the loop guard and the returned state of the four line-search solver bodies
                                (src/solver/gd.cpp, cgd.cpp, lbfgs.cpp, quasi.cpp)
and emits lean/NanoVerif/Gen/DoneLogic.lean, generic over the scalar. Statement shapes are matched with regular
expressions; scalar/boolean expressions are parsed by a small recursive-descent parser. Anything that does not have the
expected shape raises vlib.Broken("translate", ...): the obligation then counts as broken.
"""
import os, re
from fractions import Fraction
import vlib

OUT = os.path.join(vlib.LEAN, "NanoVerif", "Gen", "DoneLogic.lean")


class TranslateError(Exception):
    pass


def strip_comments(s):
    s = re.sub(r"/\*.*?\*/", " ", s, flags=re.S)
    return re.sub(r"//[^\n]*", " ", s)


def read(repo, path):
    try:
        return strip_comments(open(os.path.join(repo, path)).read())
    except OSError as ex:
        raise TranslateError(f"cannot read {path}: {ex}")


def body_of(src, qualified_name, path, params_re=r"(?:[^()]|\((?:[^()]|\([^()]*\))*\))*"):
    """text between the braces of the definition `... qualified_name(<params>) [const] { ... }`"""
    m = re.search(r"\b" + re.escape(qualified_name) + r"\s*\(" + params_re + r"\)\s*(?:const)?\s*(?:noexcept)?\s*\{", src)
    if not m:
        raise TranslateError(f"definition of {qualified_name} not found in {path}")
    return balanced(src, m.end(), qualified_name), m


def balanced(src, start, what, open_="{", close="}"):
    i = start; depth = 1
    while depth:
        if i >= len(src):
            raise TranslateError(f"unbalanced {open_}{close} in {what}")
        c = src[i]
        depth += (c == open_) - (c == close)
        i += 1
    return src[start:i - 1]


def squeeze(s):
    return " ".join(s.split())


# ---------------------------------------------------------------------------------------------------------------------
# expressions

TOK = re.compile(r"\s*(?:(\d+\.\d*(?:[eE][-+]?\d+)?|\.\d+(?:[eE][-+]?\d+)?|\d+(?:[eE][-+]?\d+)?)[uU]?"
                 r"|([A-Za-z_][A-Za-z_0-9]*(?:<[A-Za-z_:0-9]*>)?(?:(?:::|\.|->)[A-Za-z_][A-Za-z_0-9]*(?:<[A-Za-z_:0-9]*>)?)*)"
                 r"|(<=|>=|==|!=|&&|\|\||\+=|[-+*/()<>,!?:]))")


def tokenize(s):
    out = []; i = 0
    while i < len(s):
        if s[i:].strip() == "":
            break
        m = TOK.match(s, i)
        if not m:
            raise TranslateError("cannot tokenize at: " + s[i:i + 40].strip())
        if m.group(1):
            out.append(("num", m.group(1)))
        elif m.group(2):
            out.append(("id", m.group(2)))
        else:
            out.append(("op", m.group(3)))
        i = m.end()
    return out


def lean_number(text):
    q = Fraction(text)
    if q.denominator == 1:
        return f"({q.numerator} : α)"
    if q.numerator >= 2 ** 53 or q.denominator >= 2 ** 53:
        raise TranslateError(f"literal {text} is not a quotient of small integers")
    return f"(({q.numerator} : α) / ({q.denominator} : α))"


class Parser:
    """C++ expression -> (kind, lean) with kind in {bool, scal, nat, status:<..>, sel}; `bind` maps C++ symbols and whole
    call expressions (tokens glued without blanks) to (kind, lean variable)."""

    def __init__(self, text, bind, what):
        self.t = tokenize(text); self.i = 0; self.bind = bind; self.what = what

    def fail(self, msg):
        raise TranslateError(f"{self.what}: {msg}")

    def peek(self):
        return self.t[self.i] if self.i < len(self.t) else ("eof", "")

    def eat(self, v=None):
        k = self.peek()
        if v is not None and k[1] != v:
            self.fail(f"expected {v!r}, got {k[1]!r}")
        if k[0] == "eof":
            self.fail("unexpected end of expression")
        self.i += 1
        return k

    def parse(self):
        e = self.ternary()
        if self.peek()[0] != "eof":
            self.fail(f"trailing tokens from {self.peek()[1]!r}")
        return e

    def want(self, e, kind):
        if e[0] != kind:
            self.fail(f"expected a {kind} expression, got {e[0]}: {e[1]}")
        return e[1]

    def ternary(self):
        c = self.orx()
        if self.peek()[1] == "?":
            self.eat()
            a = self.ternary(); self.eat(":"); b = self.ternary()
            if a[0] != b[0]:
                self.fail(f"branches of ?: have kinds {a[0]} / {b[0]}")
            return (a[0], f"(if {self.want(c, 'bool')} then {a[1]} else {b[1]})")
        return c

    def orx(self):
        a = self.andx()
        while self.peek()[1] == "||":
            self.eat(); b = self.andx()
            a = ("bool", f"({self.want(a, 'bool')} || {self.want(b, 'bool')})")
        return a

    def andx(self):
        a = self.cmp()
        while self.peek()[1] == "&&":
            self.eat(); b = self.cmp()
            a = ("bool", f"({self.want(a, 'bool')} && {self.want(b, 'bool')})")
        return a

    def cmp(self):
        a = self.add()
        if self.peek()[1] in ("<=", ">=", "<", ">"):
            op = self.eat()[1]; b = self.add()
            lean = {"<=": "≤", ">=": "≥", "<": "<", ">": ">"}[op]
            if a[0] != b[0] or a[0] not in ("scal", "nat"):
                self.fail(f"comparison of {a[0]} with {b[0]}")
            return ("bool", f"decide ({a[1]} {lean} {b[1]})")
        if self.peek()[1] in ("==", "!="):
            self.fail("equality comparison is not translated")
        return a

    def add(self):
        a = self.mul()
        while self.peek()[1] in ("+", "-"):
            op = self.eat()[1]; b = self.mul()
            if a[0] != b[0] or a[0] not in ("scal", "nat") or (a[0] == "nat" and op == "-"):
                self.fail(f"{a[0]} {op} {b[0]}")
            a = (a[0], f"({a[1]} {op} {b[1]})")
        return a

    def mul(self):
        a = self.unary()
        while self.peek()[1] in ("*", "/"):
            op = self.eat()[1]; b = self.unary()
            a = ("scal", f"({self.want(a, 'scal')} {op} {self.want(b, 'scal')})")
        return a

    def unary(self):
        k = self.peek()[1]
        if k == "-":
            self.eat(); return ("scal", f"(-{self.want(self.unary(), 'scal')})")
        if k == "+":
            self.eat(); return self.unary()
        if k == "!":
            self.eat(); return ("bool", f"(!{self.want(self.unary(), 'bool')})")
        return self.primary()

    def primary(self):
        k = self.eat()
        if k[0] == "num":
            return ("scal", lean_number(k[1]))
        if k[1] == "(":
            e = self.ternary(); self.eat(")"); return e
        if k[0] == "id":
            name = k[1]
            if name in ("true", "false"):
                return ("bool", name)
            if self.peek()[1] != "(":
                if name in self.bind:
                    return self.bind[name]
                self.fail("unbound symbol " + name)
            # first try to bind the whole call expression textually
            save = self.i
            self.eat("(")
            raw = []; depth = 1
            while True:
                k2 = self.eat()
                if k2[1] == "(":
                    depth += 1
                if k2[1] == ")":
                    depth -= 1
                    if depth == 0:
                        break
                raw.append(k2[1])
            key = name + "(" + "".join(raw) + ")"
            if key in self.bind:
                return self.bind[key]
            self.i = save
            self.eat("(")
            if name in ("std::fabs", "std::abs", "fabs"):
                e = self.ternary(); self.eat(")"); return ("scal", f"(absv {self.want(e, 'scal')})")
            if name in ("scalar_t", "static_cast<scalar_t>"):
                e = self.ternary(); self.eat(")"); return ("scal", self.want(e, "scal"))
            if name == "std::max":
                a = self.ternary(); self.eat(","); b = self.ternary(); self.eat(")")
                return ("scal", f"(cmax {self.want(a, 'scal')} {self.want(b, 'scal')})")
            if name == "std::min":
                a = self.ternary(); self.eat(","); b = self.ternary(); self.eat(")")
                return ("scal", f"(cmin {self.want(a, 'scal')} {self.want(b, 'scal')})")
            self.fail("unbound call " + key)
        self.fail(f"unexpected token {k[1]!r}")


def expr(text, bind, what, kind):
    e = Parser(text, bind, what).parse()
    if e[0] != kind:
        raise TranslateError(f"{what}: expected a {kind} expression, got {e[0]}: {squeeze(text)}")
    return e[1]


# ---------------------------------------------------------------------------------------------------------------------
# fragments

def gen_status(repo):
    path = "include/nano/solver/status.h"
    src = read(repo, path)
    m = re.search(r"enum\s+class\s+solver_status\s*(?::\s*[A-Za-z_0-9:]+)?\s*\{([^}]*)\}", src)
    if not m:
        raise TranslateError(f"enum class solver_status not found in {path}")
    names = [n.strip() for n in m.group(1).split(",") if n.strip()]
    for n in names:
        if not re.fullmatch(r"[a-z_][a-z_0-9]*", n):
            raise TranslateError(f"solver_status: enumerator with an initialiser or odd name: {n!r}")
    for need in ("max_iters", "converged", "failed"):
        if need not in names:
            raise TranslateError(f"solver_status: enumerator {need} is missing")
    st = read(repo, "include/nano/solver/state.h")
    if not re.search(r"solver_status\s+m_status\s*\{\s*\}\s*;", st):
        raise TranslateError("state.h: `solver_status m_status{};` (value-initialised status) not found")
    ctors = " ".join("| " + n for n in names)
    return names, (f"/-- `enum class solver_status` ({path}): {', '.join(names)} -/\n"
                   f"inductive Status where\n  {ctors}\nderiving DecidableEq, Repr, Inhabited\n\n"
                   f"/-- `solver_status m_status{{}}` (include/nano/solver/state.h): the value-initialised status is the first enumerator -/\n"
                   f"def Status.initial : Status := .{names[0]}\n\n"
                   f"/-- enumerator index, as the trace hooks print it -/\n"
                   f"def Status.toNat : Status → Nat\n" + "".join(f"  | .{n} => {i}\n" for i, n in enumerate(names)))


def gen_done(repo, names):
    path = "src/solver.cpp"
    src = read(repo, path)
    body, _ = body_of(src, "solver_t::done", path)
    # statements that do not take part in the decision
    b = body
    b, n_calls = re.subn(r"\bstate\.update_calls\s*\(\s*\)\s*;", "", b)
    if n_calls != 1 or not re.match(r"\s*state\.update_calls\s*\(\s*\)\s*;", body):
        raise TranslateError("solver_t::done: expected `state.update_calls();` as the first statement")
    b = re.sub(r"\bNANO_VERIF_TRACE\s*\((?:[^()]|\((?:[^()]|\([^()]*\))*\))*\)\s*;", "", b)
    b = re.sub(r"\blogger\.\w+\s*\((?:[^()]|\((?:[^()]|\([^()]*\))*\))*\)\s*;", "", b)
    m = re.fullmatch(r"\s*if\s*\(\s*const\s+auto\s+(\w+)\s*=\s*([^;]+);\s*([^{}]+?)\)\s*"
                     r"\{\s*state\.status\s*\(([^;]+)\)\s*;\s*return\s+(\w+)\s*;\s*\}\s*"
                     r"else\s*\{\s*return\s+(\w+)\s*;\s*\}\s*", b, re.S)
    if not m:
        raise TranslateError("solver_t::done: body does not have the shape `if (const auto v = E1; E2) { state.status(E3); "
                             "return B; } else { return B; }`: " + squeeze(b)[:200])
    var, e1, e2, e3, r1, r2 = m.groups()
    bind = {"iter_ok": ("bool", "iterOk"), "converged": ("bool", "converged"), "state.valid()": ("bool", "valid")}
    l1 = expr(e1, bind, "solver_t::done step_ok", "bool")
    bind2 = dict(bind); bind2[var] = ("bool", "(doneStepOk iterOk valid)")
    l2 = expr(e2, bind2, "solver_t::done condition", "bool")
    bind3 = dict(bind2)
    for n in names:
        bind3["solver_status::" + n] = ("status", "Status." + n)
    l3 = expr(e3, bind3, "solver_t::done status", "status")
    lr1 = expr(r1, {}, "solver_t::done return", "bool")
    lr2 = expr(r2, {}, "solver_t::done return", "bool")
    return (
        f"/-- `solver_t::done` ({path}): `const auto {var} = {squeeze(e1)}` -/\n"
        f"def doneStepOk (iterOk valid : Bool) : Bool := {l1}\n\n"
        f"/-- `solver_t::done`: the branch condition `{squeeze(e2)}` -/\n"
        f"def doneCond (iterOk converged valid : Bool) : Bool := {l2}\n\n"
        f"/-- `solver_t::done`: `state.status({squeeze(e3)})` in the first branch -/\n"
        f"def doneStatus (iterOk converged valid : Bool) : Status := {l3}\n\n"
        f"/-- `solver_t::done`: the value returned by the first (`return {r1}`) and by the second (`return {r2}`) branch -/\n"
        f"def doneReturn (iterOk converged valid : Bool) : Bool := if doneCond iterOk converged valid then {lr1} else {lr2}\n\n"
        f"/-- `solver_t::done`: the status after the call (only the first branch assigns it) -/\n"
        f"def doneNewStatus (old : Status) (iterOk converged valid : Bool) : Status :=\n"
        f"  if doneCond iterOk converged valid then doneStatus iterOk converged valid else old\n")


def gen_state(repo):
    path = "src/solver/state.cpp"
    src = read(repo, path)
    out = []
    # gradient_test(gx)
    body, _ = body_of(src, "solver_state_t::gradient_test", path, params_re=r"\s*const\s+vector_cmap_t\s+gx\s*")
    m = re.fullmatch(r"\s*return\s+(.*?);\s*", body, re.S)
    if not m:
        raise TranslateError("solver_state_t::gradient_test(gx): not a single return statement")
    bind = {"gx.lpNorm<Eigen::Infinity>()": ("scal", "gnorm"), "m_fx": ("scal", "fx")}
    l = expr(m.group(1), bind, "gradient_test", "scal")
    out.append(f"/-- `solver_state_t::gradient_test(gx)` ({path}): `return {squeeze(m.group(1))};` with `gnorm = gx.lpNorm<Infinity>()` -/\n"
               f"def gradientTest (gnorm fx : α) : α := {l}\n")
    body0, _ = body_of(src, "solver_state_t::gradient_test", path, params_re=r"\s*")
    if not re.fullmatch(r"\s*return\s+gradient_test\s*\(\s*m_gx\s*\)\s*;\s*", body0):
        raise TranslateError("solver_state_t::gradient_test(): expected `return gradient_test(m_gx);`")
    # valid
    body, _ = body_of(src, "solver_state_t::valid", path)
    m = re.fullmatch(r"\s*return\s+(.*?);\s*", body, re.S)
    if not m:
        raise TranslateError("solver_state_t::valid: not a single return statement")
    atoms = [squeeze(a) for a in m.group(1).split("&&")]
    names = {"std::isfinite(m_fx)": "finFx", "m_x.all_finite()": "finX", "m_gx.all_finite()": "finGx",
             "m_ceq.all_finite()": "finCeq", "m_cineq.all_finite()": "finCineq", "m_meq.all_finite()": "finMeq",
             "m_mineq.all_finite()": "finMineq"}
    lean_atoms = []
    for a in atoms:
        if a not in names:
            raise TranslateError(f"solver_state_t::valid: unexpected conjunct `{a}`")
        lean_atoms.append(names[a])
    for need in ("finFx", "finX", "finGx"):
        if need not in lean_atoms:
            raise TranslateError(f"solver_state_t::valid: the conjunct for {need} is missing")
    params = " ".join(names.values())
    out.append(f"/-- `solver_state_t::valid` ({path}): `return {squeeze(m.group(1))};` (each atom is an argument; an atom that the\n"
               f"    source no longer tests is ignored by the definition) -/\n"
               f"def validShape ({params} : Bool) : Bool := {' && '.join(lean_atoms)}\n")
    # update_if_better (3 arguments)
    body, _ = body_of(src, "solver_state_t::update_if_better", path,
                      params_re=r"\s*const\s+vector_t&\s*x\s*,\s*const\s+vector_t&\s*gx\s*,\s*const\s+scalar_t\s+fx\s*")
    b = re.sub(r"\bNANO_VERIF_TRACE\s*\((?:[^()]|\((?:[^()]|\([^()]*\))*\))*\)\s*;", "", body)
    if not re.match(r"\s*update_calls\s*\(\s*\)\s*;", b):
        raise TranslateError("update_if_better: expected `update_calls();` first")
    m = re.search(r"if\s*\(\s*std::isfinite\s*\(\s*fx\s*\)\s*\)\s*\{", b)
    if not m:
        raise TranslateError("update_if_better: guard `if (std::isfinite(fx))` not found")
    then = balanced(b, m.end(), "update_if_better/then")
    rest = b[m.end() + len(then) + 1:]
    me = re.match(r"\s*else\s*\{", rest)
    if not me:
        raise TranslateError("update_if_better: else branch not found")
    els = balanced(rest, me.end(), "update_if_better/else")
    mdf = re.search(r"const\s+auto\s+df\s*=\s*([^;]+);", then)
    mdx = re.search(r"const\s+auto\s+dx\s*=\s*([^;]+);", then)
    mb = re.search(r"const\s+auto\s+better\s*=\s*([^;]+);", then)
    if not (mdf and mdx and mb):
        raise TranslateError("update_if_better: `df`, `dx` or `better` definition not found")
    if squeeze(mdx.group(1)) != "(m_x - x).lpNorm<Eigen::Infinity>()":
        raise TranslateError("update_if_better: dx is no longer (m_x - x).lpNorm<Infinity>(): " + squeeze(mdx.group(1)))
    ldf = expr(mdf.group(1), {"m_fx": ("scal", "mfx"), "fx": ("scal", "fx")}, "update_if_better df", "scal")
    lb = expr(mb.group(1), {"df": ("scal", "df")}, "update_if_better better", "bool")
    mi = re.search(r"if\s*\(\s*better\s*\)\s*\{([^{}]*)\}", then)
    if not mi:
        raise TranslateError("update_if_better: `if (better) {…}` not found")
    assigns = [squeeze(a) for a in mi.group(1).split(";") if a.strip()]
    want = {"m_x = x", "m_fx = fx", "m_gx = gx", "update_constraints()"}
    if set(assigns) != want:
        raise TranslateError(f"update_if_better: the `better` branch assigns {assigns}, expected {sorted(want)}")
    tail = then[mi.end():]
    if not re.fullmatch(r"\s*m_history_df\.push_back\s*\(\s*df\s*\)\s*;\s*m_history_dx\.push_back\s*\(\s*dx\s*\)\s*;\s*return\s+better\s*;\s*", tail):
        raise TranslateError("update_if_better: history push / `return better;` changed: " + squeeze(tail)[:160])
    if not re.fullmatch(r"\s*m_history_df\.push_back\s*\(\s*std::numeric_limits<scalar_t>::lowest\(\)\s*\)\s*;\s*"
                        r"m_history_dx\.push_back\s*\(\s*std::numeric_limits<scalar_t>::lowest\(\)\s*\)\s*;\s*return\s+false\s*;\s*", els):
        raise TranslateError("update_if_better: the non-finite branch changed: " + squeeze(els)[:160])
    out.append(f"/-- `solver_state_t::update_if_better` ({path}): `const auto df = {squeeze(mdf.group(1))};` -/\n"
               f"def uibDf (mfx fx : α) : α := {ldf}\n")
    out.append(f"/-- `solver_state_t::update_if_better`: `const auto better = {squeeze(mb.group(1))};` (under the guard `std::isfinite(fx)`;\n"
               f"    the `better` branch assigns `m_x = x; m_fx = fx; m_gx = gx;`, both branches push `(df, dx)` to the history, the\n"
               f"    non-finite branch pushes `(lowest, lowest)` and returns false — all matched textually by the translator) -/\n"
               f"def uibBetter (df : α) : Bool := {lb}\n")
    # update_calls
    body, _ = body_of(src, "solver_state_t::update_calls", path)
    if not re.fullmatch(r"\s*m_fcalls\s*=\s*m_function->fcalls\(\)\s*;\s*m_gcalls\s*=\s*m_function->gcalls\(\)\s*;\s*", body):
        raise TranslateError("update_calls: no longer two plain copies of the function's counters: " + squeeze(body))
    out.append(f"/-- `solver_state_t::update_calls` ({path}): `{squeeze(body)}` — the reported counters are copies -/\n"
               f"def updateCalls (fnFcalls fnGcalls : Nat) : Nat × Nat := (fnFcalls, fnGcalls)\n")
    # nano::converged
    body, _ = body_of(src, "nano::converged", path)
    mdx = re.search(r"const\s+auto\s+dx\s*=\s*([^;]+);", body)
    mr = re.search(r"return\s+([^;]+);", body)
    if not (mdx and mr) or squeeze(mdx.group(1)) != "(cstate.x() - bstate.x()).lpNorm<Eigen::Infinity>()":
        raise TranslateError("nano::converged: unexpected shape: " + squeeze(body)[:160])
    rhs = re.sub(r"bstate\.x\(\)\.lpNorm<Eigen::Infinity>\(\)", "BXNORM", mr.group(1))
    l = expr(rhs, {"dx": ("scal", "dx"), "epsilon": ("scal", "eps"), "BXNORM": ("scal", "bxnorm")}, "nano::converged", "bool")
    out.append(f"/-- `nano::converged` ({path}): `return {squeeze(mr.group(1))};` with `dx = |cstate.x - bstate.x|∞`, `bxnorm = |bstate.x|∞` -/\n"
               f"def convergedDx (dx eps bxnorm : α) : Bool := {l}\n")
    return "\n".join(out)


def gen_counters(repo):
    path = "src/function.cpp"
    src = read(repo, path)
    body, _ = body_of(src, "function_t::vgrad", path)
    b = re.sub(r"\bassert\s*\((?:[^()]|\((?:[^()]|\([^()]*\))*\))*\)\s*;", "", body)
    m = re.fullmatch(r"\s*m_fcalls\s*\+=\s*1\s*;\s*m_gcalls\s*\+=\s*\(\s*gx\.size\(\)\s*==\s*size\(\)\s*\)\s*\?\s*1\s*:\s*0\s*;\s*"
                     r"return\s+do_vgrad\s*\(\s*x\s*,\s*gx\s*\)\s*;\s*", b)
    if not m:
        raise TranslateError("function_t::vgrad: the counter updates changed: " + squeeze(b)[:200])
    return (f"/-- `function_t::vgrad` ({path}): `m_fcalls += 1; m_gcalls += (gx.size() == size()) ? 1 : 0;` then `do_vgrad` -/\n"
            f"def vgradCounters (fcalls gcalls : Nat) (withGradient : Bool) : Nat × Nat :=\n"
            f"  (fcalls + 1, gcalls + (if withGradient then 1 else 0))\n")


LS_FILES = [("gd", "src/solver/gd.cpp", "solver_gd_t::do_minimize", "state"),
            ("cgd", "src/solver/cgd.cpp", "solver_cgd_t::do_minimize", "cstate"),
            ("lbfgs", "src/solver/lbfgs.cpp", "solver_lbfgs_t::do_minimize", "cstate"),
            ("quasi", "src/solver/quasi.cpp", "solver_quasi_t::do_minimize", "cstate")]


def gen_ls(repo):
    out = []
    for key, path, fn, sv in LS_FILES:
        src = read(repo, path)
        body, _ = body_of(src, fn, path)
        bind = {sv + ".gradient_test()": ("scal", "gtest"), "epsilon": ("scal", "eps")}
        # initial test
        m = re.search(r"if\s*\(\s*solver_t::done\s*\(\s*" + sv + r"\s*,\s*true\s*,\s*([^,]+?)\s*,\s*logger\s*\)\s*\)\s*\{\s*return\s+" + sv + r"\s*;\s*\}", body)
        if not m:
            raise TranslateError(f"{fn}: initial `if (solver_t::done({sv}, true, <converged>, logger)) return {sv};` not found")
        l0 = expr(m.group(1), bind, f"{fn} initial converged", "bool")
        # loop guard
        mg = re.search(r"while\s*\(([^{}]*?)\)\s*\{", body[m.end():])
        if not mg:
            raise TranslateError(f"{fn}: main loop not found")
        lg = expr(mg.group(1), {"function.fcalls()": ("nat", "fcalls"), "function.gcalls()": ("nat", "gcalls"),
                                "max_evals": ("nat", "maxEvals")}, f"{fn} loop guard", "bool")
        loop = balanced(body, m.end() + mg.end(), fn + " loop")
        after = body[m.end() + mg.end() + len(loop) + 1:]
        # in-loop: iter_ok = lsearch.get(...), converged = ..., if (done(sv, iter_ok, converged)) break;
        mi = re.search(r"const\s+auto\s+iter_ok\s*=\s*lsearch\.get\s*\(\s*" + sv + r"\s*,\s*(\w+)\s*,\s*logger\s*\)\s*;\s*"
                       r"const\s+auto\s+converged\s*=\s*([^;]+);\s*"
                       r"if\s*\(\s*solver_t::done\s*\(\s*" + sv + r"\s*,\s*iter_ok\s*,\s*converged\s*,\s*logger\s*\)\s*\)\s*\{\s*break\s*;\s*\}", loop)
        if not mi:
            raise TranslateError(f"{fn}: `iter_ok = lsearch.get(…); converged = …; if (solver_t::done(…)) break;` not found in the loop")
        lc = expr(mi.group(2), bind, f"{fn} converged", "bool")
        # returned state
        mr = re.fullmatch(r"\s*return\s+([^;]+);\s*", after)
        if not mr:
            raise TranslateError(f"{fn}: expected a single `return …;` after the loop: " + squeeze(after)[:120])
        lr = expr(mr.group(1), {sv + ".valid()": ("bool", "cvalid"), sv: ("sel", "true"), "pstate": ("sel", "false")},
                  f"{fn} return", "sel")
        out.append(f"/-- `{fn}` ({path}): converged flag of the initial `done` call: `{squeeze(m.group(1))}` -/\n"
                   f"def {key}ConvergedInit (gtest eps : α) : Bool := {l0}\n\n"
                   f"/-- `{fn}`: loop guard `while ({squeeze(mg.group(1))})` -/\n"
                   f"def {key}Guard (fcalls gcalls maxEvals : Nat) : Bool := {lg}\n\n"
                   f"/-- `{fn}`: `const auto converged = {squeeze(mi.group(2))};` after the line search -/\n"
                   f"def {key}Converged (gtest eps : α) : Bool := {lc}\n\n"
                   f"/-- `{fn}`: `return {squeeze(mr.group(1))};` — true = the current state is returned, false = the previous one -/\n"
                   f"def {key}ReturnsCurrent (cvalid : Bool) : Bool := {lr}\n")
    return "\n".join(out)


HEADER = """-- GENERATED by tools/props/c01.py from src/solver.cpp, src/solver/state.cpp, src/function.cpp, src/solver/{gd,cgd,lbfgs,quasi}.cpp, include/nano/solver/{status,state}.h — do not edit
/-!
  Decision logic of libnano's solver skeleton, re-translated from the C++ source text on every check (DESIGN.md §2.3.a).
  Used by the model `Model/Solver.lean` and the theorems of C01 and C02. Core Lean only; self-contained (no import).

  Scalar-generic: runs at `Float` in the drivers, proved over ordered fields. Numeric literals are emitted through `OfNat`
  and `/` only, `std::fabs` ↦ `absv`, `std::max(a, b)` ↦ `cmax a b = if a < b then b else a`, `a < b` ↦ `decide (a < b)`,
  `c ? a : b` ↦ `if c then a else b`, `!b` ↦ `(!b)`.
-/
namespace NanoVerif.Gen.DoneLogic
set_option linter.unusedVariables false

"""

SECTION = """section
variable {α : Type} [Add α] [Sub α] [Mul α] [Div α] [Neg α] [LT α] [LE α] [DecidableLT α] [DecidableLE α] [∀ n, OfNat α n]

/-- `std::fabs` (differs from it only in the sign of a zero result) -/
def absv (x : α) : α := if x < 0 then -x else x
/-- `std::max(a, b)` -/
def cmax (a b : α) : α := if a < b then b else a
/-- `std::min(a, b)` -/
def cmin (a b : α) : α := if b < a then b else a

"""

FOOTER = """end
end NanoVerif.Gen.DoneLogic
"""


def generate(repo):
    names, status = gen_status(repo)
    return (HEADER + status + "\n" + gen_done(repo, names) + "\n" + gen_counters(repo) + "\n" + SECTION
            + gen_state(repo) + "\n" + gen_ls(repo) + "\n" + FOOTER)


def translate():
    try:
        text = generate(vlib.REPO)
    except TranslateError as ex:
        raise vlib.Broken("translate", f"Gen/DoneLogic.lean: {ex}")
    vlib.write_if_changed(OUT, text)
    return text


if __name__ == "__main__":
    print(generate(vlib.REPO))
