"""C04: C++ -> Lean translator for the two decision fragments of the interior-point solver (DESIGN.md §2.3.a).

Extracts, by function name from the current text of src/program/solver.cpp of the repository under check,
  * `program_t::feasible`  — must be (comments removed, `const auto& X = m_X;` aliases aside) one `return <boolean expression>;`
  * `solver_t::done`       — must contain exactly one `if (<cond>) { state.m_status = solver_status::<s>; } else { state.m_status = <expr>; }`
and emits lean/NanoVerif/Gen/ProgramDone.lean (definitions `NanoVerif.Program.feasible`, `NanoVerif.Program.doneStatus`,
generic over the scalar). The boolean skeleton (`||`, `&&`, `!`, parentheses, `?:`, comparisons) is parsed; the leaves
must be in the table below. Anything else raises vlib.Broken("translate", …): the obligation then counts as broken.
"""
import os, re
import vlib

OUT = os.path.join(vlib.LEAN, "NanoVerif", "Gen", "ProgramDone.lean")
SRC = "src/program/solver.cpp"


class TranslateError(Exception):
    pass


def strip_comments(s):
    s = re.sub(r"/\*.*?\*/", " ", s, flags=re.S)
    return re.sub(r"//[^\n]*", " ", s)


def body_after(src, start_regex, what):
    m = re.search(start_regex, src)
    if not m:
        raise TranslateError(f"definition of {what} not found in {SRC}")
    i = src.index("{", m.end() - 1) + 1
    j = i; depth = 1
    while depth:
        if j >= len(src):
            raise TranslateError(f"unbalanced braces in {what}")
        depth += (src[j] == "{") - (src[j] == "}")
        j += 1
    return src[i:j - 1]


def norm(s):
    return re.sub(r"\s+", "", s)


# leaves (whitespace removed) -> Lean term; ("max", term) marks a `maxCoeff()` value that may only be compared with `<`
FEASIBLE_LEAVES = {
    "A.rows()==0": "P.A.isEmpty",
    "G.rows()==0": "P.G.isEmpty",
    "(A*state.m_x-b).lpNorm<2>()": "norm2 (vsub (mv P.A x) P.b)",
    "(G*state.m_x-h).maxCoeff()": ("max", "slack P x"),
    "epsilon2<scalar_t>()": "eps2",
}
DONE_LEAVES = {
    "feasible": "feas",
    "state.m_eta": "eta",
    "state.m_rdual.lpNorm<2>()": "rd",
    "state.m_rprim.lpNorm<2>()": "rp",
    "epsilon": "epsilon",
    "solver_status::max_iters": "Status.maxIters",
    "solver_status::converged": "Status.converged",
    "solver_status::failed": "Status.failed",
    "solver_status::unfeasible": "Status.unfeasible",
    "solver_status::unbounded": "Status.unbounded",
}


def split_top(s, ops):
    """split s at the top-level occurrences of one of the operators (longest first), outside (), {} and known <…>"""
    parts, seps = [], []
    depth = 0; i = 0; last = 0
    while i < len(s):
        c = s[i]
        if c in "({":
            depth += 1
        elif c in ")}":
            depth -= 1
        elif depth == 0:
            # template brackets of the known leaves are not comparison operators
            m = re.match(r"lpNorm<2>|epsilon2<scalar_t>", s[i:])
            if m:
                i += m.end(); continue
            for op in ops:
                if s.startswith(op, i):
                    # `<` of `<=` handled by ordering; skip `->`
                    parts.append(s[last:i]); seps.append(op)
                    i += len(op); last = i
                    break
            else:
                i += 1
                continue
            continue
        i += 1
    parts.append(s[last:])
    return parts, seps


def strip_parens(s):
    while s.startswith("(") and s.endswith(")"):
        depth = 0
        for k, c in enumerate(s):
            depth += (c == "(") - (c == ")")
            if depth == 0 and k < len(s) - 1:
                return s
        s = s[1:-1]
    return s


def value(s, leaves):
    """a scalar / status valued expression"""
    s = strip_parens(s)
    if s in leaves:
        return leaves[s]
    m = re.fullmatch(r"std::max\(\{(.*)\}\)", s)
    if m:
        args, _ = split_top(m.group(1), [","])
        vals = [value(a, leaves) for a in args]
        if any(isinstance(v, tuple) for v in vals):
            raise TranslateError("maxCoeff inside std::max")
        if len(vals) == 2:
            return f"(cmax {vals[0]} {vals[1]})"
        if len(vals) == 3:
            return f"(cmax3 {vals[0]} {vals[1]} {vals[2]})"
        raise TranslateError("std::max with " + str(len(vals)) + " arguments")
    parts, seps = split_top(s, ["?"])
    if len(parts) == 2:
        alts, seps2 = split_top(parts[1], [":"])
        # `solver_status::x` contains `::`: re-join around it
        if len(alts) != 2:
            fixed = re.split(r"(?<!:):(?!:)", parts[1])
            if len(fixed) != 2:
                raise TranslateError("cannot parse the conditional expression " + s)
            alts = fixed
        return f"(if {boolean(parts[0], leaves)} then {value(alts[0], leaves)} else {value(alts[1], leaves)})"
    raise TranslateError("unknown expression: " + s)


def boolean(s, leaves):
    s = strip_parens(s)
    if s in leaves and not isinstance(leaves[s], tuple):
        return leaves[s]
    parts, _ = split_top(s, ["||"])
    if len(parts) > 1:
        return "(" + " || ".join(boolean(p, leaves) for p in parts) + ")"
    parts, _ = split_top(s, ["&&"])
    if len(parts) > 1:
        return "(" + " && ".join(boolean(p, leaves) for p in parts) + ")"
    if s.startswith("!"):
        return f"(!{boolean(s[1:], leaves)})"
    parts, seps = split_top(s, ["<=", ">=", "<", ">"])
    if len(parts) == 2:
        l, r = value(parts[0], leaves), value(parts[1], leaves)
        op = {"<": "<", "<=": "≤", ">": ">", ">=": "≥"}[seps[0]]
        if isinstance(r, tuple):
            raise TranslateError("maxCoeff on the right of a comparison")
        if isinstance(l, tuple):
            if seps[0] != "<":
                raise TranslateError("maxCoeff() compared with " + seps[0])
            return f"maxLt ({l[1]}) {r}"
        return f"decide ({l} {op} {r})"
    raise TranslateError("unknown boolean expression: " + s)


def translate_source(text):
    src = strip_comments(text)
    # program_t::feasible
    fb = body_after(src, r"\bbool\s+feasible\s*\(\s*const\s+solver_state_t&\s+state\s*\)\s*const\s*\{", "program_t::feasible")
    stmts = [t.strip() for t in fb.split(";") if t.strip()]
    aliases = {}
    ret = None
    for st in stmts:
        m = re.fullmatch(r"const\s+auto&\s+(\w+)\s*=\s*m_(\w+)", st)
        if m:
            if m.group(1) != m.group(2):
                raise TranslateError(f"alias {m.group(1)} = m_{m.group(2)} in program_t::feasible")
            aliases[m.group(1)] = m.group(2)
        elif st.startswith("return") and ret is None:
            ret = st[len("return"):]
        else:
            raise TranslateError("unexpected statement in program_t::feasible: " + st[:60])
    if ret is None or set(aliases) != {"A", "b", "G", "h"}:
        raise TranslateError("program_t::feasible is not `aliases; return <expr>;`")
    feas = boolean(norm(ret), FEASIBLE_LEAVES)
    # solver_t::done
    db = body_after(src, r"\bvoid\s+solver_t::done\s*\([^)]*\)\s*\{", "solver_t::done")
    if not re.search(r"const\s+auto\s+feasible\s*=\s*program\.feasible\(state\)\s*;", db):
        raise TranslateError("solver_t::done does not start from `feasible = program.feasible(state)`")
    dn = norm(db)
    if dn.count("state.m_status=") != 2 or dn.count("if(") != 1:
        raise TranslateError("solver_t::done is not one if/else assigning the status once per branch")
    i = dn.index("if(") + 2
    depth = 0
    for j in range(i, len(dn)):
        depth += (dn[j] == "(") - (dn[j] == ")")
        if depth == 0:
            break
    cond = dn[i + 1:j]
    m = re.match(r"\{state\.m_status=([^;{}]*);\}else\{state\.m_status=([^;{}]*);\}", dn[j + 1:])
    if not m:
        raise TranslateError("cannot find the two status assignments of solver_t::done")
    status = (f"if {boolean(cond, DONE_LEAVES)} then {value(m.group(1), DONE_LEAVES)} else {value(m.group(2), DONE_LEAVES)}")
    return feas, status


def emit(feas, status):
    return f"""-- GENERATED by tools/props/c04.py from {SRC} — do not edit
import NanoVerif.Model.ProgramBase
/-! The two decision fragments of the interior-point solver, generic over the scalar (core classes only): run at `Float`
    by `driver_c04`, proved about in `Props/C04.lean` (`converged_iff_done_test`, `iterate_converged_sound`). -/
namespace NanoVerif.Program

variable {{α : Type}} [Add α] [Sub α] [Mul α] [Div α] [Neg α] [LT α] [LE α] [DecidableLT α] [DecidableLE α]
  [OfNat α 0] [OfNat α 1] [OfNat α 2] [NatCast α]

/-- `program_t::feasible(state)` with `x = state.m_x`, `eps2 = epsilon2<scalar_t>()` -/
def feasible [Sqrt α] (P : Prog α) (eps2 : α) (x : List α) : Bool :=
  {feas}

/-- the status `solver_t::done` assigns; `feas = program.feasible(state)`, `rd = ‖rdual‖₂`, `rp = ‖rprim‖₂` -/
def doneStatus (feas : Bool) (eta rd rp epsilon : α) : Status :=
  {status}

end NanoVerif.Program
"""


def translate():
    try:
        text = open(os.path.join(vlib.REPO, SRC)).read()
        feas, status = translate_source(text)
    except OSError as ex:
        raise vlib.Broken("translate", f"cannot read {SRC}: {ex}")
    except TranslateError as ex:
        raise vlib.Broken("translate", str(ex))
    out = emit(feas, status)
    vlib.write_if_changed(OUT, out)
    return out
