"""C07 (and C01): C++ → Lean translator for the line-search acceptance predicates (DESIGN.md §2.3.a).

Extracts, *by function name* from the current source text of the repository under check,
  solver_state_t::has_armijo / has_approx_armijo / has_wolfe / has_strong_wolfe / has_approx_wolfe   (src/solver/state.cpp)
  solver_state_t::has_descent                                                                    (include/nano/solver/state.h)
  lsearchk_t::stpmin / stpmax                                                                     (src/lsearchk.cpp)
and emits lean/NanoVerif/Gen/LsPredicates.lean, generic over the scalar. Each function body must be (asserts and
comments removed) a single `return <scalar expression>;`. Anything else raises vlib.Broken("translate", …).

Second output, lean/NanoVerif/Gen/LsStep.lean: the interpolation formulas of `lsearch_step_t`
  lsearch_step_t::cubic / quadratic / secant / bisection / interpolate                             (src/solver/lstep.cpp)
  enum class interpolation_type                                                                    (include/nano/solver/lstep.h)
Bodies here are statement lists: `const auto x = e;` (a `let`), the out-parameter block `if (p != nullptr) { *p = e; }` of `quadratic`
(emitted as the separate definition `quadraticConvexity`), the conditional operator `c ? a : b`, `std::sqrt` / `std::isfinite` (parameters
`sqrt`, `fin` of the generated definitions), calls of the sibling formulas, a final `return e;` — and, for `interpolate`, a `switch` over
the enumeration whose cases are `if (std::isfinite(x)) { return x; }` followed by `[[fallthrough]];`, ending in `default: return x;`.
"""
import os, re
from fractions import Fraction
import vlib

OUT = os.path.join(vlib.LEAN, "NanoVerif", "Gen", "LsPredicates.lean")

TOK = re.compile(r"\s*(?:(\d+\.\d*(?:[eE][-+]?\d+)?|\.\d+(?:[eE][-+]?\d+)?|\d+(?:[eE][-+]?\d+)?)"
                 r"|([A-Za-z_][A-Za-z_0-9]*(?:::[A-Za-z_][A-Za-z_0-9]*)*(?:\.[A-Za-z_][A-Za-z_0-9]*)*)"
                 r"|(<=|>=|==|!=|&&|\|\||[-+*/()<>,!?:]))")


class TranslateError(Exception):
    pass


def strip_comments(s):
    s = re.sub(r"/\*.*?\*/", " ", s, flags=re.S)
    return re.sub(r"//[^\n]*", " ", s)


def body_of(src, qualified_name, path):
    """text between the braces of the definition `… qualified_name(…) [const] { … }`"""
    m = re.search(r"\b" + re.escape(qualified_name) + r"\s*\((?:[^()]|\([^()]*\))*\)\s*(?:const)?\s*(?:noexcept)?\s*\{", src)
    if not m:
        raise TranslateError(f"definition of {qualified_name} not found in {path}")
    i = m.end(); depth = 1
    while depth:
        if i >= len(src):
            raise TranslateError(f"unbalanced braces in {qualified_name}")
        c = src[i]
        depth += (c == "{") - (c == "}")
        i += 1
    return src[m.end():i - 1]


def tokenize(s):
    out = []; i = 0
    while i < len(s):
        if s[i:].strip() == "":
            break
        m = TOK.match(s, i)
        if not m:
            raise TranslateError("cannot tokenize at: " + s[i:i + 40].strip())
        if m.group(1):
            out.append(("num", m.group(1)))
        elif m.group(2):
            out.append(("id", m.group(2)))
        else:
            out.append(("op", m.group(3)))
        i = m.end()
    return out


def lean_number(text):
    """a C++ numeric literal as an exact Lean term over OfNat + Div (no OfScientific): 2.0 → (2 : α), 0.5 → ((1 : α) / (2 : α)).
    At Float the quotient of two exactly representable integers is the correctly rounded literal, i.e. the same double."""
    q = Fraction(text)
    if q.denominator == 1:
        return f"({q.numerator} : α)"
    if q.numerator >= 2 ** 53 or q.denominator >= 2 ** 53:
        raise TranslateError(f"literal {text} is not a quotient of small integers")
    return f"(({q.numerator} : α) / ({q.denominator} : α))"


def balanced(t):
    d = 0
    for c in t:
        d += (c == "(") - (c == ")")
        if d < 0:
            return False
    return d == 0


class Parser:
    """recursive descent for C++ scalar expressions: || && comparison + - * / unary- calls; `bind` maps C++ symbols and
    call expressions (tokens glued without blanks, e.g. 'origin.dg(descent)') to Lean variables"""

    def __init__(self, toks, bind):
        self.t = toks; self.i = 0; self.bind = bind

    def peek(self):
        return self.t[self.i] if self.i < len(self.t) else ("eof", "")

    def eat(self, v=None):
        k = self.peek()
        if v is not None and k[1] != v:
            raise TranslateError(f"expected {v}, got {k[1]!r}")
        if k[0] == "eof":
            raise TranslateError("unexpected end of expression")
        self.i += 1
        return k

    def expr(self):
        a = self.orx()
        if self.peek()[1] == "?":
            # the conditional operator; a pure comparison is used as a proposition (`if a > b then … else …`)
            self.eat(); x = self.expr(); self.eat(":"); y = self.expr()
            m = re.fullmatch(r"decide \((.*)\)", a)
            cond = m.group(1) if m and balanced(m.group(1)) else a
            return f"(if {cond} then {x} else {y})"
        return a

    def orx(self):
        a = self.andx()
        while self.peek()[1] == "||":
            self.eat(); a = f"({a} || {self.andx()})"
        return a

    def andx(self):
        a = self.cmp()
        while self.peek()[1] == "&&":
            self.eat(); a = f"({a} && {self.cmp()})"
        return a

    def cmp(self):
        a = self.add()
        if self.peek()[1] in ("<=", ">=", "<", ">"):
            op = self.eat()[1]; b = self.add()
            lean = {"<=": "≤", ">=": "≥", "<": "<", ">": ">"}[op]
            return f"decide ({a} {lean} {b})"
        if self.peek()[1] in ("==", "!="):
            raise TranslateError("equality comparison of scalars is not translated")
        return a

    def add(self):
        a = self.mul()
        while self.peek()[1] in ("+", "-"):
            op = self.eat()[1]; a = f"({a} {op} {self.mul()})"
        return a

    def mul(self):
        a = self.unary()
        while self.peek()[1] in ("*", "/"):
            op = self.eat()[1]; a = f"({a} {op} {self.unary()})"
        return a

    def unary(self):
        if self.peek()[1] == "-":
            self.eat(); return f"(-{self.unary()})"
        if self.peek()[1] == "+":
            self.eat(); return self.unary()
        if self.peek()[1] == "!":
            raise TranslateError("logical negation is not translated")
        return self.primary()

    def primary(self):
        k = self.eat()
        if k[0] == "num":
            return lean_number(k[1])
        if k[1] == "(":
            e = self.expr(); self.eat(")"); return e
        if k[0] == "id":
            name = k[1]
            if self.peek()[1] != "(":
                if name in self.bind:
                    return self.bind[name]
                raise TranslateError("unbound symbol " + name)
            self.eat("(")
            if name in ("std::fabs", "std::abs", "fabs"):
                e = self.expr(); self.eat(")"); return f"(absv {e})"
            if name in ("scalar_t", "static_cast<scalar_t>"):
                e = self.expr(); self.eat(")"); return e
            if name in ("std::sqrt", "sqrt") and "std::sqrt" in self.bind:
                e = self.expr(); self.eat(")"); return f"({self.bind['std::sqrt']} {e})"
            raw = []; depth = 1
            while True:
                k2 = self.eat()
                if k2[1] == "(":
                    depth += 1
                if k2[1] == ")":
                    depth -= 1
                    if depth == 0:
                        break
                raw.append(k2[1])
            key = name + "(" + "".join(raw) + ")"
            if key in self.bind:
                return self.bind[key]
            raise TranslateError("unbound call " + key)
        raise TranslateError(f"unexpected token {k[1]!r}")


def translate_fn(src, path, cname, leanname, params, bind, rettype):
    body = strip_comments(body_of(src, cname, path))
    body = re.sub(r"\bassert\s*\((?:[^()]|\((?:[^()]|\([^()]*\))*\))*\)\s*;", "", body)
    # the machine epsilon is a parameter of the generated definition
    body = body.replace("std::numeric_limits<scalar_t>::epsilon()", "MACHEPS")
    m = re.fullmatch(r"\s*return\s+(.*?);\s*", body, re.S)
    if not m:
        raise TranslateError(f"{cname}: body is not a single return statement: {' '.join(body.split())[:160]}")
    p = Parser(tokenize(m.group(1)), bind)
    e = p.expr()
    if p.peek()[0] != "eof":
        raise TranslateError(f"{cname}: trailing tokens after the expression")
    is_bool = e.startswith("decide") or "&&" in e or "||" in e
    if rettype == "Bool" and not is_bool:
        raise TranslateError(f"{cname}: expected a comparison, got {e}")
    if rettype == "α" and is_bool:
        raise TranslateError(f"{cname}: expected a scalar, got {e}")
    return f"def {leanname} ({' '.join(params)} : α) : {rettype} := {e}", " ".join(m.group(1).split())


# C++ symbol → Lean variable, inside the member functions of solver_state_t (`*this` = trial state, `origin` = state0)
B = {"m_fx": "f", "origin.fx()": "f0", "origin.dg(descent)": "dg0", "dg(descent)": "dg", "step_size": "t",
     "c1": "c1", "c2": "c2", "epsilon": "eps"}

HEADER = """-- GENERATED by tools/props/c07.py from src/solver/state.cpp, include/nano/solver/state.h, src/lsearchk.cpp — do not edit
/-!
  Line-search acceptance predicates of libnano, re-translated from the C++ source text on every check (DESIGN.md §2.3.a).
  Used by the theorems of C07 (line searches) and C01 (solvers). Core Lean only; self-contained (no import).

  Scalar-generic: runs at `Float` in the drivers, proved over ordered fields. Numeric literals are emitted through `OfNat`
  and `/` only (`2.0` ↦ `(2 : α)`, `0.5` ↦ `((1 : α) / (2 : α))`), `std::fabs` ↦ `absv`, `a >= b` ↦ `decide (a ≥ b)`.

  Arguments (all of type `α`), bound to the C++ expressions of `solver_state_t`'s member functions, where `*this` is the
  trial state and `origin` the state the line search started from:
    f0  = origin.fx()             value at the origin                 f   = m_fx          value at the trial point
    dg0 = origin.dg(descent)      slope g(x0)·d at the origin         dg  = dg(descent)   slope at the trial point
    t   = step_size               c1, c2 = the `lsearchk::tolerance` pair               eps = epsilon (CG_DESCENT's ε_k)
    macheps = std::numeric_limits<scalar_t>::epsilon()

  One definition per C++ function; the comment above each definition quotes the translated `return` expression.
-/
namespace NanoVerif.Gen.LsPredicates
section
variable {α : Type} [Add α] [Sub α] [Mul α] [Div α] [Neg α] [LT α] [LE α] [DecidableLT α] [DecidableLE α] [∀ n, OfNat α n]

/-- `std::fabs` (differs from it only in the sign of a zero result) -/
def absv (x : α) : α := if x < 0 then -x else x
"""

FOOTER = """end
end NanoVerif.Gen.LsPredicates
"""

SPEC = [
    # (source file, C++ name, Lean name, parameters, return type)
    ("src/solver/state.cpp", "solver_state_t::has_armijo", "hasArmijo", ["f0", "dg0", "f", "t", "c1"], "Bool"),
    ("src/solver/state.cpp", "solver_state_t::has_approx_armijo", "hasApproxArmijo", ["f0", "f", "eps"], "Bool"),
    ("src/solver/state.cpp", "solver_state_t::has_wolfe", "hasWolfe", ["dg0", "dg", "c2"], "Bool"),
    ("src/solver/state.cpp", "solver_state_t::has_strong_wolfe", "hasStrongWolfe", ["dg0", "dg", "c2"], "Bool"),
    ("src/solver/state.cpp", "solver_state_t::has_approx_wolfe", "hasApproxWolfe", ["dg0", "dg", "c1", "c2"], "Bool"),
    ("include/nano/solver/state.h", "has_descent", "hasDescent", ["dg"], "Bool"),
    ("src/lsearchk.cpp", "lsearchk_t::stpmin", "stpmin", ["macheps"], "α"),
    ("src/lsearchk.cpp", "lsearchk_t::stpmax", "stpmax", ["macheps"], "α"),
]


def generate(repo):
    out = [HEADER]
    srcs = {}
    for path, cname, lname, params, rett in SPEC:
        full = os.path.join(repo, path)
        if path not in srcs:
            try:
                srcs[path] = open(full).read()
            except OSError as ex:
                raise TranslateError(f"cannot read {full}: {ex}")
        bind = dict(B)
        if lname in ("stpmin", "stpmax"):
            bind = {"MACHEPS": "macheps", "stpmin()": "(stpmin macheps)"}
        line, cxx = translate_fn(srcs[path], path, cname, lname, params, bind, rett)
        out.append(f"/-- `{cname}` ({path}): `return {cxx};` -/\n{line}\n")
    out.append(FOOTER)
    return "\n".join(out)


# ---------------------------------------------------------------------------------------------------------------------
# Gen/LsStep.lean: the interpolation formulas of lsearch_step_t

OUT_STEP = os.path.join(vlib.LEAN, "NanoVerif", "Gen", "LsStep.lean")
STEP_CPP = "src/solver/lstep.cpp"
STEP_H = "include/nano/solver/lstep.h"
ARGS = "ut uf ug vt vf vg"
STEP_BIND = {"u.t": "ut", "u.f": "uf", "u.g": "ug", "v.t": "vt", "v.f": "vf", "v.g": "vg", "std::sqrt": "sqrt"}

HEADER_STEP = """-- GENERATED by tools/props/c07.py from src/solver/lstep.cpp, include/nano/solver/lstep.h — do not edit
/-!
  The interpolation formulas of `lsearch_step_t` (libnano), re-translated from the C++ source text on every check (DESIGN.md §2.3.a).
  Core Lean only; self-contained (no import). Scalar-generic: run at `Float` by `driver_c07`, proved over ordered fields
  (Props/C07.lean: `cubic_is_stationary_point_of_hermite_cubic`, `quadratic_is_parabola_minimiser`, `secant_is_root_of_linear_slope`,
  `interpolation_exact_on_quadratics`; `model_lstep_is_generated` ties the formulas used inside Model/LSearch.lean to these).

  The two `lsearch_step_t` arguments `u`, `v` are passed field-wise: `ut uf ug` = `u.t u.f u.g` (step, value, slope), same for `v`.
  `std::sqrt` and `std::isfinite` are the parameters `sqrt`, `fin`. Numeric literals as in Gen/LsPredicates.lean (`3.0` ↦ `(3 : α)`,
  `0.5` ↦ `((1 : α) / (2 : α))`); `c ? a : b` ↦ `if c then a else b`; `const auto x = e;` ↦ `let x := e`.
-/
set_option linter.unusedVariables false
namespace NanoVerif.Gen.LsStep
"""


def split_statements(body):
    """top-level `;`-separated statements of a function body without nested blocks"""
    out, cur, depth = [], "", 0
    for c in body:
        if c in "({[":
            depth += 1
        if c in ")}]":
            depth -= 1
        if c == ";" and depth == 0:
            if cur.strip():
                out.append(" ".join(cur.split()))
            cur = ""
        else:
            cur += c
    if cur.strip():
        raise TranslateError("text after the last statement: " + " ".join(cur.split())[:80])
    return out


def expr_to_lean(text, bind, what):
    p = Parser(tokenize(text), bind)
    e = p.expr()
    if p.peek()[0] != "eof":
        raise TranslateError(f"{what}: trailing tokens after the expression `{text}`")
    return e


def translate_formula(src, fname, with_sqrt):
    """a scalar formula `lsearch_step_t::<fname>(u, v[, bool* p])`: lets + return; returns (lean definitions, quoted source lines)"""
    cname = "lsearch_step_t::" + fname
    body = strip_comments(body_of(src, cname, STEP_CPP))
    quoted = []
    extra = None
    # the out-parameter block of `quadratic`
    m = re.search(r"if\s*\(\s*(\w+)\s*!=\s*nullptr\s*\)\s*\{\s*\*\s*(\w+)\s*=\s*([^;{}]*);\s*\}", body)
    if m:
        if m.group(1) != m.group(2):
            raise TranslateError(f"{cname}: unexpected out-parameter block")
        extra = (m.group(1), " ".join(m.group(3).split()), m.start())
        body = body[:m.start()] + body[m.end():]
    if "{" in body or "}" in body:
        raise TranslateError(f"{cname}: nested block not translated: {' '.join(body.split())[:120]}")
    bind = dict(STEP_BIND)
    if not with_sqrt:
        del bind["std::sqrt"]
    lets = []
    ret = None
    for st in split_statements(body):
        quoted.append(st + ";")
        m2 = re.fullmatch(r"const\s+(?:auto|scalar_t)\s+(\w+)\s*=\s*(.*)", st)
        if m2:
            if ret is not None:
                raise TranslateError(f"{cname}: statement after return")
            e = expr_to_lean(m2.group(2), bind, cname)
            lets.append((m2.group(1), e))
            bind[m2.group(1)] = m2.group(1)
            continue
        m2 = re.fullmatch(r"return\s+(.*)", st)
        if m2 and ret is None:
            ret = expr_to_lean(m2.group(1), bind, cname)
            continue
        raise TranslateError(f"{cname}: statement not translated: {st[:100]}")
    if ret is None:
        raise TranslateError(f"{cname}: no return statement")
    if ret.startswith("decide") or "&&" in ret or "||" in ret:
        raise TranslateError(f"{cname}: expected a scalar, got {ret}")
    params = ("(sqrt : α → α) " if with_sqrt else "") + f"({ARGS} : α)"
    defs = []
    if extra is not None:
        pname, etext, _ = extra
        # the lets the flag may use are those defined before the block: all of them are, in the current source; checked by elaboration
        e = expr_to_lean(etext, bind, cname)
        if not e.startswith("decide"):
            raise TranslateError(f"{cname}: the out-parameter `*{pname}` is not a comparison: {etext}")
        letsx = "".join(f"  let {n} := {v}\n" for n, v in lets if re.search(r"\b" + n + r"\b", e))
        defs.append(f"/-- what `{cname}` stores into its out-parameter `*{pname}` (when given): `*{pname} = {etext};` -/\n"
                    f"def {fname}{pname[0].upper() + pname[1:]} ({ARGS} : α) : Bool :=\n{letsx}  {e}\n")
    lines = "".join(f"  let {n} := {v}\n" for n, v in lets)
    src_q = " ".join(quoted)
    defs.append(f"/-- `{cname}` ({STEP_CPP}): `{src_q}` -/\ndef {fname} {params} : α :=\n{lines}  {ret}\n")
    return defs


def translate_enum(hsrc):
    m = re.search(r"enum\s+class\s+interpolation_type\s*(?::\s*\w+\s*)?\{([^}]*)\}", strip_comments(hsrc))
    if not m:
        raise TranslateError(f"enum class interpolation_type not found in {STEP_H}")
    names = [n.strip() for n in m.group(1).split(",") if n.strip()]
    for n in names:
        if not re.fullmatch(r"[a-z_][a-z_0-9]*", n):
            raise TranslateError(f"interpolation_type: enumerator `{n}` not translated (explicit values are not)")
    return names


def translate_interpolate(src, enum):
    cname = "lsearch_step_t::interpolate"
    body = strip_comments(body_of(src, cname, STEP_CPP))
    m = re.search(r"switch\s*\(\s*method\s*\)\s*\{", body)
    if not m:
        raise TranslateError(f"{cname}: `switch (method)` not found")
    head, rest = body[:m.start()], body[m.end():]
    depth, i = 1, 0
    while depth:
        if i >= len(rest):
            raise TranslateError(f"{cname}: unbalanced switch")
        depth += (rest[i] == "{") - (rest[i] == "}")
        i += 1
    sw, tail = rest[:i - 1], rest[i:]
    if tail.strip():
        raise TranslateError(f"{cname}: statements after the switch are not translated")
    calls = {f"{f}(u,v)": (f"{f} sqrt {ARGS}" if f == "cubic" else f"{f} {ARGS}") for f in ("cubic", "quadratic", "secant", "bisection")}
    bind = dict(calls)
    lets = []
    for st in split_statements(head):
        m2 = re.fullmatch(r"const\s+(?:auto|scalar_t)\s+(\w+)\s*=\s*(.*)", st)
        if not m2:
            raise TranslateError(f"{cname}: statement not translated: {st[:100]}")
        lets.append((m2.group(1), "(" + expr_to_lean(m2.group(2), bind, cname) + ")"))
        bind[m2.group(1)] = m2.group(1)
    # the labelled blocks, in source order
    parts = re.split(r"(case\s+interpolation_type::\w+\s*:|default\s*:)", sw)
    if parts[0].strip():
        raise TranslateError(f"{cname}: text before the first case label")
    blocks = []   # (label or None for default, [(guard var or None, returned var)], falls through)
    for k in range(1, len(parts), 2):
        lab = parts[k]
        ml = re.match(r"case\s+interpolation_type::(\w+)", lab)
        label = ml.group(1) if ml else None
        if label is not None and label not in enum:
            raise TranslateError(f"{cname}: unknown enumerator {label}")
        text = " ".join(parts[k + 1].split())
        steps, falls = [], False
        while text:
            mi = re.match(r"if \( ?std::isfinite\( ?(\w+) ?\) ?\) ?\{ ?return (\w+) ?; ?\} ?", text)
            mr = re.match(r"return (\w+) ?; ?", text)
            mf = re.match(r"\[\[fallthrough\]\] ?; ?", text)
            if mi:
                steps.append((mi.group(1), mi.group(2))); text = text[mi.end():]
            elif mr:
                steps.append((None, mr.group(1))); text = text[mr.end():]
                if text:
                    raise TranslateError(f"{cname}: statements after an unconditional return")
            elif mf:
                falls = True; text = text[mf.end():]
                if text:
                    raise TranslateError(f"{cname}: statements after [[fallthrough]]")
            else:
                raise TranslateError(f"{cname}: case body not translated: {text[:80]}")
        for g, r in steps:
            for v in (g, r):
                if v is not None and v not in bind:
                    raise TranslateError(f"{cname}: unbound symbol {v}")
        blocks.append((label, steps, falls))
    if not blocks or blocks[-1][0] is not None:
        raise TranslateError(f"{cname}: the last label must be `default`")

    def chain(k):
        """the code executed when control enters block k"""
        out = []
        while True:
            label, steps, falls = blocks[k]
            for g, r in steps:
                out.append((g, r))
                if g is None:
                    return out
            if not falls and k + 1 < len(blocks):
                raise TranslateError(f"{cname}: a case without return or [[fallthrough]] (a `break`?) is not translated")
            k += 1
            if k >= len(blocks):
                raise TranslateError(f"{cname}: control reaches the end of the switch")

    def render(ch):
        s = ""
        for g, r in ch:
            s += (f"if fin {g} then {r} else " if g is not None else r)
        return s

    arms = []
    labels = [b[0] for b in blocks]
    for e in enum:
        k = labels.index(e) if e in labels else len(blocks) - 1
        arms.append(f"  | .{e} => {render(chain(k))}\n")
    lines = "".join(f"  let {n} := {v}\n" for n, v in lets)
    quoted = " ".join(strip_comments(body_of(src, cname, STEP_CPP)).split())
    return (f"/-- `{cname}` ({STEP_CPP}): `{quoted}` -/\n"
            f"def interpolate (fin : α → Bool) (sqrt : α → α) ({ARGS} : α) (method : InterpolationType) : α :=\n{lines}"
            f"  match method with\n" + "".join(arms))


def generate_step(repo):
    try:
        src = open(os.path.join(repo, STEP_CPP)).read()
        hsrc = open(os.path.join(repo, STEP_H)).read()
    except OSError as ex:
        raise TranslateError(f"cannot read the lstep sources: {ex}")
    enum = translate_enum(hsrc)
    out = [HEADER_STEP]
    out.append(f"/-- `enum class interpolation_type` ({STEP_H}) -/\ninductive InterpolationType where\n" +
               "".join(f"  | {n}\n" for n in enum) + "deriving DecidableEq, Repr\n")
    out.append("section\nvariable {α : Type} [Add α] [Sub α] [Mul α] [Div α] [Neg α] [LT α] [LE α] [DecidableLT α] [DecidableLE α] "
               "[∀ n, OfNat α n]\n")
    for fname, with_sqrt in (("cubic", True), ("quadratic", False), ("secant", False), ("bisection", False)):
        out += translate_formula(src, fname, with_sqrt)
    out.append(translate_interpolate(src, enum))
    out.append("end\nend NanoVerif.Gen.LsStep\n")
    return "\n".join(out)


def translate():
    try:
        text = generate(vlib.REPO)
    except TranslateError as ex:
        raise vlib.Broken("translate", f"Gen/LsPredicates.lean: {ex}")
    vlib.write_if_changed(OUT, text)
    try:
        step = generate_step(vlib.REPO)
    except TranslateError as ex:
        raise vlib.Broken("translate", f"Gen/LsStep.lean: {ex}")
    vlib.write_if_changed(OUT_STEP, step)
    return text
