"""C07 (and C01): C++ → Lean translator for the line-search acceptance predicates (DESIGN.md §2.3.a).

Extracts, *by function name* from the current source text of the repository under check,
  solver_state_t::has_armijo / has_approx_armijo / has_wolfe / has_strong_wolfe / has_approx_wolfe   (src/solver/state.cpp)
  solver_state_t::has_descent                                                                    (include/nano/solver/state.h)
  lsearchk_t::stpmin / stpmax                                                                     (src/lsearchk.cpp)
and emits lean/NanoVerif/Gen/LsPredicates.lean, generic over the scalar. Each function body must be (asserts and
comments removed) a single `return <scalar expression>;`. Anything else raises vlib.Broken("translate", …).
"""
import os, re
from fractions import Fraction
import vlib

OUT = os.path.join(vlib.LEAN, "NanoVerif", "Gen", "LsPredicates.lean")

TOK = re.compile(r"\s*(?:(\d+\.\d*(?:[eE][-+]?\d+)?|\.\d+(?:[eE][-+]?\d+)?|\d+(?:[eE][-+]?\d+)?)"
                 r"|([A-Za-z_][A-Za-z_0-9]*(?:::[A-Za-z_][A-Za-z_0-9]*)*(?:\.[A-Za-z_][A-Za-z_0-9]*)*)"
                 r"|(<=|>=|==|!=|&&|\|\||[-+*/()<>,!]))")


class TranslateError(Exception):
    pass


def strip_comments(s):
    s = re.sub(r"/\*.*?\*/", " ", s, flags=re.S)
    return re.sub(r"//[^\n]*", " ", s)


def body_of(src, qualified_name, path):
    """text between the braces of the definition `… qualified_name(…) [const] { … }`"""
    m = re.search(r"\b" + re.escape(qualified_name) + r"\s*\((?:[^()]|\([^()]*\))*\)\s*(?:const)?\s*(?:noexcept)?\s*\{", src)
    if not m:
        raise TranslateError(f"definition of {qualified_name} not found in {path}")
    i = m.end(); depth = 1
    while depth:
        if i >= len(src):
            raise TranslateError(f"unbalanced braces in {qualified_name}")
        c = src[i]
        depth += (c == "{") - (c == "}")
        i += 1
    return src[m.end():i - 1]


def tokenize(s):
    out = []; i = 0
    while i < len(s):
        if s[i:].strip() == "":
            break
        m = TOK.match(s, i)
        if not m:
            raise TranslateError("cannot tokenize at: " + s[i:i + 40].strip())
        if m.group(1):
            out.append(("num", m.group(1)))
        elif m.group(2):
            out.append(("id", m.group(2)))
        else:
            out.append(("op", m.group(3)))
        i = m.end()
    return out


def lean_number(text):
    """a C++ numeric literal as an exact Lean term over OfNat + Div (no OfScientific): 2.0 → (2 : α), 0.5 → ((1 : α) / (2 : α)).
    At Float the quotient of two exactly representable integers is the correctly rounded literal, i.e. the same double."""
    q = Fraction(text)
    if q.denominator == 1:
        return f"({q.numerator} : α)"
    if q.numerator >= 2 ** 53 or q.denominator >= 2 ** 53:
        raise TranslateError(f"literal {text} is not a quotient of small integers")
    return f"(({q.numerator} : α) / ({q.denominator} : α))"


class Parser:
    """recursive descent for C++ scalar expressions: || && comparison + - * / unary- calls; `bind` maps C++ symbols and
    call expressions (tokens glued without blanks, e.g. 'origin.dg(descent)') to Lean variables"""

    def __init__(self, toks, bind):
        self.t = toks; self.i = 0; self.bind = bind

    def peek(self):
        return self.t[self.i] if self.i < len(self.t) else ("eof", "")

    def eat(self, v=None):
        k = self.peek()
        if v is not None and k[1] != v:
            raise TranslateError(f"expected {v}, got {k[1]!r}")
        if k[0] == "eof":
            raise TranslateError("unexpected end of expression")
        self.i += 1
        return k

    def expr(self):
        a = self.andx()
        while self.peek()[1] == "||":
            self.eat(); a = f"({a} || {self.andx()})"
        return a

    def andx(self):
        a = self.cmp()
        while self.peek()[1] == "&&":
            self.eat(); a = f"({a} && {self.cmp()})"
        return a

    def cmp(self):
        a = self.add()
        if self.peek()[1] in ("<=", ">=", "<", ">"):
            op = self.eat()[1]; b = self.add()
            lean = {"<=": "≤", ">=": "≥", "<": "<", ">": ">"}[op]
            return f"decide ({a} {lean} {b})"
        if self.peek()[1] in ("==", "!="):
            raise TranslateError("equality comparison of scalars is not translated")
        return a

    def add(self):
        a = self.mul()
        while self.peek()[1] in ("+", "-"):
            op = self.eat()[1]; a = f"({a} {op} {self.mul()})"
        return a

    def mul(self):
        a = self.unary()
        while self.peek()[1] in ("*", "/"):
            op = self.eat()[1]; a = f"({a} {op} {self.unary()})"
        return a

    def unary(self):
        if self.peek()[1] == "-":
            self.eat(); return f"(-{self.unary()})"
        if self.peek()[1] == "+":
            self.eat(); return self.unary()
        if self.peek()[1] == "!":
            raise TranslateError("logical negation is not translated")
        return self.primary()

    def primary(self):
        k = self.eat()
        if k[0] == "num":
            return lean_number(k[1])
        if k[1] == "(":
            e = self.expr(); self.eat(")"); return e
        if k[0] == "id":
            name = k[1]
            if self.peek()[1] != "(":
                if name in self.bind:
                    return self.bind[name]
                raise TranslateError("unbound symbol " + name)
            self.eat("(")
            if name in ("std::fabs", "std::abs", "fabs"):
                e = self.expr(); self.eat(")"); return f"(absv {e})"
            if name in ("scalar_t", "static_cast<scalar_t>"):
                e = self.expr(); self.eat(")"); return e
            raw = []; depth = 1
            while True:
                k2 = self.eat()
                if k2[1] == "(":
                    depth += 1
                if k2[1] == ")":
                    depth -= 1
                    if depth == 0:
                        break
                raw.append(k2[1])
            key = name + "(" + "".join(raw) + ")"
            if key in self.bind:
                return self.bind[key]
            raise TranslateError("unbound call " + key)
        raise TranslateError(f"unexpected token {k[1]!r}")


def translate_fn(src, path, cname, leanname, params, bind, rettype):
    body = strip_comments(body_of(src, cname, path))
    body = re.sub(r"\bassert\s*\((?:[^()]|\((?:[^()]|\([^()]*\))*\))*\)\s*;", "", body)
    # the machine epsilon is a parameter of the generated definition
    body = body.replace("std::numeric_limits<scalar_t>::epsilon()", "MACHEPS")
    m = re.fullmatch(r"\s*return\s+(.*?);\s*", body, re.S)
    if not m:
        raise TranslateError(f"{cname}: body is not a single return statement: {' '.join(body.split())[:160]}")
    p = Parser(tokenize(m.group(1)), bind)
    e = p.expr()
    if p.peek()[0] != "eof":
        raise TranslateError(f"{cname}: trailing tokens after the expression")
    is_bool = e.startswith("decide") or "&&" in e or "||" in e
    if rettype == "Bool" and not is_bool:
        raise TranslateError(f"{cname}: expected a comparison, got {e}")
    if rettype == "α" and is_bool:
        raise TranslateError(f"{cname}: expected a scalar, got {e}")
    return f"def {leanname} ({' '.join(params)} : α) : {rettype} := {e}", " ".join(m.group(1).split())


# C++ symbol → Lean variable, inside the member functions of solver_state_t (`*this` = trial state, `origin` = state0)
B = {"m_fx": "f", "origin.fx()": "f0", "origin.dg(descent)": "dg0", "dg(descent)": "dg", "step_size": "t",
     "c1": "c1", "c2": "c2", "epsilon": "eps"}

HEADER = """-- GENERATED by tools/props/c07.py from src/solver/state.cpp, include/nano/solver/state.h, src/lsearchk.cpp — do not edit
/-!
  Line-search acceptance predicates of libnano, re-translated from the C++ source text on every check (DESIGN.md §2.3.a).
  Used by the theorems of C07 (line searches) and C01 (solvers). Core Lean only; self-contained (no import).

  Scalar-generic: runs at `Float` in the drivers, proved over ordered fields. Numeric literals are emitted through `OfNat`
  and `/` only (`2.0` ↦ `(2 : α)`, `0.5` ↦ `((1 : α) / (2 : α))`), `std::fabs` ↦ `absv`, `a >= b` ↦ `decide (a ≥ b)`.

  Arguments (all of type `α`), bound to the C++ expressions of `solver_state_t`'s member functions, where `*this` is the
  trial state and `origin` the state the line search started from:
    f0  = origin.fx()             value at the origin                 f   = m_fx          value at the trial point
    dg0 = origin.dg(descent)      slope g(x0)·d at the origin         dg  = dg(descent)   slope at the trial point
    t   = step_size               c1, c2 = the `lsearchk::tolerance` pair               eps = epsilon (CG_DESCENT's ε_k)
    macheps = std::numeric_limits<scalar_t>::epsilon()

  One definition per C++ function; the comment above each definition quotes the translated `return` expression.
-/
namespace NanoVerif.Gen.LsPredicates
section
variable {α : Type} [Add α] [Sub α] [Mul α] [Div α] [Neg α] [LT α] [LE α] [DecidableLT α] [DecidableLE α] [∀ n, OfNat α n]

/-- `std::fabs` (differs from it only in the sign of a zero result) -/
def absv (x : α) : α := if x < 0 then -x else x
"""

FOOTER = """end
end NanoVerif.Gen.LsPredicates
"""

SPEC = [
    # (source file, C++ name, Lean name, parameters, return type)
    ("src/solver/state.cpp", "solver_state_t::has_armijo", "hasArmijo", ["f0", "dg0", "f", "t", "c1"], "Bool"),
    ("src/solver/state.cpp", "solver_state_t::has_approx_armijo", "hasApproxArmijo", ["f0", "f", "eps"], "Bool"),
    ("src/solver/state.cpp", "solver_state_t::has_wolfe", "hasWolfe", ["dg0", "dg", "c2"], "Bool"),
    ("src/solver/state.cpp", "solver_state_t::has_strong_wolfe", "hasStrongWolfe", ["dg0", "dg", "c2"], "Bool"),
    ("src/solver/state.cpp", "solver_state_t::has_approx_wolfe", "hasApproxWolfe", ["dg0", "dg", "c1", "c2"], "Bool"),
    ("include/nano/solver/state.h", "has_descent", "hasDescent", ["dg"], "Bool"),
    ("src/lsearchk.cpp", "lsearchk_t::stpmin", "stpmin", ["macheps"], "α"),
    ("src/lsearchk.cpp", "lsearchk_t::stpmax", "stpmax", ["macheps"], "α"),
]


def generate(repo):
    out = [HEADER]
    srcs = {}
    for path, cname, lname, params, rett in SPEC:
        full = os.path.join(repo, path)
        if path not in srcs:
            try:
                srcs[path] = open(full).read()
            except OSError as ex:
                raise TranslateError(f"cannot read {full}: {ex}")
        bind = dict(B)
        if lname in ("stpmin", "stpmax"):
            bind = {"MACHEPS": "macheps", "stpmin()": "(stpmin macheps)"}
        line, cxx = translate_fn(srcs[path], path, cname, lname, params, bind, rett)
        out.append(f"/-- `{cname}` ({path}): `return {cxx};` -/\n{line}\n")
    out.append(FOOTER)
    return "\n".join(out)


def translate():
    try:
        text = generate(vlib.REPO)
    except TranslateError as ex:
        raise vlib.Broken("translate", f"Gen/LsPredicates.lean: {ex}")
    vlib.write_if_changed(OUT, text)
    return text
