"""C06 — values, gradients and convexity flags of functions, losses and constraints are truthful (DESIGN.md §4 C06)."""
import json, math, os, re, sys
import vlib
from vlib import Toks, lst, f2h, h2f, Broken
sys.path.insert(0, os.path.dirname(os.path.abspath(__file__)))
import c06_translate

ID = "C06"
LEVEL = "proof"
HARNESS = "c06"
LEAN_MODULES = ["NanoVerif.Props.C06"]
NS = "NanoVerif.C06."
OBLIGATIONS = [NS + t for t in [
    # losses: sub-gradient inequality of every kernel flagged convex
    "elementwise_sum_subgrad", "mae_subgrad", "mse_subgrad", "hinge_subgrad", "sqhinge_subgrad", "pinball_subgrad",
    "exponential_subgrad", "logistic_subgrad", "classnll_subgrad", "classnll_subgrad_eps",
    # values and errors
    "loss_nonneg", "classnll_nonneg", "error_nonneg", "argmax_spec", "sclass_error_iff_argmax",
    "mclass_error_eq_count_sign", "binary_error_iff_sign",
    # benchmark functions
    "sphere_subgrad", "axis_ellipsoid_subgrad", "schumer_steiglitz_subgrad", "chung_reynolds_subgrad", "sargan_subgrad",
    "zakharov_subgrad", "rotated_ellipsoid_subgrad", "trid_subgrad", "quadratic_subgrad", "maxq_subgrad", "maxquad_subgrad",
    "maxhilb_subgrad",
    "chained_lq_subgrad", "kinks_subgrad", "chained_cb3I_subgrad", "chained_cb3II_subgrad", "exponential_fn_subgrad",
    "geometric_subgrad",
    "elastic_net_subgrad", "elastic_net_kernels",
    # constraints
    "ball_subgrad", "linear_subgrad", "cquad_subgrad", "minimum_subgrad", "maximum_subgrad",
    # composition
    "affine_comp_subgrad", "sum_subgrad", "ridge_subgrad_mu", "ridge_partial_subgrad_mu",
    # derivatives of the smooth scalar kernels
    "mse_hasDerivAt", "sqhinge_hasDerivAt", "logistic_hasDerivAt", "exponential_hasDerivAt", "cauchy_hasDerivAt",
    "savage_hasDerivAt", "tangent_hasDerivAt",
    # the returned gradient is the derivative of the returned value along every line: smooth benchmark functions
    "hasDerivAt_line_everywhere",
    "sphere_hasDerivAt_line", "axis_ellipsoid_hasDerivAt_line", "schumer_steiglitz_hasDerivAt_line", "qing_hasDerivAt_line",
    "styblinski_tang_hasDerivAt_line", "chung_reynolds_hasDerivAt_line", "sargan_hasDerivAt_line", "zakharov_hasDerivAt_line",
    "exponential_fn_hasDerivAt_line", "cauchy_fn_hasDerivAt_line", "rotated_ellipsoid_hasDerivAt_line", "trid_hasDerivAt_line",
    "rosenbrock_hasDerivAt_line", "dixon_price_hasDerivAt_line", "powell_hasDerivAt_line", "quadratic_hasDerivAt_line",
    "geometric_hasDerivAt_line", "elastic_net_ridge_hasDerivAt_line", "elastic_net_smooth_kernels",
    # ... smooth losses as functions of the prediction vector
    "loss_hasDerivAt_line", "classnll_shift_hasDerivAt_line", "classnll_hasDerivAt_line", "classnll_value_eps_close",
    # ... objects not declared smooth: derivative wherever no kink / tie is hit
    "mae_hasDerivAt_line_off_kinks", "hinge_hasDerivAt_line_off_kinks", "pinball_hasDerivAt_line_off_kinks",
    "elastic_net_hasDerivAt_line_off_kinks", "elastic_net_kernels_off_kinks", "chained_lq_hasDerivAt_line_off_ties",
    "chained_cb3I_hasDerivAt_line_off_ties", "chained_cb3II_hasDerivAt_line_off_ties", "kinks_hasDerivAt_line_off_kinks",
    "maxq_hasDerivAt_line_off_ties", "maxquad_hasDerivAt_line_off_ties", "maxhilb_hasDerivAt_line_off_ties",
    # ... smooth constraint kinds
    "ball_hasDerivAt_line", "linear_hasDerivAt_line", "cquad_hasDerivAt_line", "minimum_hasDerivAt_line",
    "maximum_hasDerivAt_line",
    # ... compositions (ML objectives)
    "affine_comp_hasDerivAt_line", "sum_hasDerivAt_line", "ridge_hasDerivAt_line",
    # declared flags
    "flags_covered", "smooth_covered", "gradient_covered", "strong_covered", "strong_values_covered",
    # gap-closing round: the tensor interface of the losses (per-sample independence for every batch size / sample shape)
    "loss_batch_entry_own_sample", "loss_batch_eq_each_alone", "loss_batch_vgrad_own_sample", "loss_batch_append",
    "batchMap_eq_range", "vgrad_length",
    # ... the hypothesis of classnll_nonneg is necessary (witnesses replayed on the code: corpus)
    "classnll_negative_two_positives", "classnll_negative_no_positive", "pinball_negative_outside_domain",
    # ... declared strong-convexity coefficients of the quadratic objects are valid moduli; flags need the symmetric part
    "quadform_gap", "quadform_sym_gap", "quadratic_subgrad_mu", "cquad_subgrad_mu", "cquad_flags_need_symmetric_part",
    # ... make(dims, summands): size rules for every dims 1..32; powell writes every gradient component iff 4 | size
    "sizes_covered", "size_rule_by_id", "powell_size", "powell_gradient_complete", "powell_value_ignores_tail",
    # ... every gradient component is written (the model's gradient has the dimension of the point)
    "gradient_length_unconditional", "gradient_length_shaped", "gradient_length_real", "dixonG_length", "kinksG_length",
    # ... function_t base class: constrain acceptance, stored constraints, valid, call counters (every history)
    "function_constraints_invariant", "function_constrain_acceptance", "function_box_counts", "function_valid_iff",
    "function_call_counters", "step_inv", "run_calls",
    # ... the loss kernels of the model ARE the formulas of the source (Gen/LossKernels.lean, rfl for any scalar type)
    "model_loss_value_kernels_are_generated", "model_loss_grad_kernels_are_generated", "model_loss_values_are_generated",
    "model_loss_vgrads_are_generated", "model_count_edges_is_generated",
]]
TRUSTED = [
    "Lean 4.33.0 kernel; Mathlib modules imported by NanoVerif/Proofs/C06*.lean and NanoVerif/Props/C06.lean (Tactic.Ring, "
    "Tactic.Linarith, Tactic.Positivity, Algebra.Order.Field.Basic, Analysis.SpecialFunctions.Exp / ExpDeriv / Log.Basic / Log.Deriv / "
    "Sqrt / Trigonometric.Arctan / Trigonometric.ArctanDeriv, Analysis.Calculus.Deriv.* through these)",
    "the definition `line x d t = vadd x (smul t d)` (NanoVerif/Proofs/C06Line.lean) through which the derivative theorems are stated: "
    "HasDerivAt (fun t => f (line x d t)) (dot (g x) d) 0 for all x, d of equal length (Mathlib's HasDerivAt over R)",
    "axioms: at most propext, Classical.choice, Quot.sound (audited per theorem on every run)",
    "hand-written models NanoVerif/Model/Loss.lean (17 losses: value, vgrad, error) and NanoVerif/Model/Functions.lean (all 48 "
    "benchmark prototypes; the 24 elastic-net prototypes through one generic definition —, 9 of the 11 constraint "
    "kinds directly and the two functional kinds through the function models); tied to the "
    "code by the correspondence run (harness/c06.cpp on the real code vs the compiled Lean driver at Float, relative tolerance below)",
    "instances of the class Transc: std::exp/log/log1p/atan are Real.exp/Real.log/log(1+.)/Real.arctan in the proofs and libm at Float "
    "(log1p through log, core Float has none)",
    "NanoVerif/Gen/Flags.lean is a dump of the flags the implementation declares (harness op `dump flags`), regenerated on every run",
    "parameters drawn at construction by libnano's RNG (kinks, quadratic, geometric-optimization, the synthetic data of the "
    "elastic-net prototypes) are reproduced in the harness with the constructor's own calls and handed to the model; the "
    "regularisation factors of the elastic-net prototypes are read from their ids; the five matrices / vectors of maxquad (private "
    "members) are recomputed in the harness with a copy of the two fill() formulas of maxquad.cpp:7-43 (a changed formula in the "
    "source shows up as a model/implementation disagreement)",
    "NanoVerif/Gen/LossKernels.lean is re-translated from include/nano/loss/flatten.h, include/nano/loss/error.h, src/loss/pinball.cpp by "
    "tools/props/c06_translate.py on every run (10 value + 10 gradient kernels, the L1 error, the multi-label edge test) and proved equal "
    "to the text of Model/Loss.lean by rfl for every scalar type; hand-written only: classnll_t, sclass_t::error",
    "hand-written models NanoVerif/Model/LossBatch.lean (the loops over the samples of the 4-D tensors) and NanoVerif/Model/FunctionsBase.lean "
    "(function_t: constrain x4, valid, call counters, size rules of make) tied to the code by the op families `loss batch|batch4`, "
    "`fbase hist`, `fn flags`; NanoVerif/Model/Constraint.lean (C05's model) supplies compatible / valid / is_equality",
    "run-time monitors (python, independent of Eigen / of the library): Jacobi eigenvalues of (P+P')/2 against the declared convex / "
    "strong_convexity of every quadratic constraint op and of A for every `fn flags quadratic` op; symmetry + diagonal dominance of the "
    "maxquad matrices; nano::is_convex (the library's own chord test) on every `fn cvx` op; sentinel pre-fill of every gradient / result "
    "buffer handed to the library",
    "tools/props/c06.py generator + oracle (difference quotients, convexity inequality, error rules); harness/c06.cpp incl. its random "
    "local search for violating pairs (its results are re-checked by the python oracle); g++/libstdc++/Eigen",
]
ASSUMPTIONS = [
    "theorems are about exact arithmetic (ordered field; R for exp/log/atan kernels); rounding is covered only by the tolerances of the "
    "correspondence and of the oracle",
    "s-classnll as coded adds epsilon inside the logarithm but not in its gradient: the sub-gradient inequality holds up to the additive "
    "constant log(1+epsilon) <= 2.3e-16 (theorem classnll_subgrad_eps; exact for epsilon = 0: classnll_subgrad)",
    "loss values are non-negative for s-classnll only when the target has exactly one positive entry (classnll_nonneg); the library "
    "feeds one-hot targets to single-label losses; other patterns (0, 2, 3 positive labels) are generated for every s-* / m-* loss and "
    "every number of outputs and checked for value / gradient / error, only the sign of the s-classnll value is exempt. The hypothesis is "
    "necessary: classnll_negative_two_positives / classnll_negative_no_positive (kernel-checked, replayed on the code by two corpus ops "
    "that REQUIRE a negative value); pinball needs alpha in [0, 1] (pinball_negative_outside_domain; the parameter refuses other values: "
    "corpus op)",
    "per-sample independence is a theorem about the model of the tensor interface (loss_batch_entry_own_sample, loss_batch_eq_each_alone, "
    "loss_batch_vgrad_own_sample: every number of samples, every sample shape) and a correspondence family (model vs real batch call, "
    "and batch vs one-sample calls) with 1, 2, 3, 5, 7, 11 samples of 1..27 scalars",
    "declared strong-convexity coefficients: valid moduli by theorem for sphere, axis-ellipsoid, exponential, the euclidean ball, the "
    "elastic-net prototypes (strong_values_covered ties the dumped VALUES 2, 2/2^k, alpha2 to the theorems) and — under the contract "
    "mu |d|^2 <= d.Ad monitored by python Jacobi rotations — for quadratic and the quadratic constraints (quadratic_subgrad_mu, "
    "cquad_subgrad_mu); tightness is not claimed; the linear::function_t finding stays open",
    "quadratic (benchmark) is convex under the hypothesis that its matrix A = I + R R' is self-adjoint and positive semi-definite "
    "(hypotheses of quadratic_subgrad); the quadratic constraint kinds (symmetrised gradient, 78c1895) for every square P with "
    "d.Pd >= 0 (hypothesis of cquad_subgrad, no symmetry needed); the eigenvalue tests of nano::convex / nano::strong_convexity "
    "(Eigen) that decide these hypotheses and the declared coefficients of quadratic / quadratic constraints are tested only",
    "gradient = derivative: a theorem (X_hasDerivAt_line: the directional derivative of the modelled value along every direction d is "
    "g(x).d, all dimensions) for every object that declares itself smooth — the 17 smooth benchmark functions incl. the non-convex qing, "
    "cauchy, powell, rosenbrock, dixon-price, styblinski-tang, the <mse|logistic>+ridge prototypes, the 13 smooth losses, all constraint "
    "kinds (theorem smooth_covered over the dumped flags; the list is in the evidence `explanation`). Hypotheses: quadratic needs its matrix "
    "self-adjoint (A = I + R R' is; for a non-symmetric A the returned a + A x is not the derivative: example in Props/C06.lean); the "
    "quadratic constraint kinds need nothing (symmetrised gradient); geometric-optimization needs the shapes to match. Objects NOT "
    "declared smooth (mae, hinge, pinball, maxq, maxhilb, chained_lq, chained_cb3I/II, kinks, the lasso / elasticnet / mae+ / hinge+ / "
    "cauchy+ prototypes): the returned sub-gradient is the derivative along every line at every point that avoids the kinks / ties of "
    "the formula (X_hasDerivAt_line_off_kinks / _off_ties, side condition spelled out per theorem: outputs off the kink of the kernel, "
    "no zero coordinate for an l1 term, the selected piece / index the STRICT maximum, maxhilb's maximum non-zero); ON a kink the code "
    "returns one sub-gradient (X_subgrad where convex; one-sided difference quotients in the search). Theorem gradient_covered: every "
    "dumped object is on provenSmooth, provenOffKinks or an explicit tested-only list (both tested-only lists are empty)",
    "maxquad is convex under the hypothesis that its matrices A_k are self-adjoint and positive semi-definite (hypotheses of maxquad_subgrad; "
    "the constructor's matrices are symmetric and diagonally dominant with a positive diagonal, which is not re-proved from the "
    "exp/cos/sin formulas: the search tests the inequality on the real matrices)",
    "s-classnll as coded adds epsilon inside the logarithm of the value but not in the gradient: the returned gradient is exactly the "
    "gradient of the epsilon = 0 value (classnll_hasDerivAt_line; for any shift rule: classnll_shift_hasDerivAt_line), and the coded value "
    "differs from that one by at most log(1+epsilon) <= 2.3e-16 uniformly (classnll_value_eps_close); it is not the exact derivative of the "
    "coded value (relative deviation of the order of epsilon, and the epsilon-term has a kink where the maximal output is tied)",
    "ML objectives (linear / gboost / surrogate): convexity follows from affine_comp_subgrad + sum_subgrad + ridge_subgrad_mu / "
    "ridge_partial_subgrad_mu given the loss kernel's inequality, gradient = derivative from affine_comp_hasDerivAt_line + "
    "sum_hasDerivAt_line + ridge_hasDerivAt_line given loss_hasDerivAt_line (both carried out in full for the elastic-net prototypes: "
    "elastic_net_subgrad, elastic_net_ridge_hasDerivAt_line); their plumbing (dataset iteration, accumulation over threads) is "
    "tested (difference quotients), not modelled",
]
RTOL = 1e-9
RULE = ("gap-closing additions: `fn flags` for every prototype x dims 1..32 (size rule, declared coefficient against the known modulus, "
        "Jacobi / dominance monitors); every gradient buffer pre-filled with a sentinel (an unwritten component is a violation); class "
        "patterns with 0, 1, 2, 3 positive labels for every s-* / m-* loss x 1..13 outputs (sample: value / gradient / error; cd; cvx); "
        "`loss batch4`: 1, 2, 3, 5, 7, 11 samples of shape (d1, d2, d3), d_i in 1..3; `fbase hist`: 150 / 1500 histories of 2..12 operations "
        "(constrain x4 with a third deliberately incompatible / min >= max / dimension -1, size, size+3 / vectors of the wrong size, valid at "
        "dyadic points on and off the boundaries, vgrad with and without gradient, clear_statistics) on 8 prototypes x dims 1..9; "
        "upper-triangular non-symmetric P with a positive diagonal and an off-diagonal entry above 2 sqrt(p_ii p_jj) (spectrum of P all "
        "positive, symmetric part indefinite); linear / gboost-bias objectives over a SUBSET of the samples, multi-output. Then: "
        "corpus; all function prototypes of function_t::all() x dims (quick: 1, 2 and 6 further of 1..32; thorough: 1..32) x summands "
        "{1,7,30}: value-only vs value+gradient, difference quotients along random directions at two step sizes, the declared convexity "
        "inequality (with the declared mu) for x, z in boxes of radius 1e-3..10 and after a random local search on the violation; constructed "
        "exact ties of the pieces of chained_cb3I/II (v1 = v2 > v3), chained_lq, maxq, maxhilb, maxquad, kinks of kinks / |.| / hinge / pinball / "
        "lasso; all 17 losses x 1..13 outputs x targets of every class pattern (each one-hot position, all negative, all positive, random, "
        "exhaustive for <= 3 outputs) x predictions in [-30,30] incl. 0, +-30, the decision boundary and arg-max ties; batch vs single "
        "evaluation; 11 constraint kinds with random coefficients (symmetric P); linear / gboost bias, scale, grads / surrogate fit "
        "objectives over random in-memory datasets (regression, single-label, multi-label). Tolerances: model vs implementation: relative 1e-9 "
        "per number or absolute 1e-13 x the largest magnitude of the result line (at least 1e-13 for s-classnll: probability minus one); convexity: violation > 1e-9 x (|f(x)|+|f(z)|+sum|g_i dz_i|+"
        "mu/2|dz|^2) + 64 eps x max(1,|x|_inf,|z|_inf); difference quotient: |D - g.dx| > 1e-6 |g.dx| + 2 |D(2h) - 2 D(h)| + 2e-11 x max|f|, relaxed to 'g.dx between the "
        "one-sided differences' for objects not declared smooth. A case is non-trivial when it is a constructed tie/kink/boundary case (#tag) "
        "or has dimension >= 2 (functions, constraints, objectives) / >= 2 outputs (losses); distinct by op text")
FLAVOUR = {"quick": "plain", "thorough": "asan"}
HARNESS_TIMEOUT = 1500
EPS = 2.220446049250313e-16
DUMP_DIMS = [1, 2, 3, 4, 8, 16, 32]
MAX_DIMS = 32                                  # sizes are dumped (and tied to the model's size rule) for every dims 1..32
SENTINEL = f2h(-7.2511e+77)                    # harness/c06.cpp kSentinel: pre-fill of every gradient buffer
RADII = [1e-3, 1e-2, 1e-1, 1.0, 10.0]
MODELLED_FN = {"sphere", "axis-ellipsoid", "schumer-steiglitz", "qing", "styblinski-tang", "chung-reynolds", "sargan", "zakharov",
               "rotated-ellipsoid", "trid", "chained_lq", "rosenbrock", "dixon-price", "powell", "maxq", "maxhilb", "chained_cb3I",
               "chained_cb3II", "exponential", "cauchy", "kinks", "quadratic", "geometric-optimization", "maxquad"}
MODELLED_CT = {"constant", "minimum", "maximum", "ball-eq", "ball-ineq", "linear-eq", "linear-ineq", "quadratic-eq", "quadratic-ineq"}
CT_KINDS = ["constant", "minimum", "maximum", "ball-eq", "ball-ineq", "linear-eq", "linear-ineq", "quadratic-eq", "quadratic-ineq",
            "functional-eq", "functional-ineq"]
REG_LOSSES = ["mae", "mse", "cauchy", "pinball"]


# ---------------------------------------------------------------------------------------------------------
# translate: dump of the declared flags -> NanoVerif/Gen/Flags.lean (+ a json copy for the generator)

def _tier():
    a = sys.argv
    if "--tier" in a and a.index("--tier") + 1 < len(a):
        t = a[a.index("--tier") + 1]
        return t if t in ("quick", "thorough") else "quick"
    t = os.environ.get("VERIF_TIER")
    return t if t in ("quick", "thorough") else "quick"


def _dump_path():
    return os.path.join(vlib.CACHE, "c06_dump.json")


def _run_dump():
    fl = FLAVOUR.get(_tier(), "plain")
    vlib.build_repo(fl)
    exe = vlib.build_harness(HARNESS, fl)
    ops = ["dump flags " + lst(DUMP_DIMS)] + [f"dump kinks {d}" for d in range(1, 33)] + [f"dump sizes {MAX_DIMS}"]
    aug, res, crash = vlib.run_harness(exe, ops, timeout=300)
    if crash is not None or len(res) != len(ops):
        raise Broken("translate:Flags", f"the flags dump crashed: {crash}")
    t = Toks(res[0])
    if t.s() != "ok":
        raise Broken("translate:Flags", res[0][:200])
    fns, losses, cts = [], [], []
    for _ in range(t.int()):
        fns.append(dict(id=t.s(), dims=t.int(), size=t.int(), convex=t.int(), smooth=t.int(), mu=t.f()))
    for _ in range(t.int()):
        losses.append(dict(id=t.s(), convex=t.int(), smooth=t.int()))
    for _ in range(t.int()):
        cts.append(dict(id=t.s(), convex=t.int(), smooth=t.int(), mu=t.f()))
    z = Toks(res[-1])
    if z.s() != "ok":
        raise Broken("translate:Flags", res[-1][:200])
    sizes = {}
    for _ in range(z.int()):
        i = z.s()
        sizes[i] = [z.int() for _ in range(MAX_DIMS)]
    kinks = {}
    for d, r in zip(range(1, 33), res[1:-1]):
        k = Toks(r)
        if k.s() != "ok":
            raise Broken("translate:Flags", r[:200])
        rows, cols = k.int(), k.int()
        data = k.fs()
        kinks[str(d)] = [data[i * cols:(i + 1) * cols] for i in range(rows)]
    return dict(fns=fns, losses=losses, cts=cts, kinks=kinks, sizes=sizes)


def lean_name(prefix, s):
    n = re.sub(r"[^A-Za-z0-9]+", "_", s).strip("_")
    return f"{prefix}_{n}"


def flags_text(d):
    objs, seen = [], set()
    rows = []
    for r in d["fns"]:
        n = lean_name("fn", r["id"])
        if n not in seen:
            seen.add(n); objs.append((n, "fn:" + r["id"]))
        rows.append((n, r["dims"], r["convex"], r["smooth"], r["mu"]))
    for r in d["losses"]:
        n = lean_name("loss", r["id"])
        seen.add(n); objs.append((n, "loss:" + r["id"]))
        rows.append((n, 0, r["convex"], r["smooth"], 0.0))
    for r in d["cts"]:
        n = lean_name("ct", r["id"])
        seen.add(n); objs.append((n, "ct:" + r["id"]))
        rows.append((n, 3, r["convex"], r["smooth"], r["mu"]))
    if len({n for n, _ in objs}) != len(objs):
        raise Broken("translate:Flags", "object names are not unique after sanitising")
    b = lambda v: "true" if v else "false"
    out = ["-- GENERATED by tools/props/c06.py from the `dump flags` op of harness/c06.cpp (the flags declared by",
           "-- function_t::all() prototypes x dims, loss_t::all(), the 11 constraint kinds of /repo) — do not edit",
           "namespace NanoVerif.Gen.Flags", "",
           "/-- every registered benchmark function, every loss and every constraint kind (with representative coefficients) -/",
           "inductive Obj where"]
    out += [f"  | {n}" for n, _ in objs]
    out += ["deriving DecidableEq, Repr", "",
            "/-- the id the object is registered under -/", "def Obj.id : Obj → String"]
    out += [f"  | .{n} => \"{i}\"" for n, i in objs]
    out += ["", "/-- the registered id alone (without the family prefix) -/", "def Obj.rawId : Obj → String"]
    out += [f"  | .{n} => \"{i.split(':', 1)[1]}\"" for n, i in objs]
    out += ["", "/-- one declaration: object, dimension asked for (0 for losses), `convex()`, `smooth()`, `strong_convexity() > 0`, its bits -/",
            "structure Row where", "  obj : Obj", "  dims : Nat", "  convex : Bool", "  smooth : Bool", "  strong : Bool",
            "  muBits : Nat  -- bit pattern of the declared strong_convexity() (IEEE binary64)",
            "deriving DecidableEq, Repr", "", "def rows : List Row := ["]
    out.append(",\n".join(f"  ⟨.{n}, {dm}, {b(c)}, {b(s)}, {b(mu > 0)}, 0x{f2h(mu)}⟩" for n, dm, c, s, mu in rows))
    out += ["]", "",
            f"/-- `function_t::size()` of `make(dims, summands)` for every registered prototype and every requested dims 1..{MAX_DIMS} -/",
            "def sizes : List (Obj × List Nat) := ["]
    out.append(",\n".join(f"  (.{lean_name('fn', i)}, [{', '.join(str(v) for v in d['sizes'][i])}])" for i in d["sizes"]))
    out += ["]", "", "end NanoVerif.Gen.Flags", ""]
    return "\n".join(out)


def translate():
    c06_translate.translate()   # Gen/LossKernels.lean from flatten.h / error.h / pinball.cpp (source text)
    d = _run_dump()
    os.makedirs(vlib.CACHE, exist_ok=True)
    with open(_dump_path(), "w") as f:
        json.dump(d, f)
    global _DUMP
    _DUMP = d
    vlib.write_if_changed(os.path.join(vlib.LEAN, "NanoVerif", "Gen", "Flags.lean"), flags_text(d))


_DUMP = None


def dump():
    global _DUMP
    if _DUMP is None:
        if os.path.exists(_dump_path()):
            _DUMP = json.load(open(_dump_path()))
        if _DUMP is None or "sizes" not in _DUMP:
            _DUMP = _run_dump()
    return _DUMP


EXPLANATION = "see rule / trusted_base"


def _coverage_lists(name):
    """the list `name : List (Obj x String)` of Props/C06.lean (the lists the theorems flags_covered / smooth_covered decide over)"""
    src = open(os.path.join(vlib.LEAN, "NanoVerif", "Props", "C06.lean")).read()
    m = re.search(r"def %s : List \(Obj × String\) := \[(.*?)\]\n" % name, src, re.S)
    if m is None:
        return None
    return re.findall(r'\(\.(\w+),\s*"([^"]*)"\)', m.group(1))


def smooth_coverage(d):
    """(proved: {id: theorem}, tested only: {id: reason}, uncovered ids) for the objects the implementation declares smooth"""
    proven = dict(_coverage_lists("provenSmooth") or [])
    tested = dict(_coverage_lists("testedOnlySmooth") or [])
    rows = [("fn", "fn:", r) for r in d["fns"]] + [("loss", "loss:", r) for r in d["losses"]] + [("ct", "ct:", r) for r in d["cts"]]
    pr, te, un = {}, {}, []
    for pre, tagp, r in rows:
        if not r["smooth"]:
            continue
        n = lean_name(pre, r["id"])
        if n in proven:
            pr[tagp + r["id"]] = proven[n]
        elif n in tested:
            te[tagp + r["id"]] = tested[n]
        elif tagp + r["id"] not in un:
            un.append(tagp + r["id"])
    return pr, te, un


def static_checks():
    """the dump must cover what the statement quantifies over; every object declared smooth is on one of the two lists of
    Props/C06.lean (python mirror of the theorem smooth_covered) and every theorem named there is an audited obligation"""
    global EXPLANATION
    d = dump()
    bad = []
    ids = {r["id"] for r in d["fns"]}
    if len(ids) < 48:
        bad.append(f"only {len(ids)} function prototypes registered (the statement names 48)")
    if len(d["losses"]) < 17:
        bad.append(f"only {len(d['losses'])} losses registered (the statement names 17)")
    # the flags in the header text (`static constexpr auto convex / smooth` of the kernel structs) are the ones dumped at run time
    try:
        gen = open(c06_translate.OUT).read()
        hdr = {b: (c == "true", sm == "true") for b, c, sm in re.findall(r'\("([a-z-]+)", (true|false), (true|false)\)', gen)}
        for L in d["losses"]:
            base = L["id"][2:] if L["id"][:2] in ("s-", "m-") else L["id"]
            if base in hdr and hdr[base] != (bool(L["convex"]), bool(L["smooth"])):
                bad.append(f"loss {L['id']}: flags of the header {hdr[base]} != flags reported at run time")
    except OSError:
        bad.append("Gen/LossKernels.lean is missing")
    if _coverage_lists("provenSmooth") is None or _coverage_lists("testedOnlySmooth") is None:
        bad.append("Props/C06.lean: the lists provenSmooth / testedOnlySmooth are not found")
        return bad
    pr, te, un = smooth_coverage(d)
    for i in un:
        bad.append(f"{i} declares itself smooth but has neither a derivative theorem nor a tested-only entry")
    offk = dict(_coverage_lists("provenOffKinks") or [])
    offt = dict(_coverage_lists("testedOnlyOffKinks") or [])
    po, to = {}, {}
    for pre, tagp, k in (("fn", "fn:", "fns"), ("loss", "loss:", "losses"), ("ct", "ct:", "cts")):
        for r in d[k]:
            if r["smooth"]:
                continue
            n, i = lean_name(pre, r["id"]), tagp + r["id"]
            if n in offk:
                po[i] = offk[n]
            elif n in offt:
                to[i] = offt[n]
            elif i not in pr and i not in te:
                bad.append(f"{i} (not declared smooth) has neither an off-kink derivative theorem nor a tested-only entry")
    for i, thms in list(pr.items()) + list(po.items()):
        for th in re.split(r"\s*\+\s*", thms):
            if NS + th not in OBLIGATIONS:
                bad.append(f"{i}: the derivative theorem {th} named in Props/C06.lean is not an audited obligation")

    def by_thm(m):
        g = {}
        for i, th in m.items():
            g.setdefault(th, []).append(i)
        return "; ".join(f"{th}: {', '.join(sorted(v))}" for th, v in sorted(g.items()))

    EXPLANATION = (
        f"gradient = derivative along every line (HasDerivAt, all dimensions). Objects declaring themselves smooth: {len(pr)} with an "
        f"unconditional theorem, {len(te)} difference-quotient-tested only. Theorems: " + by_thm(pr)
        + ". Tested only: " + ("; ".join(f"{i} ({why})" for i, why in sorted(te.items())) or "none")
        + f". Objects not declared smooth: {len(po)} with a theorem at every point off the kinks / ties (on a kink: the sub-gradient "
        f"inequality where convex, one-sided difference quotients), {len(to)} tested only. Theorems: " + by_thm(po)
        + ". Tested only: " + ("; ".join(f"{i} ({why})" for i, why in sorted(to.items())) or "none"))
    return bad


# ---------------------------------------------------------------------------------------------------------
# generator

def fl(xs):
    return lst(xs, f2h)


def box(rng, n, r):
    return [rng.uniform(-r, r) for _ in range(n)]


def direction(rng, n):
    while True:
        d = [rng.uniform(-1.0, 1.0) for _ in range(n)]
        if rng.chance(0.3) and n > 1:  # sparse directions
            keep = rng.below(n)
            d = [v if (i == keep or rng.chance(0.3)) else 0.0 for i, v in enumerate(d)]
        m = max(abs(v) for v in d)
        if m > 1e-3:
            return [v / m for v in d]


def stencil(x, d, h):
    """x, x+hd, x-hd, x+(h/2)d, x-(h/2)d in double arithmetic (the oracle uses the points, not h)"""
    return [x,
            [a + h * b for a, b in zip(x, d)], [a - h * b for a, b in zip(x, d)],
            [a + 0.5 * h * b for a, b in zip(x, d)], [a - 0.5 * h * b for a, b in zip(x, d)]]


def step_for(x):
    return 2.0 ** -13 * max(1.0, max(abs(v) for v in x))


def pts(points):
    return f"{len(points)} " + " ".join(fl(p) for p in points)


def generic_ops(rng, spec, size, n_cd, n_cvx, climb_steps, x0s=(), tag=None, radii=RADII):
    """eval / cd / cvx / climb ops for one object; x0s = constructed special points (ties, kinks)"""
    ops = []
    tg = f" #{tag}" if tag else ""
    for x in x0s:
        ops.append(f"{spec[0]} eval {spec[1]} {fl(x)}")
        zs = []
        for r in radii:
            zs.append([a + rng.uniform(-r, r) for a in x])
            j = rng.below(size)  # one-coordinate moves (the direction that exposes a wrong branch at a tie)
            for s in (+1.0, -1.0):
                zs.append([a + (s * r * rng.uniform(0.1, 1.0) if i == j else 0.0) for i, a in enumerate(x)])
        ops.append(f"{spec[0]} cvx {spec[1]} {pts([x] + zs)}{tg}")
        for _ in range(2):
            d = direction(rng, size)
            ops.append(f"{spec[0]} cd {spec[1]} {pts(stencil(x, d, step_for(x)))}{tg}")
        if climb_steps:
            z = [a + rng.uniform(-0.1, 0.1) for a in x]
            ops.append(f"{spec[0]} climb {spec[1]} {fl(x)} {fl(z)} {climb_steps} {rng.below(1 << 30)} {f2h(max(1.0, max(abs(v) for v in x)) * 1.5)}{tg}")
    for k in range(n_cd):
        r = radii[k % len(radii)] if k < len(radii) else rng.choice(radii)
        x = box(rng, size, r)
        if k == 0:
            ops.append(f"{spec[0]} eval {spec[1]} {fl(x)}")
        ops.append(f"{spec[0]} cd {spec[1]} {pts(stencil(x, direction(rng, size), step_for(x)))}{tg if not x0s else ''}")
    for k in range(n_cvx):
        r = radii[k % len(radii)]
        c = box(rng, size, rng.choice([0.0, r, 1.0]))          # centre of the box
        x = [a + rng.uniform(-r, r) for a in c]
        zs = [[a + rng.uniform(-r, r) for a in c] for _ in range(3)]
        zs.append([a + rng.uniform(-r, r) * 1e-3 for a in x])  # a very close pair
        ops.append(f"{spec[0]} cvx {spec[1]} {pts([x] + zs)}{tg if not x0s else ''}")
    if climb_steps:
        r = rng.choice(radii)
        x = box(rng, size, r)
        z = box(rng, size, r)
        ops.append(f"{spec[0]} climb {spec[1]} {fl(x)} {fl(z)} {climb_steps} {rng.below(1 << 30)} {f2h(r)}")
    return ops


# -- constructed ties / kinks of the benchmark functions ---------------------------------------------------

def cb3_values(a, b):
    v1 = (a * a) * (a * a) + b * b
    v2 = (2.0 - a) * (2.0 - a) + (2.0 - b) * (2.0 - b)
    v3 = 2.0 * math.exp(-a + b)
    return v1, v2, v3


def cb3_ties():
    """exactly representable (a, b) with v1 == v2 > v3 in double arithmetic: b = 1 + ((2-a)^2 - a^4)/4 for dyadic a"""
    out = []
    for k in range(-32, 33):
        a = k / 8.0
        b = 1.0 + ((2.0 - a) * (2.0 - a) - (a * a) * (a * a)) / 4.0
        if abs(b) > 10.0:
            continue
        v1, v2, v3 = cb3_values(a, b)
        if v1 == v2 and v1 > v3:
            out.append((a, b))
    return out


def special_points(rng, fid, size, kinks):
    """points on ties of max-type functions / kinks of |.|; (points, tag)"""
    P = []
    if fid in ("chained_cb3I", "chained_cb3II") and size >= 2:
        ties = cb3_ties()
        if fid == "chained_cb3I" or size == 2:
            for a, b in ([(1.5, -0.203125)] + [rng.choice(ties) for _ in range(3)]):
                P.append([a, b] + box(rng, size - 2, 1.0))
        else:
            # cb3II compares the sums over the pairs: keep the other pairs' v1 - v2 at exactly 0 is not possible in
            # general; with a constant tail (c, c, ...) the extra pairs contribute d = c^4 + c^2 - 2 (2-c)^2 to fx1 - fx2,
            # which is 0 for c = 1 (v1 = v2 = 2 > v3 = 2)
            for a, b in [(1.0, 1.0)]:
                P.append([1.0] * size)
        return P, "tie"
    if fid == "chained_lq" and size >= 2:
        for p in ([1.0, 0.0], [0.0, 1.0], [-1.0, 0.0], [0.0, -1.0], [0.6, 0.8]):
            P.append(p + box(rng, size - 2, 1.0))
        return P, "tie"
    if fid == "maxq" and size >= 2:
        for _ in range(3):
            x = box(rng, size, 1.0)
            i, j = rng.below(size), rng.below(size)
            m = 1.5
            x[i] = m
            x[j] = m if rng.chance(0.5) else -m
            if rng.chance(0.5):
                x[i] = -x[i]
            P.append(x)
        P.append([0.0] * size)
        return P, "tie"
    if fid in ("maxhilb", "maxquad"):
        P.append([0.0] * size)
        return P, "tie"
    if fid == "kinks":
        K = kinks.get(str(size))
        if K:
            for _ in range(3):
                x = box(rng, size, 1.0)
                for j in range(size):
                    if rng.chance(0.6):
                        x[j] = K[rng.below(len(K))][j]
                P.append(x)
        return P, "kink"
    if "+lasso" in fid or "+elasticnet" in fid:
        for _ in range(2):
            x = box(rng, size, 1.0)
            for j in range(size):
                if rng.chance(0.5):
                    x[j] = 0.0
            P.append(x)
        P.append([0.0] * size)
        return P, "kink"
    return P, None


def gen_functions(rng, tier):
    d = dump()
    ops = []
    by_id = {}
    for r in d["fns"]:
        by_id.setdefault(r["id"], {})[r["dims"]] = r["size"]
    quick = tier == "quick"
    for fid in by_id:
        if quick:
            dims_list = [1, 2] + sorted({rng.range(3, 32) for _ in range(6)})
        else:
            dims_list = list(range(1, 33))
        for dims in dims_list:
            summands = rng.choice([1, 7, 30])
            size = d["sizes"][fid][dims - 1]   # what size() reports (the size RULE is checked by the `fn flags` ops below)
            spec = ("fn", f"{fid} {dims} {summands}")
            P, tag = special_points(rng, fid, size, d["kinks"])
            ops += generic_ops(rng, spec, size, n_cd=3 if quick else 6, n_cvx=5 if quick else 10,
                               climb_steps=(40 if quick else 300), x0s=P, tag=tag)
    # size() and the declared flags of make(dims, summands) for EVERY requested dims 1..32 (both tiers)
    for fid in by_id:
        for dims in range(1, MAX_DIMS + 1):
            ops.append(f"fn flags {fid} {dims} {rng.choice([1, 3, 10])}")
    return ops


# -- losses -----------------------------------------------------------------------------------------------

def class_patterns(rng, n, single):
    pats = []
    if n <= 3:
        for m in range(1 << n):
            pats.append([1.0 if (m >> i) & 1 else -1.0 for i in range(n)])
    else:
        for k in range(n):
            pats.append([1.0 if i == k else -1.0 for i in range(n)])
        pats.append([-1.0] * n)
        pats.append([1.0] * n)
        for _ in range(2):
            pats.append([rng.choice([-1.0, 1.0]) for _ in range(n)])
    return pats


def positives_patterns(rng, n):
    """one target with exactly j positive labels for every j in 0..min(3, n), at random positions"""
    out = []
    for j in range(0, min(3, n) + 1):
        pos = set(rng.shuffle(list(range(n)))[:j])
        out.append((j, [1.0 if i in pos else -1.0 for i in range(n)]))
    return out


def loss_outputs(rng, n, t, lid):
    outs = [box(rng, n, 30.0), box(rng, n, 1.0), [0.0] * n,
            [rng.choice([-30.0, 30.0]) for _ in range(n)],
            list(t)]                                                   # decision boundary: t*o = 1, o = t
    o = box(rng, n, 5.0)
    if n >= 2:                                                         # arg-max tie
        i, j = rng.below(n), rng.below(n)
        o[i] = o[j] = max(o) + (0.0 if rng.chance(0.5) else 1.0)
        outs.append(o)
    o = box(rng, n, 2.0)
    for i in range(n):                                                 # on / next to the boundary, sign flips, zeros
        c = rng.below(5)
        if c == 0:
            o[i] = t[i]
        elif c == 1:
            o[i] = 0.0
        elif c == 2:
            o[i] = math.nextafter(t[i], 100.0)
        elif c == 3:
            o[i] = -t[i]
    outs.append(o)
    if "logistic" in lid:
        outs.append([-ti * rng.choice([1.0, math.nextafter(1.0, 0.0), math.nextafter(1.0, 2.0), 0.999, 1.001]) for ti in t])
    return outs


def gen_losses(rng, tier):
    d = dump()
    ops = []
    quick = tier == "quick"
    for L in d["losses"]:
        lid = L["id"]
        is_class = lid.startswith("s-") or lid.startswith("m-")
        for n in range(1, 14):
            alpha = rng.choice([0.0, 0.1, 0.25, 0.5, 0.9, 1.0]) if lid == "pinball" else 0.5
            if is_class:
                pats = class_patterns(rng, n, lid.startswith("s-"))
            else:
                pats = [box(rng, n, 30.0), box(rng, n, 1.0), [0.0] * n]
            if quick and len(pats) > 6:
                keep = rng.shuffle(pats)[:3]
                onehot0 = [1.0 if i == 0 else -1.0 for i in range(n)]
                pats = keep + ([onehot0] if is_class else [])
            if is_class:
                # targets that are NOT one-hot: 0, 1, 2, 3 positive labels for every s-* and m-* loss at every n — value and
                # gradient (model vs implementation, difference quotient), error (arg-max / sign rule), convexity
                for j, t in positives_patterns(rng, n):
                    if t not in pats:
                        pats.append(t)
                    o = box(rng, n, 3.0)
                    spec = f"{lid} {f2h(alpha)} {fl(t)}"
                    ops.append(f"loss cd {spec} {pts(stencil(o, direction(rng, n), step_for(o)))} #pos{j}")
                    z = [[a + rng.uniform(-2.0, 2.0) for a in o] for _ in range(2)]
                    ops.append(f"loss cvx {spec} {pts([o] + z)} #pos{j}")
            generic_budget = (n in (1, 2, 3, 13)) or not quick or rng.chance(0.25)
            for t in pats:
                outs = loss_outputs(rng, n, t, lid)
                for o in outs:
                    ops.append(f"loss sample {lid} {f2h(alpha)} {fl(t)} {fl(o)}")
                if generic_budget:
                    spec = ("loss", f"{lid} {f2h(alpha)} {fl(t)}")
                    special = [list(t)] if lid in ("mae", "pinball", "m-hinge", "s-hinge") else []
                    ops += generic_ops(rng, spec, n, n_cd=2, n_cvx=2, climb_steps=(30 if quick else 200), x0s=special,
                                       tag="kink" if special else None, radii=[1e-3, 0.1, 1.0, 10.0, 30.0])
            # batch vs one sample at a time
            m = rng.range(2, 6)
            T, O = [], []
            for _ in range(m):
                t = rng.choice(pats)
                T += t
                O += rng.choice(loss_outputs(rng, n, t, lid))
            ops.append(f"loss batch {lid} {f2h(alpha)} {n} {m} {fl(T)} {fl(O)}")
        # the 4-D tensor interface: samples of shape (d1, d2, d3), batch sizes that divide nothing (1, 2, 3, 5, 7, 11 samples
        # of 1..27 scalars: every alignment of a sample inside the batch buffer)
        for _ in range(3 if quick else 12):
            d1, d2, d3 = rng.range(1, 3), rng.range(1, 3), rng.range(1, 3)
            n = d1 * d2 * d3
            m = rng.choice([1, 2, 3, 5, 7, 11])
            alpha = rng.choice([0.0, 0.25, 0.5, 1.0]) if lid == "pinball" else 0.5
            T, O = [], []
            for _ in range(m):
                if is_class:
                    t = rng.choice(positives_patterns(rng, n))[1]
                else:
                    t = box(rng, n, 3.0)
                T += t
                O += rng.choice(loss_outputs(rng, n, t, lid))
            ops.append(f"loss batch4 {lid} {f2h(alpha)} {d1} {d2} {d3} {m} {fl(T)} {fl(O)}")
    return ops


# -- constraints ------------------------------------------------------------------------------------------

def sym_matrix(rng, n, psd):
    B = [[rng.uniform(-1.0, 1.0) for _ in range(n)] for _ in range(n)]
    if psd:
        return [[sum(B[i][k] * B[j][k] for k in range(n)) for j in range(n)] for i in range(n)]
    return [[0.5 * (B[i][j] + B[j][i]) for j in range(n)] for i in range(n)]


def ct_spec(rng, kind, n, fn_ids):
    if kind in ("constant", "minimum", "maximum"):
        return f"{kind} {n} {f2h(rng.uniform(-2.0, 2.0))} {rng.below(n)}", n
    if kind.startswith("ball"):
        return f"{kind} {fl(box(rng, n, 2.0))} {f2h(rng.uniform(0.1, 3.0))}", n
    if kind.startswith("linear"):
        return f"{kind} {fl(box(rng, n, 2.0))} {f2h(rng.uniform(-2.0, 2.0))}", n
    if kind.startswith("quadratic"):
        P = sym_matrix(rng, n, psd=rng.chance(0.7))
        return f"{kind} {fl([v for row in P for v in row])} {fl(box(rng, n, 2.0))} {f2h(rng.uniform(-2.0, 2.0))}", n
    fid = rng.choice(fn_ids)
    size = max(n, 2) if (fid == "rosenbrock" or "+" in fid) else (max(4, n - n % 4) if fid == "powell" else n)
    return f"{kind} {fid} {n} {rng.choice([1, 7])}", size


def gen_constraints(rng, tier):
    d = dump()
    fn_ids = sorted({r["id"] for r in d["fns"]})
    ops = []
    reps = 4 if tier == "quick" else 20
    for kind in CT_KINDS:
        for n in ([1, 2, 3, 5, 8] if tier == "quick" else range(1, 13)):
            for _ in range(reps):
                spec, size = ct_spec(rng, kind, n, fn_ids)
                ops += generic_ops(rng, ("ct", spec), size, n_cd=2, n_cvx=2, climb_steps=(20 if tier == "quick" else 100))
    # DESIGN §6 item 7: the claim is generated with symmetric P above; a non-symmetric P is accepted by compatible() as
    # well, so a few are generated too (tagged; any failure on them is keyed quadratic-constraint:nonsymmetric-P)
    for kind in ("quadratic-eq", "quadratic-ineq"):
        for n in (2, 3):
            for _ in range(2 if tier == "quick" else 10):
                P = [[rng.range(-4, 4) * 0.5 if i != j else rng.range(1, 4) * 1.0 for j in range(n)] for i in range(n)]
                if all(P[i][j] == P[j][i] for i in range(n) for j in range(n)):
                    P[0][1] += 1.0
                spec = f"{kind} {fl([v for row in P for v in row])} {fl(box(rng, n, 1.0))} {f2h(0.5)}"
                ops += generic_ops(rng, ("ct", spec), n, n_cd=2, n_cvx=2, climb_steps=20, tag="nonsym")
        # upper-triangular P with a positive diagonal: the eigenvalues of P itself are its diagonal (all > 0), the symmetric
        # part is indefinite as soon as one off-diagonal entry exceeds 2 sqrt(p_ii p_jj) — flags computed from P instead of
        # (P + P')/2 declare such a constraint convex (and strongly convex)
        for n in (2, 3, 4):
            for _ in range(2 if tier == "quick" else 8):
                P = [[(rng.range(1, 3) * 1.0 if i == j else (rng.range(-3, 3) * 0.5 if j > i else 0.0)) for j in range(n)]
                     for i in range(n)]
                i, j = 0, rng.range(1, n - 1)
                big = rng.chance(0.7)
                P[i][j] = (2.0 * math.sqrt(P[i][i] * P[j][j]) + rng.range(1, 4)) * rng.choice([-1.0, 1.0]) if big else 0.5
                spec = f"{kind} {fl([v for row in P for v in row])} {fl(box(rng, n, 1.0))} {f2h(-0.25)}"
                ops += generic_ops(rng, ("ct", spec), n, n_cd=1, n_cvx=2, climb_steps=20, tag="nonsym")
    return ops


# -- function_t base class: histories of constrain / valid / vgrad / clear_statistics ---------------------------------

FBASE_IDS = ["sphere", "trid", "rosenbrock", "powell", "chained_lq", "qing", "maxq", "zakharov"]


def dy(rng, r=3):
    """a dyadic value in [-r, r] (multiples of 1/4: sums and products of a few of them are exact)"""
    return rng.range(-4 * r, 4 * r) * 0.25


def fbase_constraint(rng, size, fid, dims, sizes):
    """(text, compatible?) of one `cg` op; a third of them deliberately incompatible"""
    bad = rng.chance(0.33)
    kind = rng.choice(["constant", "minimum", "maximum", "ball-eq", "ball-ineq", "linear-eq", "linear-ineq", "quadratic-eq",
                       "quadratic-ineq", "functional-eq", "functional-ineq"])
    if kind in ("constant", "minimum", "maximum"):
        dim = rng.choice([size, size + 1, size + 7]) if bad else rng.below(size)
        return f"{kind} {f2h(dy(rng))} {dim}"
    if kind.startswith("ball"):
        n = size + rng.choice([-1, 1, 2]) if (bad and rng.chance(0.5)) else size
        n = max(n, 0)
        radius = rng.choice([0.0, -1.0]) if (bad and n == size) else rng.range(1, 12) * 0.25
        return f"{kind} {fl([dy(rng, 1) for _ in range(n)])} {f2h(radius)}"
    if kind.startswith("linear"):
        n = max(size + rng.choice([-1, 1, 3]), 0) if bad else size
        return f"{kind} {fl([dy(rng, 1) for _ in range(n)])} {f2h(dy(rng))}"
    if kind.startswith("quadratic"):
        rows = cols = qn = size
        if bad:
            w = rng.below(3)
            if w == 0:
                rows = size + 1
            elif w == 1:
                cols = max(size - 1, 0) if size > 1 else size + 1
            else:
                qn = size + 1
        return (f"{kind} {rows} {cols} {fl([dy(rng, 1) for _ in range(rows * cols)])} {fl([dy(rng, 1) for _ in range(qn)])} "
                f"{f2h(dy(rng))}")
    # functional: the wrapped function must have the same size
    if bad:
        cands = [(i, dd) for i in FBASE_IDS for dd in range(1, 10) if sizes[i][dd - 1] != size]
    else:
        cands = [(i, dd) for i in FBASE_IDS for dd in range(1, 10) if sizes[i][dd - 1] == size]
    i, dd = rng.choice(cands)
    return f"{kind} {i} {dd}"


def gen_fbase(rng, tier):
    d = dump()
    sizes = d["sizes"]
    ops = []
    for _ in range(150 if tier == "quick" else 1500):
        fid = rng.choice(FBASE_IDS)
        dims = rng.range(1, 9)
        size = sizes[fid][dims - 1]
        hist = []
        for _ in range(rng.range(2, 12)):
            c = rng.below(12)
            pt = lambda: fl([dy(rng, 2) for _ in range(size)])
            if c <= 2:
                hist.append("cg " + fbase_constraint(rng, size, fid, dims, sizes))
            elif c == 3:
                lo = dy(rng)
                hi = rng.choice([lo, lo + 0.25, lo + 2.0, lo - 0.5])
                hist.append(f"cb {f2h(lo)} {f2h(hi)}")
            elif c == 4:
                lo = dy(rng)
                hi = rng.choice([lo, lo + 0.25, lo + 2.0, lo + 2.0, lo - 0.5])
                hist.append(f"cd {f2h(lo)} {f2h(hi)} {rng.choice([-1, 0, size - 1, size - 1, rng.below(size), size, size + 3])}")
            elif c == 5:
                n1 = rng.choice([size, size, size, size + 1, max(size - 1, 1)])
                n2 = rng.choice([size, size, size, size + 1])
                lo = [dy(rng) for _ in range(n1)]
                hi = [(lo[i] if i < n1 else 0.0) + rng.choice([0.25, 1.0, 2.0]) for i in range(n2)]
                if rng.chance(0.25):
                    k = rng.below(n2)
                    hi[k] = (lo[k] if k < n1 else 0.0) + rng.choice([0.0, -0.25])
                hist.append(f"cv {fl(lo)} {fl(hi)}")
            elif c <= 7:
                hist.append("v " + pt())
            elif c <= 9:
                hist.append(rng.choice(["e0 ", "e1 "]) + pt())
            elif c == 10:
                hist.append("clr")
            else:
                hist.append("v " + fl([0.0] * size))
        ops.append(f"fbase hist {fid} {dims} {rng.choice([1, 5])} {len(hist)} " + " ".join(hist))
    return ops


# -- ML objectives ----------------------------------------------------------------------------------------

def data_spec(rng, S, I, ttype, K):
    inputs = box(rng, S * I, 1.0)
    if ttype == "R":
        targets = fl(box(rng, S * K, 2.0))
    elif ttype == "S":
        targets = lst([rng.below(K) for _ in range(S)])
    else:
        targets = lst([rng.below(2) for _ in range(S * K)])
    return f"{S} {I} {ttype} {K} {fl(inputs)} {targets}"


def loss_for(rng, d, ttype):
    ids = [L["id"] for L in d["losses"]]
    if ttype == "R":
        return rng.choice(REG_LOSSES)
    if ttype == "S":
        return rng.choice([i for i in ids if i.startswith("s-")])
    return rng.choice([i for i in ids if i.startswith("m-")])


def gen_objectives(rng, tier):
    d = dump()
    ops = []
    reps = 12 if tier == "quick" else 80
    cs = 20 if tier == "quick" else 150
    for _ in range(reps):
        ttype = rng.choice(["R", "S", "M"])
        K = rng.range(1, 3) if ttype != "S" else rng.range(2, 4)
        if ttype != "S" and rng.chance(0.5):
            K = rng.range(2, 3)  # keep multi-output cases frequent
        S, I = rng.range(3, 14), rng.range(1, 4)
        lid = loss_for(rng, d, ttype)
        alpha = rng.choice([0.1, 0.5, 0.8])
        head = f"{lid} {f2h(alpha)} {rng.range(1, 5)} {rng.range(1, 2)} {data_spec(rng, S, I, ttype, K)}"
        # linear model: x = [W (K x I) | b (K)]
        l1 = rng.choice([0.0, 0.0, 0.5, 10.0])
        l2 = rng.choice([0.0, 1.0, 100.0, 1e3])
        size = (I + 1) * K
        spec = ("lin", f"{head} {f2h(l1)} {f2h(l2)}")
        ops += generic_ops(rng, spec, size, n_cd=2, n_cvx=2, climb_steps=cs)
        # the same with directions that move only the weights / only the bias (the declared mu covers the weights only)
        x = box(rng, size, 1.0)
        zw = [a + (rng.uniform(-1.0, 1.0) if i < I * K else 0.0) for i, a in enumerate(x)]
        zb = [a + (rng.uniform(-1.0, 1.0) if i >= I * K else 0.0) for i, a in enumerate(x)]
        ops.append(f"lin cvx {spec[1]} {pts([x, zw])} #weights-only")
        ops.append(f"lin cvx {spec[1]} {pts([x, zb])} #bias-only")
        if l1 > 0.0:
            x0 = [0.0 if (i < I * K and rng.chance(0.5)) else a for i, a in enumerate(x)]
            ops += generic_ops(rng, spec, size, 0, 0, 0, x0s=[x0], tag="kink")
        # the iterator over a SUBSET of the samples (not the whole dataset), multi-output: value and gradient must be normalised
        # by the same count (the iterator's), and the L2 term by the number of weights I*K
        sub = rng.shuffle(list(range(S)))[:rng.range(1, max(1, S - 1))]
        sspec = ("linsub", f"{head} {lst(sub)} {f2h(l1)} {f2h(l2)}")
        ops += generic_ops(rng, sspec, size, n_cd=2, n_cvx=1, climb_steps=0, tag="subset")
        ops += generic_ops(rng, ("gbiassub", f"{head} {lst(sub)}"), K, n_cd=1, n_cvx=1, climb_steps=0, tag="subset")
        ops += generic_ops(rng, ("gbias", head), K, n_cd=2, n_cvx=2, climb_steps=cs)
        ops += generic_ops(rng, ("ggrads", head), S * K, n_cd=2, n_cvx=2, climb_steps=cs)
        G = rng.range(1, 3)
        groups = [rng.range(-1, G - 1) for _ in range(S)]
        gs = f"{head} {G} {lst(groups)} {fl(box(rng, S * K, 2.0))} {fl(box(rng, S * K, 2.0))}"
        ops += generic_ops(rng, ("gscale", gs), G, n_cd=2, n_cvx=2, climb_steps=cs)
    for _ in range(reps):
        S, P = rng.range(2, 12), rng.range(1, 3)
        lid = rng.choice(REG_LOSSES)
        spec = ("sfit", f"{lid} {f2h(rng.choice([0.2, 0.5]))} {S} {P} {fl(box(rng, S * P, 2.0))} {fl(box(rng, S, 3.0))}")
        ops += generic_ops(rng, spec, (P + 1) * (P + 2) // 2, n_cd=2, n_cvx=2, climb_steps=cs)
        n = rng.range(1, 4)
        spec = ("squad", fl(box(rng, (n + 1) * (n + 2) // 2, 2.0)))
        ops += generic_ops(rng, spec, n, n_cd=2, n_cvx=1, climb_steps=0)
    return ops


def gen(rng, tier):
    ops = []
    cp = os.path.join(vlib.VERIF, "corpus", "C06", "ops.txt")
    if os.path.exists(cp):
        ops += [l.strip() for l in open(cp) if l.strip() and not l.startswith("#")]
    ops += gen_functions(rng.fork(), tier)
    ops += gen_losses(rng.fork(), tier)
    ops += gen_constraints(rng.fork(), tier)
    ops += gen_objectives(rng.fork(), tier)
    ops += gen_fbase(rng.fork(), tier)
    return ops


# ---------------------------------------------------------------------------------------------------------
# op parsing shared by oracle / classify / model_skip

def split_tag(op):
    t = op.split()
    if t and t[-1].startswith("#"):
        return t[:-1], t[-1][1:]
    return t, None


def obj_id(t):
    fam = t[0]
    if fam in ("fn", "loss", "ct"):
        if fam == "ct" and t[2].startswith("functional"):
            return f"ct:{t[2]}({t[3]})"
        return f"{fam}:{t[2]}"
    return f"{fam}:{t[2]}" if len(t) > 2 else fam


def modelled_fn(fid):
    return fid in MODELLED_FN or "+" in fid  # the elastic-net prototypes <loss>+<ridge|lasso|elasticnet>[..]


def model_skip(aug):
    t, _ = split_tag(aug)
    if len(t) < 3:
        return True
    fam, op = t[0], t[1]
    if fam == "loss":
        return op not in ("sample", "eval", "batch", "batch4")
    if fam == "fbase":
        return op != "hist"
    if fam == "fn" and op == "flags":
        return False
    if op != "eval":
        return True
    if fam == "fn":
        return not modelled_fn(t[2])
    if fam == "ct":
        if t[2].startswith("functional"):
            return not modelled_fn(t[3])
        return t[2] not in MODELLED_CT
    return True


def compare(aug, impl, model):
    """relative 1e-9 per number, or absolute 1e-13 x the largest magnitude on the line (cancelling entries such as the
    softmax gradient minus one next to entries of size 1)"""
    t, _ = split_tag(aug)
    a = impl.split()
    if t[0] == "loss" and t[1] == "sample" and len(a) > 2:
        a = a[:-2]  # the declared flags are not part of the model's answer
    if t[0] == "fn" and t[1] == "flags":
        a = a[:2]   # `ok size`: the size rule is the model's, the declared flags are the implementation's (Gen/Flags.lean)
    b = model.split()
    if len(a) != len(b):
        return False
    vals = [abs(h2f(x)) for x in a if vlib.is_hexf(x) and len(x) == 16]
    vals = [v for v in vals if v == v and v != math.inf]
    atol = 1e-13 * max(vals + [0.0])
    if t[0] == "loss" and t[2] == "s-classnll":
        atol = max(atol, 1e-13)  # soft-max probability (of size 1) minus one at the positive target
    for x, y in zip(a, b):
        if x == y:
            continue
        if vlib.is_hexf(x) and vlib.is_hexf(y):
            if not vlib.close(h2f(x), h2f(y), RTOL, atol):
                return False
        else:
            return False
    return True


# ---------------------------------------------------------------------------------------------------------
# oracle: the property statement evaluated on the implementation's answers

def dotp(a, b):
    return math.fsum(x * y for x, y in zip(a, b))


def sub(a, b):
    return [x - y for x, y in zip(a, b)]


def read_object(t):
    """skips the object spec; returns (family, id, size or None, info)"""
    fam = t.s()
    op = t.s()
    info = {}
    if fam == "fn":
        fid = t.s(); t.int(); t.int()
        return fam, op, fid, info
    if fam == "loss":
        lid = t.s(); info["alpha"] = t.f(); info["target"] = t.fs()
        return fam, op, lid, info
    if fam == "ct":
        kind = t.s()
        if kind in ("constant", "minimum", "maximum"):
            t.int(); t.f(); t.int()
        elif kind.startswith("ball") or kind.startswith("linear"):
            t.fs(); t.f()
        elif kind.startswith("quadratic"):
            info["P"] = t.fs(); t.fs(); t.f()
        else:
            kind = f"{kind}({t.s()})"; t.int(); t.int()
        return fam, op, kind, info
    if fam in ("lin", "gbias", "ggrads", "gscale", "linsub", "gbiassub"):
        lid = t.s(); t.f(); t.int(); info["threads"] = t.int()
        S, I = t.int(), t.int(); tt = t.s(); K = t.int()
        t.fs()
        if tt == "R":
            t.fs()
        else:
            t.ints()
        info.update(S=S, I=I, K=K, ttype=tt)
        if fam in ("linsub", "gbiassub"):
            info["subset"] = t.ints()
        if fam in ("lin", "linsub"):
            info["l1"] = t.f(); info["l2"] = t.f()
        if fam == "gscale":
            t.int(); t.ints(); t.fs(); t.fs()
        return fam, op, lid, info
    if fam == "sfit":
        lid = t.s(); t.f(); t.int(); t.int(); t.fs(); t.fs()
        return fam, op, lid, info
    if fam == "squad":
        t.fs()
        return fam, op, "quadratic-surrogate", info
    raise ValueError("family " + fam)


def same_value(info, f0, f1):
    """value-only vs value+gradient call: identical bits, except that the ML objectives evaluated by more than one worker thread
    add the per-thread partial sums in scheduling order (relative 1e-12 there)"""
    if f2h(f0) == f2h(f1):
        return True
    return info.get("threads", 1) > 1 and vlib.close(f0, f1, 1e-12, 0.0)


def finite(*vs):
    return all(v == v and abs(v) != math.inf for v in vs)


def check_convex(name, fam, info, mu, x, fx, gx, z, fz):
    """f(z) >= f(x) + g.(z-x) + mu/2 |z-x|^2 up to rounding; returns None or '[key] why'"""
    dz = sub(z, x)
    gd = dotp(gx, dz)
    q = 0.5 * mu * dotp(dz, dz)
    scale = abs(fx) + abs(fz) + math.fsum(abs(a * b) for a, b in zip(gx, dz)) + q
    # + rounding of the evaluation itself: values are formed from intermediates of the size of the coordinates (e.g.
    # s-classnll adds and subtracts the largest output), so an absolute error of a few ulps of max|x_i|, |z_i| is noise
    tol = 1e-9 * scale + 64.0 * EPS * max([1.0] + [abs(v) for v in x] + [abs(v) for v in z])
    if not finite(fx, fz, gd):
        return f"[{name}:non-finite] non-finite value or gradient: f(x)={fx} f(z)={fz} g.(z-x)={gd}"
    viol = fx + gd + q - fz
    if viol <= tol:
        return None
    plain = fx + gd - fz
    if mu > 0.0 and plain <= tol:
        key = f"{name}:strong-convexity"
        if fam in ("lin", "linsub"):
            nW = info["I"] * info["K"]
            bias_moves = any(v != 0.0 for v in dz[nW:])
            key = "linear-function:strong-convexity:bias-direction" if bias_moves else "linear-function:strong-convexity:weights-only"
        return (f"[{key}] declared mu={mu:g}: f(z)={fz!r} < f(x)+g.(z-x)+mu/2|z-x|^2={fx + gd + q!r} (violation {viol:.3e} > tol "
                f"{tol:.1e}) although f(z) >= f(x)+g.(z-x) holds")
    key = f"{name}:convexity"
    if name in ("fn:chained_cb3I", "fn:chained_cb3II") and cb3_on_tie(name, x):
        key = "chained_cb3-tie-subgradient"
    return (f"[{key}] declared convex but f(z)={fz!r} < f(x)+g.(z-x)={fx + gd!r} (violation {plain:.3e} > tol {tol:.1e}; "
            f"|z-x|={math.sqrt(dotp(dz, dz)):.3g})")


def cb3_on_tie(name, x):
    if name.endswith("II"):
        s1 = s2 = s3 = 0.0
        for a, b in zip(x, x[1:]):
            v1, v2, v3 = cb3_values(a, b)
            s1 += v1; s2 += v2; s3 += v3
        return abs(s1 - s2) <= 1e-12 * (abs(s1) + 1.0) and s1 >= s3
    for a, b in zip(x, x[1:]):
        v1, v2, v3 = cb3_values(a, b)
        if abs(v1 - v2) <= 1e-12 * (abs(v1) + 1.0) and v1 >= v3:
            return True
    return False


def check_cd(name, smooth, P, f, g):
    """difference quotients at two step sizes against g.(dx); P = the five stencil points, f = their values"""
    if not finite(*f) or not finite(*g):
        return f"[{name}:non-finite] non-finite value or gradient on the stencil"
    D1 = f[1] - f[2]
    D2 = f[3] - f[4]
    gd2 = dotp(g, sub(P[3], P[4]))
    F = max(abs(v) for v in f)
    noise = 2e-11 * F + 1e-300
    tol = 1e-6 * abs(gd2) + 2.0 * abs(D1 - 2.0 * D2) + noise
    if abs(D2 - gd2) <= tol:
        return None
    if not smooth:
        a = f[3] - f[0]
        b = f[0] - f[4]
        c1 = dotp(g, sub(P[3], P[0]))
        c2 = dotp(g, sub(P[0], P[4]))
        lo, hi = min(a, b), max(a, b)
        t2 = 1e-6 * max(abs(c1), abs(c2)) + noise + 2.0 * abs(D1 - 2.0 * D2)
        if lo - t2 <= c1 <= hi + t2 and lo - t2 <= c2 <= hi + t2:
            return None
        key = f"{name}:difference-quotient:kink"
        if name in ("fn:chained_cb3I", "fn:chained_cb3II") and cb3_on_tie(name, P[0]):
            key = "chained_cb3-tie-subgradient"
        return (f"[{key}] g.dx={c1!r} is not between the one-sided differences {a!r}, {b!r} "
                f"(central {D2!r} vs {gd2!r}, tol {tol:.2e})")
    return f"[{name}:difference-quotient] central difference {D2!r} != g.dx {gd2!r} (|diff| {abs(D2 - gd2):.3e} > tol {tol:.2e})"


def sign_rule_errors(t, o, eps_zone=1e-9):
    """(min, max) number of sign disagreements; an output inside (-eps_zone, eps_zone) but not 0 may count either way"""
    lo = hi = 0
    for ti, oi in zip(t, o):
        if oi == 0.0:
            lo += 1; hi += 1
        elif abs(oi) < eps_zone:
            hi += 1
        elif (ti > 0) != (oi > 0):
            lo += 1; hi += 1
    return lo, hi


def oracle_sample(t):
    lid = t.s(); alpha = t.f(); T = t.fs(); O = t.fs()
    return lid, alpha, T, O


def nonsymmetric_P(op):
    t, _ = split_tag(op)
    if len(t) < 4 or t[0] != "ct" or not t[2].startswith("quadratic"):
        return False
    n2 = int(t[3])
    n = int(round(math.sqrt(n2)))
    P = [h2f(v) for v in t[4:4 + n2]]
    return any(P[i * n + j] != P[j * n + i] for i in range(n) for j in range(n))


def unwritten(name, g):
    """a gradient component still equal to the harness' pre-fill was never written by the library"""
    for i, v in enumerate(g):
        if f2h(v) == SENTINEL:
            return f"[{name}:gradient-unwritten] component {i} of the returned gradient was never written (still the sentinel)"
    return None


def expected_size(fid, dims):
    """size() of make(dims, summands) as the constructors document it: powell works on groups of four coordinates,
    rosenbrock and the synthetic linear models need two coordinates, everything else has the requested dimension"""
    if fid == "powell":
        return max(4, dims - dims % 4)
    if fid == "rosenbrock" or "+" in fid:
        return max(dims, 2)
    return dims


def jacobi_eigenvalues(A):
    """eigenvalues of a symmetric matrix (cyclic Jacobi), independent of Eigen"""
    n = len(A)
    A = [row[:] for row in A]
    for _ in range(60):
        off = math.sqrt(sum(A[i][j] ** 2 for i in range(n) for j in range(n) if i != j))
        if off <= 1e-15 * (1e-300 + math.sqrt(sum(A[i][i] ** 2 for i in range(n)))):
            break
        for p_ in range(n):
            for q_ in range(p_ + 1, n):
                if A[p_][q_] == 0.0:
                    continue
                th = (A[q_][q_] - A[p_][p_]) / (2.0 * A[p_][q_])
                tt = (1.0 if th >= 0 else -1.0) / (abs(th) + math.sqrt(th * th + 1.0))
                c = 1.0 / math.sqrt(tt * tt + 1.0)
                sn = tt * c
                for k in range(n):
                    akp, akq = A[k][p_], A[k][q_]
                    A[k][p_], A[k][q_] = c * akp - sn * akq, sn * akp + c * akq
                for k in range(n):
                    apk, aqk = A[p_][k], A[q_][k]
                    A[p_][k], A[q_][k] = c * apk - sn * aqk, sn * apk + c * aqk
    return sorted(A[i][i] for i in range(n))


def symmetric_part(flat):
    n = int(round(math.sqrt(len(flat))))
    return [[0.5 * (flat[i * n + j] + flat[j * n + i]) for j in range(n)] for i in range(n)]


def check_quadratic_flags(name, Pflat, convex, mu):
    """run-time monitor of the contract of nano::convex / nano::strong_convexity (Eigen's eigenvalues) for the quadratic
    constraint kinds: `convex` iff the SYMMETRIC part of P is positive semi-definite, mu = max(0, its smallest eigenvalue) —
    decided only when the smallest eigenvalue is away from 0 by more than the tolerance"""
    ev = jacobi_eigenvalues(symmetric_part(Pflat))
    scale = max(1.0, max(abs(v) for v in ev))
    lo = ev[0]
    if lo > 1e-9 * scale and not convex:
        return f"[{name}:flags-vs-symmetric-part] (P+P')/2 is positive definite (smallest eigenvalue {lo!r}) but the constraint is not declared convex"
    if lo < -1e-9 * scale and convex:
        return f"[{name}:flags-vs-symmetric-part] (P+P')/2 has the eigenvalue {lo!r} < 0 but the constraint is declared convex"
    if abs(mu - max(0.0, lo)) > 1e-9 * scale:
        return f"[{name}:flags-vs-symmetric-part] declared strong convexity {mu!r} but the smallest eigenvalue of (P+P')/2 is {lo!r}"
    return None


def oracle_flags(toks, aug_rest, r):
    """fn flags <id> <dims> <summands>: the size rule for every requested dims, and the declared coefficient against what is
    known about the prototype (an upper bound of the true modulus; the search tests the inequality itself)"""
    fid, dims = toks[2], int(toks[3])
    name = "fn:" + fid
    size = r.int(); convex = r.int(); r.int(); mu = r.f()
    if size != expected_size(fid, dims):
        return f"[{name}:size-rule] make({dims}, .)->size() = {size}, expected {expected_size(fid, dims)}"
    if not (mu >= 0.0) or not finite(mu):
        return f"[{name}:strong-convexity-value] declared coefficient {mu!r}"
    upper = None
    if fid in ("sphere", "axis-ellipsoid"):
        upper = 2.0                              # Hessian 2 I / 2 diag(1..n)
    elif fid == "exponential":
        upper = 2.0 * math.e / size              # Hessian at 0: (2 e / n) I
    elif fid in ("kinks", "maxhilb", "schumer-steiglitz", "chung-reynolds", "maxq", "chained_lq", "geometric-optimization"):
        upper = 0.0                              # piecewise linear / flat Hessian somewhere / infimum of the curvature 0
    elif fid == "quadratic":
        a = aug_rest.fs(); A = aug_rest.fs()
        n = len(a)
        M = [A[i * n:(i + 1) * n] for i in range(n)]
        if any(abs(M[i][j] - M[j][i]) > 1e-12 * (1.0 + abs(M[i][j])) for i in range(n) for j in range(n)):
            return f"[{name}:not-symmetric] the matrix of the quadratic is not symmetric (the returned a + A x is then not the gradient)"
        ev = jacobi_eigenvalues(M)
        if ev[0] < -1e-9 * max(1.0, ev[-1]) and convex:
            return f"[{name}:convexity] declared convex but its matrix has the eigenvalue {ev[0]!r}"
        upper = max(0.0, ev[0]) * (1.0 + 1e-9) + 1e-12
    elif fid == "maxquad":
        # hypothesis of maxquad_subgrad (every A_k self-adjoint, positive semi-definite), established by the constructor through
        # symmetric fill + diagonal dominance with a non-negative diagonal (Gershgorin): monitored on the recomputed matrices
        K = aug_rest.int(); n = aug_rest.int(); A = aug_rest.fs()
        for k in range(K):
            M = [A[k * n * n + i * n:k * n * n + (i + 1) * n] for i in range(n)]
            for i in range(n):
                off = math.fsum(abs(M[i][j]) for j in range(n) if j != i)
                if any(M[i][j] != M[j][i] for j in range(n)) or M[i][i] < off * (1.0 - 1e-12):
                    return f"[{name}:matrices-not-dominant] A_{k} is not symmetric / diagonally dominant in row {i}"
    if upper is not None and mu > upper * (1.0 + 1e-12):
        return f"[{name}:strong-convexity-value] declared coefficient {mu!r} exceeds the modulus {upper!r} of the function"
    return None


# ---- fbase: an independent replay of the bookkeeping of function_t (python) -----------------------------------------

def fbase_violation(c, x):
    """how much x violates the constraint (None when the python side does not evaluate it: functional kinds other than sphere)"""
    k = c[0]
    if k in ("constant", "minimum", "maximum"):
        v, dim = c[1], c[2]
        return abs(v - x[dim]) if k == "constant" else (max(v - x[dim], 0.0) if k == "minimum" else max(x[dim] - v, 0.0))
    if k.startswith("ball"):
        o, rad = c[1], c[2]
        v = sum((a - b) * (a - b) for a, b in zip(x, o)) - rad * rad
    elif k.startswith("linear"):
        v = sum(a * b for a, b in zip(c[1], x)) + c[2]
    elif k.startswith("quadratic"):
        P, q, rr, n = c[1], c[2], c[3], len(x)
        v = 0.5 * sum(x[i] * sum(P[i * n + j] * x[j] for j in range(n)) for i in range(n)) + sum(a * b for a, b in zip(q, x)) + rr
    elif k.startswith("functional") and c[1] == "sphere":
        v = sum(a * a for a in x)
    else:
        return None
    return abs(v) if k.endswith("-eq") else max(v, 0.0)


def oracle_fbase(t, r):
    fid = t.s(); dims = t.int(); t.int(); k = t.int()
    name = "fbase:" + fid
    size = r.int(); f0 = r.int(); g0 = r.int(); n0 = r.int()
    if size != expected_size(fid, dims) or f0 != 0 or g0 != 0 or n0 != 0:
        return f"[{name}:fresh] a fresh function reports size {size}, {f0} / {g0} calls, {n0} constraints"
    sizes = dump()["sizes"]
    cons, fc, gc = [], 0, 0
    for step in range(k):
        o = t.s()
        exp_ans = None
        if o == "cg":
            kind = t.s()
            if kind in ("constant", "minimum", "maximum"):
                v, dim = t.f(), t.int()
                ok, c = 0 <= dim < size, (kind, v, dim)
            elif kind.startswith("ball"):
                org, rad = t.fs(), t.f()
                ok, c = len(org) == size and rad > 0.0, (kind, org, rad)
            elif kind.startswith("linear"):
                q, rr = t.fs(), t.f()
                ok, c = len(q) == size, (kind, q, rr)
            elif kind.startswith("quadratic"):
                rows, cols = t.int(), t.int(); P, q, rr = t.fs(), t.fs(), t.f()
                ok, c = rows == size and cols == size and len(q) == size, (kind, P, q, rr)
            else:
                wid, wd = t.s(), t.int()
                ok, c = sizes[wid][wd - 1] == size, (kind, wid)
            if ok:
                cons.append(c)
            exp_ans = 1 if ok else 0
        elif o == "cb":
            lo, hi = t.f(), t.f()
            if lo < hi:
                for i in range(size):
                    cons += [("minimum", lo, i), ("maximum", hi, i)]
            exp_ans = 1 if lo < hi else 0
        elif o == "cd":
            lo, hi, dim = t.f(), t.f(), t.int()
            ok = lo < hi and 0 <= dim < size
            if ok:
                cons += [("minimum", lo, dim), ("maximum", hi, dim)]
            exp_ans = 1 if ok else 0
        elif o == "cv":
            lo, hi = t.fs(), t.fs()
            ok = len(lo) == size and len(hi) == size and all(b - a > 0.0 for a, b in zip(lo, hi))
            if ok:
                for i in range(size):
                    cons += [("minimum", lo[i], i), ("maximum", hi[i], i)]
            exp_ans = 1 if ok else 0
        elif o == "v":
            x = t.fs()
            viol = [fbase_violation(c, x) for c in cons]
            if all(v is not None for v in viol):
                exp_ans = 1 if all(v < EPS for v in viol) else 0
        elif o in ("e0", "e1"):
            t.fs()
            fc += 1
            gc += 1 if o == "e1" else 0
        elif o == "clr":
            fc = gc = 0
        else:
            return f"[fbase] unknown op {o}"
        ans = r.s(); n = r.int(); neq = r.int(); nineq = r.int(); fcalls = r.int(); gcalls = r.int()
        where = f"step {step} ({o})"
        if exp_ans is not None and ans != str(exp_ans):
            key = "valid" if o == "v" else "constrain-acceptance"
            return f"[{name}:{key}] {where}: answered {ans}, expected {exp_ans}"
        eq = sum(1 for c in cons if c[0] == "constant" or c[0].endswith("-eq"))
        if n != len(cons) or neq != eq or nineq != len(cons) - eq:
            return (f"[{name}:constraint-count] {where}: {n} constraints ({neq} equalities, {nineq} inequalities), expected "
                    f"{len(cons)} ({eq}, {len(cons) - eq})")
        if fcalls != fc or gcalls != gc:
            return f"[{name}:call-counters] {where}: fcalls {fcalls}, gcalls {gcalls}, expected {fc}, {gc}"
    return None


def oracle(op, res):
    why = oracle_(op, res)
    if why and nonsymmetric_P(op):
        why = "[quadratic-constraint:nonsymmetric-P] " + re.sub(r"^\[[^\]]*\]\s*", "", why)
    return why


def oracle_(op, res):
    toks, tag = split_tag(op)
    t = Toks(" ".join(toks))
    r = Toks(res)
    if tag == "rejected-alpha":
        # the witness of a negative pinball value needs alpha outside [0, 1]: the parameter must refuse it
        if res.startswith("throw"):
            return None
        return f"[loss:pinball:alpha-domain-not-enforced] alpha outside [0, 1] was accepted: {res[:80]}"
    if r.s() != "ok":
        return f"[no-answer] implementation did not answer ok: {res[:120]}"
    fam, o = toks[0], toks[1]
    if fam == "loss" and o == "sample":
        t.s(); t.s()
        lid, alpha, T, O = oracle_sample(t)
        value = r.f(); g = r.fs(); err = r.f(); convex = r.int(); r.int()
        name = "loss:" + lid
        if unwritten(name, g):
            return unwritten(name, g)
        if not finite(value, err, *g):
            return f"[{name}:non-finite] non-finite value/gradient/error"
        if tag == "negative-witness" and not value < 0.0:
            return f"[{name}:witness-not-reproduced] the kernel-checked witness of a negative value gives {value!r} on the code"
        npos = sum(1 for v in T if v > 0)
        if value < 0.0 and not (lid == "s-classnll" and npos != 1):
            return f"[{name}:negative-value] loss value {value!r} < 0"
        if err < 0.0:
            return f"[{name}:negative-error] error {err!r} < 0"
        n = len(T)
        if lid.startswith("m-") or (lid.startswith("s-") and n == 1):
            lo, hi = sign_rule_errors(T, O)
            if not (lo <= err <= hi and err == int(err)):
                return f"[{name}:sign-rule] 0-1 error {err!r} but the sign rule counts {lo}..{hi} mismatches"
        elif lid.startswith("s-"):
            m = max(O)
            allowed = {0.0 if T[i] > 0 else 1.0 for i in range(n) if O[i] == m}
            if err not in allowed:
                return f"[{name}:argmax-rule] 0-1 error {err!r} but the arg-max label gives {sorted(allowed)}"
        elif lid == "pinball":
            if err != value:
                return f"[{name}:error] pinball error {err!r} != its value {value!r}"
        else:
            l1 = math.fsum(abs(a - b) for a, b in zip(T, O))
            if not vlib.close(err, l1, 1e-12, 1e-300):
                return f"[{name}:error] error {err!r} != L1 distance {l1!r}"
        return None
    if fam == "fbase":
        t.s(); t.s()
        return oracle_fbase(t, r)
    if fam == "fn" and o == "flags":
        return oracle_flags(toks, Toks(" ".join(toks[5:])), r)
    if fam == "loss" and o in ("batch", "batch4"):
        vals = []
        while not r.done():
            vals.append(r.fs())
        if len(vals) != 6:
            return "[loss:batch] malformed answer"
        for v in vals:
            if any(f2h(x) == SENTINEL for x in v):
                return f"[loss:{toks[2]}:result-unwritten] an entry of a result tensor was never written (still the sentinel)"
        # the same numbers up to rounding: Eigen evaluates exp/log with packet or scalar code depending on the alignment of
        # the sample inside the batch (1 ulp apart); errors (counts / L1 distances) and everything else must agree to 1e-12
        for k, what in enumerate(("value", "error", "gradient")):
            a, b = vals[k], vals[k + 3]
            atol = 1e-13 * max([abs(v) for v in a if finite(v)] + [0.0])
            if len(a) != len(b) or not all(vlib.close(x, y, 1e-12, atol) for x, y in zip(a, b)):
                return f"[loss:{toks[2]}:batch-dependence] {what} of a sample differs between batch and single evaluation"
        return None
    fam, o, oid, info = read_object(t)
    name = f"{fam}:{oid}" if fam in ("fn", "loss", "ct") else fam
    if o == "eval":
        x = t.fs()
        size = r.int(); f0 = r.f(); f1 = r.f(); g = r.fs()
        if size != len(x) or len(g) != size:
            return f"[{name}:size] size {size}, point {len(x)}, gradient {len(g)}"
        if unwritten(name, g):
            return unwritten(name, g)
        if not same_value(info, f0, f1):
            return f"[{name}:value-only-differs] value-only call {f0!r} != value+gradient call {f1!r}"
        if not finite(f0, *g):
            return f"[{name}:non-finite] non-finite value or gradient"
        return None
    if o in ("cd", "cvx"):
        k = t.int()
        P = [t.fs() for _ in range(k)]
        convex = r.int(); smooth = r.int(); mu = r.f()
        f0 = r.f(); f1 = r.f(); g = r.fs()
        fs = [f1] + [r.f() for _ in range(k - 1)]
        if unwritten(name, g):
            return unwritten(name, g)
        if not same_value(info, f0, f1):
            return f"[{name}:value-only-differs] value-only call {f0!r} != value+gradient call {f1!r}"
        if fam == "ct" and "P" in info:
            why = check_quadratic_flags(name, info["P"], bool(convex), mu)
            if why:
                return why
        if o == "cd":
            if k != 5:
                return "[cd] needs 5 points"
            return check_cd(name, bool(smooth), P, fs, g)
        if not convex:
            return None
        for z, fz in zip(P[1:], fs[1:]):
            why = check_convex(name, fam, info, mu, P[0], f1, g, z, fz)
            if why:
                return why
        if not r.done() and r.s() == "isconvex" and r.int() != 1:
            # the sub-gradient inequality held for every pair above, so the chord inequality holds in exact arithmetic
            return (f"[{name}:is_convex-rejects] nano::is_convex (src/function/util.cpp) rejects a pair of points of a function "
                    f"whose declared convexity (mu={mu:g}) passed the sub-gradient test")
        return None
    if o == "climb":
        convex = r.int(); r.int(); mu = r.f()
        x = r.fs(); z = r.fs(); f0 = r.f(); f1 = r.f(); g = r.fs(); fz = r.f()
        if unwritten(name, g):
            return unwritten(name, g)
        if not same_value(info, f0, f1):
            return f"[{name}:value-only-differs] value-only call {f0!r} != value+gradient call {f1!r}"
        if not convex:
            return None
        why = check_convex(name, fam, info, mu, x, f1, g, z, fz)
        if why:
            return why + f" at x={x} z={z}"
        return None
    return f"[unknown-op] {o}"


def classify(op, kind, detail):
    if kind == "oracle":
        m = re.match(r"\[([^\]]+)\]", detail or "")
        if m:
            return m.group(1)
    t, _ = split_tag(op)
    if kind == "corr":
        return "corr:" + obj_id(t)
    return (kind + ":" + obj_id(t)) if len(t) > 2 else kind


def nontrivial(op):
    t, tag = split_tag(op)
    if tag:
        return True
    if len(t) < 4:
        return False
    fam, o = t[0], t[1]
    try:
        if fam == "loss" and o == "batch4":
            return int(t[7]) >= 2  # number of samples
        if fam == "loss":
            return int(t[4]) >= 2  # number of outputs (length of the target list)
        if fam == "fn":
            return int(t[3]) >= 2
    except ValueError:
        return False
    return True


def distribution(ops):
    d = {}
    for op in ops:
        t, tag = split_tag(op)
        k = f"{t[0]}/{t[1]}" + (f"#{tag}" if tag else "")
        d[k] = d.get(k, 0) + 1
    return d


def shrink_candidates(op):
    """fewer comparison points; coordinates of z pulled onto x; rounder coordinates"""
    toks, tag = split_tag(op)
    if len(toks) < 3 or toks[1] != "cvx":
        return
    t = Toks(" ".join(toks))
    try:
        fam, o, oid, info = read_object(t)
        head = toks[:t.i]
        k = t.int()
        P = [t.fs() for _ in range(k)]
    except Exception:
        return
    tg = f" #{tag}" if tag else ""
    mk = lambda pts_: " ".join(head) + " " + pts(pts_) + tg
    if k > 2:
        for j in range(1, k):
            yield mk([P[0], P[j]])
        return
    x, z = P
    for i in range(len(x)):
        if z[i] != x[i]:
            z2 = list(z); z2[i] = x[i]
            if z2 != x:
                yield mk([x, z2])
    for digits in (1, 2, 3):
        z2 = [xi + round(zi - xi, digits) for xi, zi in zip(x, z)]
        if z2 != z and z2 != x:
            yield mk([x, z2])
