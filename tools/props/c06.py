"""C06 — values, gradients and convexity flags of functions, losses and constraints are truthful (DESIGN.md §4 C06)."""
import json, math, os, re, sys
import vlib
from vlib import Toks, lst, f2h, h2f, Broken

ID = "C06"
LEVEL = "proof"
HARNESS = "c06"
LEAN_MODULES = ["NanoVerif.Props.C06"]
NS = "NanoVerif.C06."
OBLIGATIONS = [NS + t for t in [
    # losses: sub-gradient inequality of every kernel flagged convex
    "elementwise_sum_subgrad", "mae_subgrad", "mse_subgrad", "hinge_subgrad", "sqhinge_subgrad", "pinball_subgrad",
    "exponential_subgrad", "logistic_subgrad", "classnll_subgrad", "classnll_subgrad_eps",
    # values and errors
    "loss_nonneg", "classnll_nonneg", "error_nonneg", "argmax_spec", "sclass_error_iff_argmax",
    "mclass_error_eq_count_sign", "binary_error_iff_sign",
    # benchmark functions
    "sphere_subgrad", "axis_ellipsoid_subgrad", "schumer_steiglitz_subgrad", "chung_reynolds_subgrad", "sargan_subgrad",
    "zakharov_subgrad", "rotated_ellipsoid_subgrad", "trid_subgrad", "quadratic_subgrad", "maxq_subgrad", "maxquad_subgrad",
    "maxhilb_subgrad",
    "chained_lq_subgrad", "kinks_subgrad", "chained_cb3I_subgrad", "chained_cb3II_subgrad", "exponential_fn_subgrad",
    "geometric_subgrad",
    "elastic_net_subgrad", "elastic_net_kernels",
    # constraints
    "ball_subgrad", "linear_subgrad", "cquad_subgrad", "minimum_subgrad", "maximum_subgrad",
    # composition
    "affine_comp_subgrad", "sum_subgrad", "ridge_subgrad_mu", "ridge_partial_subgrad_mu",
    # derivatives of the smooth scalar kernels
    "mse_hasDerivAt", "sqhinge_hasDerivAt", "logistic_hasDerivAt", "exponential_hasDerivAt", "cauchy_hasDerivAt",
    "savage_hasDerivAt", "tangent_hasDerivAt",
    # the returned gradient is the derivative of the returned value along every line: smooth benchmark functions
    "hasDerivAt_line_everywhere",
    "sphere_hasDerivAt_line", "axis_ellipsoid_hasDerivAt_line", "schumer_steiglitz_hasDerivAt_line", "qing_hasDerivAt_line",
    "styblinski_tang_hasDerivAt_line", "chung_reynolds_hasDerivAt_line", "sargan_hasDerivAt_line", "zakharov_hasDerivAt_line",
    "exponential_fn_hasDerivAt_line", "cauchy_fn_hasDerivAt_line", "rotated_ellipsoid_hasDerivAt_line", "trid_hasDerivAt_line",
    "rosenbrock_hasDerivAt_line", "dixon_price_hasDerivAt_line", "powell_hasDerivAt_line", "quadratic_hasDerivAt_line",
    "geometric_hasDerivAt_line", "elastic_net_ridge_hasDerivAt_line", "elastic_net_smooth_kernels",
    # ... smooth losses as functions of the prediction vector
    "loss_hasDerivAt_line", "classnll_shift_hasDerivAt_line", "classnll_hasDerivAt_line", "classnll_value_eps_close",
    # ... objects not declared smooth: derivative wherever no kink / tie is hit
    "mae_hasDerivAt_line_off_kinks", "hinge_hasDerivAt_line_off_kinks", "pinball_hasDerivAt_line_off_kinks",
    "elastic_net_hasDerivAt_line_off_kinks", "elastic_net_kernels_off_kinks", "chained_lq_hasDerivAt_line_off_ties",
    "chained_cb3I_hasDerivAt_line_off_ties", "chained_cb3II_hasDerivAt_line_off_ties", "kinks_hasDerivAt_line_off_kinks",
    "maxq_hasDerivAt_line_off_ties", "maxquad_hasDerivAt_line_off_ties", "maxhilb_hasDerivAt_line_off_ties",
    # ... smooth constraint kinds
    "ball_hasDerivAt_line", "linear_hasDerivAt_line", "cquad_hasDerivAt_line", "minimum_hasDerivAt_line",
    "maximum_hasDerivAt_line",
    # ... compositions (ML objectives)
    "affine_comp_hasDerivAt_line", "sum_hasDerivAt_line", "ridge_hasDerivAt_line",
    # declared flags
    "flags_covered", "smooth_covered", "gradient_covered", "strong_covered", "strong_values_covered",
]]
TRUSTED = [
    "Lean 4.33.0 kernel; Mathlib modules imported by NanoVerif/Proofs/C06*.lean and NanoVerif/Props/C06.lean (Tactic.Ring, "
    "Tactic.Linarith, Tactic.Positivity, Algebra.Order.Field.Basic, Analysis.SpecialFunctions.Exp / ExpDeriv / Log.Basic / Log.Deriv / "
    "Sqrt / Trigonometric.Arctan / Trigonometric.ArctanDeriv, Analysis.Calculus.Deriv.* through these)",
    "the definition `line x d t = vadd x (smul t d)` (NanoVerif/Proofs/C06Line.lean) through which the derivative theorems are stated: "
    "HasDerivAt (fun t => f (line x d t)) (dot (g x) d) 0 for all x, d of equal length (Mathlib's HasDerivAt over R)",
    "axioms: at most propext, Classical.choice, Quot.sound (audited per theorem on every run)",
    "hand-written models NanoVerif/Model/Loss.lean (17 losses: value, vgrad, error) and NanoVerif/Model/Functions.lean (all 48 "
    "benchmark prototypes; the 24 elastic-net prototypes through one generic definition —, 9 of the 11 constraint "
    "kinds directly and the two functional kinds through the function models); tied to the "
    "code by the correspondence run (harness/c06.cpp on the real code vs the compiled Lean driver at Float, relative tolerance below)",
    "instances of the class Transc: std::exp/log/log1p/atan are Real.exp/Real.log/log(1+.)/Real.arctan in the proofs and libm at Float "
    "(log1p through log, core Float has none)",
    "NanoVerif/Gen/Flags.lean is a dump of the flags the implementation declares (harness op `dump flags`), regenerated on every run",
    "parameters drawn at construction by libnano's RNG (kinks, quadratic, geometric-optimization, the synthetic data of the "
    "elastic-net prototypes) are reproduced in the harness with the constructor's own calls and handed to the model; the "
    "regularisation factors of the elastic-net prototypes are read from their ids; the five matrices / vectors of maxquad (private "
    "members) are recomputed in the harness with a copy of the two fill() formulas of maxquad.cpp:7-43 (a changed formula in the "
    "source shows up as a model/implementation disagreement)",
    "tools/props/c06.py generator + oracle (difference quotients, convexity inequality, error rules); harness/c06.cpp incl. its random "
    "local search for violating pairs (its results are re-checked by the python oracle); g++/libstdc++/Eigen",
]
ASSUMPTIONS = [
    "theorems are about exact arithmetic (ordered field; R for exp/log/atan kernels); rounding is covered only by the tolerances of the "
    "correspondence and of the oracle",
    "s-classnll as coded adds epsilon inside the logarithm but not in its gradient: the sub-gradient inequality holds up to the additive "
    "constant log(1+epsilon) <= 2.3e-16 (theorem classnll_subgrad_eps; exact for epsilon = 0: classnll_subgrad)",
    "loss values are non-negative for s-classnll only when the target has exactly one positive entry (classnll_nonneg); the library "
    "feeds one-hot targets to single-label losses; other patterns are generated, evaluated and only counted",
    "quadratic (benchmark) is convex under the hypothesis that its matrix A = I + R R' is self-adjoint and positive semi-definite "
    "(hypotheses of quadratic_subgrad); the quadratic constraint kinds (symmetrised gradient, 78c1895) for every square P with "
    "d.Pd >= 0 (hypothesis of cquad_subgrad, no symmetry needed); the eigenvalue tests of nano::convex / nano::strong_convexity "
    "(Eigen) that decide these hypotheses and the declared coefficients of quadratic / quadratic constraints are tested only",
    "gradient = derivative: a theorem (X_hasDerivAt_line: the directional derivative of the modelled value along every direction d is "
    "g(x).d, all dimensions) for every object that declares itself smooth — the 17 smooth benchmark functions incl. the non-convex qing, "
    "cauchy, powell, rosenbrock, dixon-price, styblinski-tang, the <mse|logistic>+ridge prototypes, the 13 smooth losses, all constraint "
    "kinds (theorem smooth_covered over the dumped flags; the list is in the evidence `explanation`). Hypotheses: quadratic needs its matrix "
    "self-adjoint (A = I + R R' is; for a non-symmetric A the returned a + A x is not the derivative: example in Props/C06.lean); the "
    "quadratic constraint kinds need nothing (symmetrised gradient); geometric-optimization needs the shapes to match. Objects NOT "
    "declared smooth (mae, hinge, pinball, maxq, maxhilb, chained_lq, chained_cb3I/II, kinks, the lasso / elasticnet / mae+ / hinge+ / "
    "cauchy+ prototypes): the returned sub-gradient is the derivative along every line at every point that avoids the kinks / ties of "
    "the formula (X_hasDerivAt_line_off_kinks / _off_ties, side condition spelled out per theorem: outputs off the kink of the kernel, "
    "no zero coordinate for an l1 term, the selected piece / index the STRICT maximum, maxhilb's maximum non-zero); ON a kink the code "
    "returns one sub-gradient (X_subgrad where convex; one-sided difference quotients in the search). Theorem gradient_covered: every "
    "dumped object is on provenSmooth, provenOffKinks or an explicit tested-only list (both tested-only lists are empty)",
    "maxquad is convex under the hypothesis that its matrices A_k are self-adjoint and positive semi-definite (hypotheses of maxquad_subgrad; "
    "the constructor's matrices are symmetric and diagonally dominant with a positive diagonal, which is not re-proved from the "
    "exp/cos/sin formulas: the search tests the inequality on the real matrices)",
    "s-classnll as coded adds epsilon inside the logarithm of the value but not in the gradient: the returned gradient is exactly the "
    "gradient of the epsilon = 0 value (classnll_hasDerivAt_line; for any shift rule: classnll_shift_hasDerivAt_line), and the coded value "
    "differs from that one by at most log(1+epsilon) <= 2.3e-16 uniformly (classnll_value_eps_close); it is not the exact derivative of the "
    "coded value (relative deviation of the order of epsilon, and the epsilon-term has a kink where the maximal output is tied)",
    "ML objectives (linear / gboost / surrogate): convexity follows from affine_comp_subgrad + sum_subgrad + ridge_subgrad_mu / "
    "ridge_partial_subgrad_mu given the loss kernel's inequality, gradient = derivative from affine_comp_hasDerivAt_line + "
    "sum_hasDerivAt_line + ridge_hasDerivAt_line given loss_hasDerivAt_line (both carried out in full for the elastic-net prototypes: "
    "elastic_net_subgrad, elastic_net_ridge_hasDerivAt_line); their plumbing (dataset iteration, accumulation over threads) is "
    "tested (difference quotients), not modelled",
]
RTOL = 1e-9
RULE = ("corpus; all function prototypes of function_t::all() x dims (quick: 1, 2 and 6 further of 1..32; thorough: 1..32) x summands "
        "{1,7,30}: value-only vs value+gradient, difference quotients along random directions at two step sizes, the declared convexity "
        "inequality (with the declared mu) for x, z in boxes of radius 1e-3..10 and after a random local search on the violation; constructed "
        "exact ties of the pieces of chained_cb3I/II (v1 = v2 > v3), chained_lq, maxq, maxhilb, maxquad, kinks of kinks / |.| / hinge / pinball / "
        "lasso; all 17 losses x 1..13 outputs x targets of every class pattern (each one-hot position, all negative, all positive, random, "
        "exhaustive for <= 3 outputs) x predictions in [-30,30] incl. 0, +-30, the decision boundary and arg-max ties; batch vs single "
        "evaluation; 11 constraint kinds with random coefficients (symmetric P); linear / gboost bias, scale, grads / surrogate fit "
        "objectives over random in-memory datasets (regression, single-label, multi-label). Tolerances: model vs implementation: relative 1e-9 "
        "per number or absolute 1e-13 x the largest magnitude of the result line (at least 1e-13 for s-classnll: probability minus one); convexity: violation > 1e-9 x (|f(x)|+|f(z)|+sum|g_i dz_i|+"
        "mu/2|dz|^2) + 64 eps x max(1,|x|_inf,|z|_inf); difference quotient: |D - g.dx| > 1e-6 |g.dx| + 2 |D(2h) - 2 D(h)| + 2e-11 x max|f|, relaxed to 'g.dx between the "
        "one-sided differences' for objects not declared smooth. A case is non-trivial when it is a constructed tie/kink/boundary case (#tag) "
        "or has dimension >= 2 (functions, constraints, objectives) / >= 2 outputs (losses); distinct by op text")
FLAVOUR = {"quick": "plain", "thorough": "asan"}
HARNESS_TIMEOUT = 1500
EPS = 2.220446049250313e-16
DUMP_DIMS = [1, 2, 3, 4, 8, 16, 32]
RADII = [1e-3, 1e-2, 1e-1, 1.0, 10.0]
MODELLED_FN = {"sphere", "axis-ellipsoid", "schumer-steiglitz", "qing", "styblinski-tang", "chung-reynolds", "sargan", "zakharov",
               "rotated-ellipsoid", "trid", "chained_lq", "rosenbrock", "dixon-price", "powell", "maxq", "maxhilb", "chained_cb3I",
               "chained_cb3II", "exponential", "cauchy", "kinks", "quadratic", "geometric-optimization", "maxquad"}
MODELLED_CT = {"constant", "minimum", "maximum", "ball-eq", "ball-ineq", "linear-eq", "linear-ineq", "quadratic-eq", "quadratic-ineq"}
CT_KINDS = ["constant", "minimum", "maximum", "ball-eq", "ball-ineq", "linear-eq", "linear-ineq", "quadratic-eq", "quadratic-ineq",
            "functional-eq", "functional-ineq"]
REG_LOSSES = ["mae", "mse", "cauchy", "pinball"]


# ---------------------------------------------------------------------------------------------------------
# translate: dump of the declared flags -> NanoVerif/Gen/Flags.lean (+ a json copy for the generator)

def _tier():
    a = sys.argv
    if "--tier" in a and a.index("--tier") + 1 < len(a):
        t = a[a.index("--tier") + 1]
        return t if t in ("quick", "thorough") else "quick"
    t = os.environ.get("VERIF_TIER")
    return t if t in ("quick", "thorough") else "quick"


def _dump_path():
    return os.path.join(vlib.CACHE, "c06_dump.json")


def _run_dump():
    fl = FLAVOUR.get(_tier(), "plain")
    vlib.build_repo(fl)
    exe = vlib.build_harness(HARNESS, fl)
    ops = ["dump flags " + lst(DUMP_DIMS)] + [f"dump kinks {d}" for d in range(1, 33)]
    aug, res, crash = vlib.run_harness(exe, ops, timeout=300)
    if crash is not None or len(res) != len(ops):
        raise Broken("translate:Flags", f"the flags dump crashed: {crash}")
    t = Toks(res[0])
    if t.s() != "ok":
        raise Broken("translate:Flags", res[0][:200])
    fns, losses, cts = [], [], []
    for _ in range(t.int()):
        fns.append(dict(id=t.s(), dims=t.int(), size=t.int(), convex=t.int(), smooth=t.int(), mu=t.f()))
    for _ in range(t.int()):
        losses.append(dict(id=t.s(), convex=t.int(), smooth=t.int()))
    for _ in range(t.int()):
        cts.append(dict(id=t.s(), convex=t.int(), smooth=t.int(), mu=t.f()))
    kinks = {}
    for d, r in zip(range(1, 33), res[1:]):
        k = Toks(r)
        if k.s() != "ok":
            raise Broken("translate:Flags", r[:200])
        rows, cols = k.int(), k.int()
        data = k.fs()
        kinks[str(d)] = [data[i * cols:(i + 1) * cols] for i in range(rows)]
    return dict(fns=fns, losses=losses, cts=cts, kinks=kinks)


def lean_name(prefix, s):
    n = re.sub(r"[^A-Za-z0-9]+", "_", s).strip("_")
    return f"{prefix}_{n}"


def flags_text(d):
    objs, seen = [], set()
    rows = []
    for r in d["fns"]:
        n = lean_name("fn", r["id"])
        if n not in seen:
            seen.add(n); objs.append((n, "fn:" + r["id"]))
        rows.append((n, r["dims"], r["convex"], r["smooth"], r["mu"]))
    for r in d["losses"]:
        n = lean_name("loss", r["id"])
        seen.add(n); objs.append((n, "loss:" + r["id"]))
        rows.append((n, 0, r["convex"], r["smooth"], 0.0))
    for r in d["cts"]:
        n = lean_name("ct", r["id"])
        seen.add(n); objs.append((n, "ct:" + r["id"]))
        rows.append((n, 3, r["convex"], r["smooth"], r["mu"]))
    if len({n for n, _ in objs}) != len(objs):
        raise Broken("translate:Flags", "object names are not unique after sanitising")
    b = lambda v: "true" if v else "false"
    out = ["-- GENERATED by tools/props/c06.py from the `dump flags` op of harness/c06.cpp (the flags declared by",
           "-- function_t::all() prototypes x dims, loss_t::all(), the 11 constraint kinds of /repo) — do not edit",
           "namespace NanoVerif.Gen.Flags", "",
           "/-- every registered benchmark function, every loss and every constraint kind (with representative coefficients) -/",
           "inductive Obj where"]
    out += [f"  | {n}" for n, _ in objs]
    out += ["deriving DecidableEq, Repr", "",
            "/-- the id the object is registered under -/", "def Obj.id : Obj → String"]
    out += [f"  | .{n} => \"{i}\"" for n, i in objs]
    out += ["", "/-- one declaration: object, dimension asked for (0 for losses), `convex()`, `smooth()`, `strong_convexity() > 0`, its bits -/",
            "structure Row where", "  obj : Obj", "  dims : Nat", "  convex : Bool", "  smooth : Bool", "  strong : Bool",
            "  muBits : Nat  -- bit pattern of the declared strong_convexity() (IEEE binary64)",
            "deriving DecidableEq, Repr", "", "def rows : List Row := ["]
    out.append(",\n".join(f"  ⟨.{n}, {dm}, {b(c)}, {b(s)}, {b(mu > 0)}, 0x{f2h(mu)}⟩" for n, dm, c, s, mu in rows))
    out += ["]", "", "end NanoVerif.Gen.Flags", ""]
    return "\n".join(out)


def translate():
    d = _run_dump()
    os.makedirs(vlib.CACHE, exist_ok=True)
    with open(_dump_path(), "w") as f:
        json.dump(d, f)
    global _DUMP
    _DUMP = d
    vlib.write_if_changed(os.path.join(vlib.LEAN, "NanoVerif", "Gen", "Flags.lean"), flags_text(d))


_DUMP = None


def dump():
    global _DUMP
    if _DUMP is None:
        if os.path.exists(_dump_path()):
            _DUMP = json.load(open(_dump_path()))
        else:
            _DUMP = _run_dump()
    return _DUMP


EXPLANATION = "see rule / trusted_base"


def _coverage_lists(name):
    """the list `name : List (Obj x String)` of Props/C06.lean (the lists the theorems flags_covered / smooth_covered decide over)"""
    src = open(os.path.join(vlib.LEAN, "NanoVerif", "Props", "C06.lean")).read()
    m = re.search(r"def %s : List \(Obj × String\) := \[(.*?)\]\n" % name, src, re.S)
    if m is None:
        return None
    return re.findall(r'\(\.(\w+),\s*"([^"]*)"\)', m.group(1))


def smooth_coverage(d):
    """(proved: {id: theorem}, tested only: {id: reason}, uncovered ids) for the objects the implementation declares smooth"""
    proven = dict(_coverage_lists("provenSmooth") or [])
    tested = dict(_coverage_lists("testedOnlySmooth") or [])
    rows = [("fn", "fn:", r) for r in d["fns"]] + [("loss", "loss:", r) for r in d["losses"]] + [("ct", "ct:", r) for r in d["cts"]]
    pr, te, un = {}, {}, []
    for pre, tagp, r in rows:
        if not r["smooth"]:
            continue
        n = lean_name(pre, r["id"])
        if n in proven:
            pr[tagp + r["id"]] = proven[n]
        elif n in tested:
            te[tagp + r["id"]] = tested[n]
        elif tagp + r["id"] not in un:
            un.append(tagp + r["id"])
    return pr, te, un


def static_checks():
    """the dump must cover what the statement quantifies over; every object declared smooth is on one of the two lists of
    Props/C06.lean (python mirror of the theorem smooth_covered) and every theorem named there is an audited obligation"""
    global EXPLANATION
    d = dump()
    bad = []
    ids = {r["id"] for r in d["fns"]}
    if len(ids) < 48:
        bad.append(f"only {len(ids)} function prototypes registered (the statement names 48)")
    if len(d["losses"]) < 17:
        bad.append(f"only {len(d['losses'])} losses registered (the statement names 17)")
    if _coverage_lists("provenSmooth") is None or _coverage_lists("testedOnlySmooth") is None:
        bad.append("Props/C06.lean: the lists provenSmooth / testedOnlySmooth are not found")
        return bad
    pr, te, un = smooth_coverage(d)
    for i in un:
        bad.append(f"{i} declares itself smooth but has neither a derivative theorem nor a tested-only entry")
    offk = dict(_coverage_lists("provenOffKinks") or [])
    offt = dict(_coverage_lists("testedOnlyOffKinks") or [])
    po, to = {}, {}
    for pre, tagp, k in (("fn", "fn:", "fns"), ("loss", "loss:", "losses"), ("ct", "ct:", "cts")):
        for r in d[k]:
            if r["smooth"]:
                continue
            n, i = lean_name(pre, r["id"]), tagp + r["id"]
            if n in offk:
                po[i] = offk[n]
            elif n in offt:
                to[i] = offt[n]
            elif i not in pr and i not in te:
                bad.append(f"{i} (not declared smooth) has neither an off-kink derivative theorem nor a tested-only entry")
    for i, thms in list(pr.items()) + list(po.items()):
        for th in re.split(r"\s*\+\s*", thms):
            if NS + th not in OBLIGATIONS:
                bad.append(f"{i}: the derivative theorem {th} named in Props/C06.lean is not an audited obligation")

    def by_thm(m):
        g = {}
        for i, th in m.items():
            g.setdefault(th, []).append(i)
        return "; ".join(f"{th}: {', '.join(sorted(v))}" for th, v in sorted(g.items()))

    EXPLANATION = (
        f"gradient = derivative along every line (HasDerivAt, all dimensions). Objects declaring themselves smooth: {len(pr)} with an "
        f"unconditional theorem, {len(te)} difference-quotient-tested only. Theorems: " + by_thm(pr)
        + ". Tested only: " + ("; ".join(f"{i} ({why})" for i, why in sorted(te.items())) or "none")
        + f". Objects not declared smooth: {len(po)} with a theorem at every point off the kinks / ties (on a kink: the sub-gradient "
        f"inequality where convex, one-sided difference quotients), {len(to)} tested only. Theorems: " + by_thm(po)
        + ". Tested only: " + ("; ".join(f"{i} ({why})" for i, why in sorted(to.items())) or "none"))
    return bad


# ---------------------------------------------------------------------------------------------------------
# generator

def fl(xs):
    return lst(xs, f2h)


def box(rng, n, r):
    return [rng.uniform(-r, r) for _ in range(n)]


def direction(rng, n):
    while True:
        d = [rng.uniform(-1.0, 1.0) for _ in range(n)]
        if rng.chance(0.3) and n > 1:  # sparse directions
            keep = rng.below(n)
            d = [v if (i == keep or rng.chance(0.3)) else 0.0 for i, v in enumerate(d)]
        m = max(abs(v) for v in d)
        if m > 1e-3:
            return [v / m for v in d]


def stencil(x, d, h):
    """x, x+hd, x-hd, x+(h/2)d, x-(h/2)d in double arithmetic (the oracle uses the points, not h)"""
    return [x,
            [a + h * b for a, b in zip(x, d)], [a - h * b for a, b in zip(x, d)],
            [a + 0.5 * h * b for a, b in zip(x, d)], [a - 0.5 * h * b for a, b in zip(x, d)]]


def step_for(x):
    return 2.0 ** -13 * max(1.0, max(abs(v) for v in x))


def pts(points):
    return f"{len(points)} " + " ".join(fl(p) for p in points)


def generic_ops(rng, spec, size, n_cd, n_cvx, climb_steps, x0s=(), tag=None, radii=RADII):
    """eval / cd / cvx / climb ops for one object; x0s = constructed special points (ties, kinks)"""
    ops = []
    tg = f" #{tag}" if tag else ""
    for x in x0s:
        ops.append(f"{spec[0]} eval {spec[1]} {fl(x)}")
        zs = []
        for r in radii:
            zs.append([a + rng.uniform(-r, r) for a in x])
            j = rng.below(size)  # one-coordinate moves (the direction that exposes a wrong branch at a tie)
            for s in (+1.0, -1.0):
                zs.append([a + (s * r * rng.uniform(0.1, 1.0) if i == j else 0.0) for i, a in enumerate(x)])
        ops.append(f"{spec[0]} cvx {spec[1]} {pts([x] + zs)}{tg}")
        for _ in range(2):
            d = direction(rng, size)
            ops.append(f"{spec[0]} cd {spec[1]} {pts(stencil(x, d, step_for(x)))}{tg}")
        if climb_steps:
            z = [a + rng.uniform(-0.1, 0.1) for a in x]
            ops.append(f"{spec[0]} climb {spec[1]} {fl(x)} {fl(z)} {climb_steps} {rng.below(1 << 30)} {f2h(max(1.0, max(abs(v) for v in x)) * 1.5)}{tg}")
    for k in range(n_cd):
        r = radii[k % len(radii)] if k < len(radii) else rng.choice(radii)
        x = box(rng, size, r)
        if k == 0:
            ops.append(f"{spec[0]} eval {spec[1]} {fl(x)}")
        ops.append(f"{spec[0]} cd {spec[1]} {pts(stencil(x, direction(rng, size), step_for(x)))}{tg if not x0s else ''}")
    for k in range(n_cvx):
        r = radii[k % len(radii)]
        c = box(rng, size, rng.choice([0.0, r, 1.0]))          # centre of the box
        x = [a + rng.uniform(-r, r) for a in c]
        zs = [[a + rng.uniform(-r, r) for a in c] for _ in range(3)]
        zs.append([a + rng.uniform(-r, r) * 1e-3 for a in x])  # a very close pair
        ops.append(f"{spec[0]} cvx {spec[1]} {pts([x] + zs)}{tg if not x0s else ''}")
    if climb_steps:
        r = rng.choice(radii)
        x = box(rng, size, r)
        z = box(rng, size, r)
        ops.append(f"{spec[0]} climb {spec[1]} {fl(x)} {fl(z)} {climb_steps} {rng.below(1 << 30)} {f2h(r)}")
    return ops


# -- constructed ties / kinks of the benchmark functions ---------------------------------------------------

def cb3_values(a, b):
    v1 = (a * a) * (a * a) + b * b
    v2 = (2.0 - a) * (2.0 - a) + (2.0 - b) * (2.0 - b)
    v3 = 2.0 * math.exp(-a + b)
    return v1, v2, v3


def cb3_ties():
    """exactly representable (a, b) with v1 == v2 > v3 in double arithmetic: b = 1 + ((2-a)^2 - a^4)/4 for dyadic a"""
    out = []
    for k in range(-32, 33):
        a = k / 8.0
        b = 1.0 + ((2.0 - a) * (2.0 - a) - (a * a) * (a * a)) / 4.0
        if abs(b) > 10.0:
            continue
        v1, v2, v3 = cb3_values(a, b)
        if v1 == v2 and v1 > v3:
            out.append((a, b))
    return out


def special_points(rng, fid, size, kinks):
    """points on ties of max-type functions / kinks of |.|; (points, tag)"""
    P = []
    if fid in ("chained_cb3I", "chained_cb3II") and size >= 2:
        ties = cb3_ties()
        if fid == "chained_cb3I" or size == 2:
            for a, b in ([(1.5, -0.203125)] + [rng.choice(ties) for _ in range(3)]):
                P.append([a, b] + box(rng, size - 2, 1.0))
        else:
            # cb3II compares the sums over the pairs: keep the other pairs' v1 - v2 at exactly 0 is not possible in
            # general; with a constant tail (c, c, ...) the extra pairs contribute d = c^4 + c^2 - 2 (2-c)^2 to fx1 - fx2,
            # which is 0 for c = 1 (v1 = v2 = 2 > v3 = 2)
            for a, b in [(1.0, 1.0)]:
                P.append([1.0] * size)
        return P, "tie"
    if fid == "chained_lq" and size >= 2:
        for p in ([1.0, 0.0], [0.0, 1.0], [-1.0, 0.0], [0.0, -1.0], [0.6, 0.8]):
            P.append(p + box(rng, size - 2, 1.0))
        return P, "tie"
    if fid == "maxq" and size >= 2:
        for _ in range(3):
            x = box(rng, size, 1.0)
            i, j = rng.below(size), rng.below(size)
            m = 1.5
            x[i] = m
            x[j] = m if rng.chance(0.5) else -m
            if rng.chance(0.5):
                x[i] = -x[i]
            P.append(x)
        P.append([0.0] * size)
        return P, "tie"
    if fid in ("maxhilb", "maxquad"):
        P.append([0.0] * size)
        return P, "tie"
    if fid == "kinks":
        K = kinks.get(str(size))
        if K:
            for _ in range(3):
                x = box(rng, size, 1.0)
                for j in range(size):
                    if rng.chance(0.6):
                        x[j] = K[rng.below(len(K))][j]
                P.append(x)
        return P, "kink"
    if "+lasso" in fid or "+elasticnet" in fid:
        for _ in range(2):
            x = box(rng, size, 1.0)
            for j in range(size):
                if rng.chance(0.5):
                    x[j] = 0.0
            P.append(x)
        P.append([0.0] * size)
        return P, "kink"
    return P, None


def gen_functions(rng, tier):
    d = dump()
    ops = []
    by_id = {}
    for r in d["fns"]:
        by_id.setdefault(r["id"], {})[r["dims"]] = r["size"]
    quick = tier == "quick"
    for fid in by_id:
        if quick:
            dims_list = [1, 2] + sorted({rng.range(3, 32) for _ in range(6)})
        else:
            dims_list = list(range(1, 33))
        for dims in dims_list:
            summands = rng.choice([1, 7, 30])
            size = by_id[fid].get(dims)
            if size is None:  # sizes are known for DUMP_DIMS; the others follow the three rules of the constructors
                size = max(dims, 2) if (fid == "rosenbrock" or "+" in fid) else (max(4, dims - dims % 4) if fid == "powell" else dims)
            spec = ("fn", f"{fid} {dims} {summands}")
            P, tag = special_points(rng, fid, size, d["kinks"])
            ops += generic_ops(rng, spec, size, n_cd=3 if quick else 6, n_cvx=5 if quick else 10,
                               climb_steps=(40 if quick else 300), x0s=P, tag=tag)
    return ops


# -- losses -----------------------------------------------------------------------------------------------

def class_patterns(rng, n, single):
    pats = []
    if n <= 3:
        for m in range(1 << n):
            pats.append([1.0 if (m >> i) & 1 else -1.0 for i in range(n)])
    else:
        for k in range(n):
            pats.append([1.0 if i == k else -1.0 for i in range(n)])
        pats.append([-1.0] * n)
        pats.append([1.0] * n)
        for _ in range(2):
            pats.append([rng.choice([-1.0, 1.0]) for _ in range(n)])
    return pats


def loss_outputs(rng, n, t, lid):
    outs = [box(rng, n, 30.0), box(rng, n, 1.0), [0.0] * n,
            [rng.choice([-30.0, 30.0]) for _ in range(n)],
            list(t)]                                                   # decision boundary: t*o = 1, o = t
    o = box(rng, n, 5.0)
    if n >= 2:                                                         # arg-max tie
        i, j = rng.below(n), rng.below(n)
        o[i] = o[j] = max(o) + (0.0 if rng.chance(0.5) else 1.0)
        outs.append(o)
    o = box(rng, n, 2.0)
    for i in range(n):                                                 # on / next to the boundary, sign flips, zeros
        c = rng.below(5)
        if c == 0:
            o[i] = t[i]
        elif c == 1:
            o[i] = 0.0
        elif c == 2:
            o[i] = math.nextafter(t[i], 100.0)
        elif c == 3:
            o[i] = -t[i]
    outs.append(o)
    if "logistic" in lid:
        outs.append([-ti * rng.choice([1.0, math.nextafter(1.0, 0.0), math.nextafter(1.0, 2.0), 0.999, 1.001]) for ti in t])
    return outs


def gen_losses(rng, tier):
    d = dump()
    ops = []
    quick = tier == "quick"
    for L in d["losses"]:
        lid = L["id"]
        is_class = lid.startswith("s-") or lid.startswith("m-")
        for n in range(1, 14):
            alpha = rng.choice([0.0, 0.1, 0.25, 0.5, 0.9, 1.0]) if lid == "pinball" else 0.5
            if is_class:
                pats = class_patterns(rng, n, lid.startswith("s-"))
            else:
                pats = [box(rng, n, 30.0), box(rng, n, 1.0), [0.0] * n]
            if quick and len(pats) > 6:
                keep = rng.shuffle(pats)[:4]
                onehot0 = [1.0 if i == 0 else -1.0 for i in range(n)]
                pats = keep + ([onehot0] if is_class else [])
            generic_budget = (n in (1, 2, 3, 13)) or not quick or rng.chance(0.25)
            for t in pats:
                outs = loss_outputs(rng, n, t, lid)
                for o in outs:
                    ops.append(f"loss sample {lid} {f2h(alpha)} {fl(t)} {fl(o)}")
                if generic_budget:
                    spec = ("loss", f"{lid} {f2h(alpha)} {fl(t)}")
                    special = [list(t)] if lid in ("mae", "pinball", "m-hinge", "s-hinge") else []
                    ops += generic_ops(rng, spec, n, n_cd=2, n_cvx=2, climb_steps=(30 if quick else 200), x0s=special,
                                       tag="kink" if special else None, radii=[1e-3, 0.1, 1.0, 10.0, 30.0])
            # batch vs one sample at a time
            m = rng.range(2, 6)
            T, O = [], []
            for _ in range(m):
                t = rng.choice(pats)
                T += t
                O += rng.choice(loss_outputs(rng, n, t, lid))
            ops.append(f"loss batch {lid} {f2h(alpha)} {n} {m} {fl(T)} {fl(O)}")
    return ops


# -- constraints ------------------------------------------------------------------------------------------

def sym_matrix(rng, n, psd):
    B = [[rng.uniform(-1.0, 1.0) for _ in range(n)] for _ in range(n)]
    if psd:
        return [[sum(B[i][k] * B[j][k] for k in range(n)) for j in range(n)] for i in range(n)]
    return [[0.5 * (B[i][j] + B[j][i]) for j in range(n)] for i in range(n)]


def ct_spec(rng, kind, n, fn_ids):
    if kind in ("constant", "minimum", "maximum"):
        return f"{kind} {n} {f2h(rng.uniform(-2.0, 2.0))} {rng.below(n)}", n
    if kind.startswith("ball"):
        return f"{kind} {fl(box(rng, n, 2.0))} {f2h(rng.uniform(0.1, 3.0))}", n
    if kind.startswith("linear"):
        return f"{kind} {fl(box(rng, n, 2.0))} {f2h(rng.uniform(-2.0, 2.0))}", n
    if kind.startswith("quadratic"):
        P = sym_matrix(rng, n, psd=rng.chance(0.7))
        return f"{kind} {fl([v for row in P for v in row])} {fl(box(rng, n, 2.0))} {f2h(rng.uniform(-2.0, 2.0))}", n
    fid = rng.choice(fn_ids)
    size = max(n, 2) if (fid == "rosenbrock" or "+" in fid) else (max(4, n - n % 4) if fid == "powell" else n)
    return f"{kind} {fid} {n} {rng.choice([1, 7])}", size


def gen_constraints(rng, tier):
    d = dump()
    fn_ids = sorted({r["id"] for r in d["fns"]})
    ops = []
    reps = 4 if tier == "quick" else 20
    for kind in CT_KINDS:
        for n in ([1, 2, 3, 5, 8] if tier == "quick" else range(1, 13)):
            for _ in range(reps):
                spec, size = ct_spec(rng, kind, n, fn_ids)
                ops += generic_ops(rng, ("ct", spec), size, n_cd=2, n_cvx=2, climb_steps=(20 if tier == "quick" else 100))
    # DESIGN §6 item 7: the claim is generated with symmetric P above; a non-symmetric P is accepted by compatible() as
    # well, so a few are generated too (tagged; any failure on them is keyed quadratic-constraint:nonsymmetric-P)
    for kind in ("quadratic-eq", "quadratic-ineq"):
        for n in (2, 3):
            for _ in range(2 if tier == "quick" else 10):
                P = [[rng.range(-4, 4) * 0.5 if i != j else rng.range(1, 4) * 1.0 for j in range(n)] for i in range(n)]
                if all(P[i][j] == P[j][i] for i in range(n) for j in range(n)):
                    P[0][1] += 1.0
                spec = f"{kind} {fl([v for row in P for v in row])} {fl(box(rng, n, 1.0))} {f2h(0.5)}"
                ops += generic_ops(rng, ("ct", spec), n, n_cd=2, n_cvx=2, climb_steps=20, tag="nonsym")
    return ops


# -- ML objectives ----------------------------------------------------------------------------------------

def data_spec(rng, S, I, ttype, K):
    inputs = box(rng, S * I, 1.0)
    if ttype == "R":
        targets = fl(box(rng, S * K, 2.0))
    elif ttype == "S":
        targets = lst([rng.below(K) for _ in range(S)])
    else:
        targets = lst([rng.below(2) for _ in range(S * K)])
    return f"{S} {I} {ttype} {K} {fl(inputs)} {targets}"


def loss_for(rng, d, ttype):
    ids = [L["id"] for L in d["losses"]]
    if ttype == "R":
        return rng.choice(REG_LOSSES)
    if ttype == "S":
        return rng.choice([i for i in ids if i.startswith("s-")])
    return rng.choice([i for i in ids if i.startswith("m-")])


def gen_objectives(rng, tier):
    d = dump()
    ops = []
    reps = 12 if tier == "quick" else 80
    cs = 20 if tier == "quick" else 150
    for _ in range(reps):
        ttype = rng.choice(["R", "S", "M"])
        K = rng.range(1, 3) if ttype != "S" else rng.range(2, 4)
        S, I = rng.range(3, 14), rng.range(1, 4)
        lid = loss_for(rng, d, ttype)
        alpha = rng.choice([0.1, 0.5, 0.8])
        head = f"{lid} {f2h(alpha)} {rng.range(1, 5)} {rng.range(1, 2)} {data_spec(rng, S, I, ttype, K)}"
        # linear model: x = [W (K x I) | b (K)]
        l1 = rng.choice([0.0, 0.0, 0.5, 10.0])
        l2 = rng.choice([0.0, 1.0, 100.0, 1e3])
        size = (I + 1) * K
        spec = ("lin", f"{head} {f2h(l1)} {f2h(l2)}")
        ops += generic_ops(rng, spec, size, n_cd=2, n_cvx=2, climb_steps=cs)
        # the same with directions that move only the weights / only the bias (the declared mu covers the weights only)
        x = box(rng, size, 1.0)
        zw = [a + (rng.uniform(-1.0, 1.0) if i < I * K else 0.0) for i, a in enumerate(x)]
        zb = [a + (rng.uniform(-1.0, 1.0) if i >= I * K else 0.0) for i, a in enumerate(x)]
        ops.append(f"lin cvx {spec[1]} {pts([x, zw])} #weights-only")
        ops.append(f"lin cvx {spec[1]} {pts([x, zb])} #bias-only")
        if l1 > 0.0:
            x0 = [0.0 if (i < I * K and rng.chance(0.5)) else a for i, a in enumerate(x)]
            ops += generic_ops(rng, spec, size, 0, 0, 0, x0s=[x0], tag="kink")
        ops += generic_ops(rng, ("gbias", head), K, n_cd=2, n_cvx=2, climb_steps=cs)
        ops += generic_ops(rng, ("ggrads", head), S * K, n_cd=2, n_cvx=2, climb_steps=cs)
        G = rng.range(1, 3)
        groups = [rng.range(-1, G - 1) for _ in range(S)]
        gs = f"{head} {G} {lst(groups)} {fl(box(rng, S * K, 2.0))} {fl(box(rng, S * K, 2.0))}"
        ops += generic_ops(rng, ("gscale", gs), G, n_cd=2, n_cvx=2, climb_steps=cs)
    for _ in range(reps):
        S, P = rng.range(2, 12), rng.range(1, 3)
        lid = rng.choice(REG_LOSSES)
        spec = ("sfit", f"{lid} {f2h(rng.choice([0.2, 0.5]))} {S} {P} {fl(box(rng, S * P, 2.0))} {fl(box(rng, S, 3.0))}")
        ops += generic_ops(rng, spec, (P + 1) * (P + 2) // 2, n_cd=2, n_cvx=2, climb_steps=cs)
        n = rng.range(1, 4)
        spec = ("squad", fl(box(rng, (n + 1) * (n + 2) // 2, 2.0)))
        ops += generic_ops(rng, spec, n, n_cd=2, n_cvx=1, climb_steps=0)
    return ops


def gen(rng, tier):
    ops = []
    cp = os.path.join(vlib.VERIF, "corpus", "C06", "ops.txt")
    if os.path.exists(cp):
        ops += [l.strip() for l in open(cp) if l.strip() and not l.startswith("#")]
    ops += gen_functions(rng.fork(), tier)
    ops += gen_losses(rng.fork(), tier)
    ops += gen_constraints(rng.fork(), tier)
    ops += gen_objectives(rng.fork(), tier)
    return ops


# ---------------------------------------------------------------------------------------------------------
# op parsing shared by oracle / classify / model_skip

def split_tag(op):
    t = op.split()
    if t and t[-1].startswith("#"):
        return t[:-1], t[-1][1:]
    return t, None


def obj_id(t):
    fam = t[0]
    if fam in ("fn", "loss", "ct"):
        if fam == "ct" and t[2].startswith("functional"):
            return f"ct:{t[2]}({t[3]})"
        return f"{fam}:{t[2]}"
    return f"{fam}:{t[2]}" if len(t) > 2 else fam


def modelled_fn(fid):
    return fid in MODELLED_FN or "+" in fid  # the elastic-net prototypes <loss>+<ridge|lasso|elasticnet>[..]


def model_skip(aug):
    t, _ = split_tag(aug)
    if len(t) < 3:
        return True
    fam, op = t[0], t[1]
    if fam == "loss":
        return op not in ("sample", "eval")
    if op != "eval":
        return True
    if fam == "fn":
        return not modelled_fn(t[2])
    if fam == "ct":
        if t[2].startswith("functional"):
            return not modelled_fn(t[3])
        return t[2] not in MODELLED_CT
    return True


def compare(aug, impl, model):
    """relative 1e-9 per number, or absolute 1e-13 x the largest magnitude on the line (cancelling entries such as the
    softmax gradient minus one next to entries of size 1)"""
    t, _ = split_tag(aug)
    a = impl.split()
    if t[0] == "loss" and t[1] == "sample" and len(a) > 2:
        a = a[:-2]  # the declared flags are not part of the model's answer
    b = model.split()
    if len(a) != len(b):
        return False
    vals = [abs(h2f(x)) for x in a if vlib.is_hexf(x) and len(x) == 16]
    vals = [v for v in vals if v == v and v != math.inf]
    atol = 1e-13 * max(vals + [0.0])
    if t[0] == "loss" and t[2] == "s-classnll":
        atol = max(atol, 1e-13)  # soft-max probability (of size 1) minus one at the positive target
    for x, y in zip(a, b):
        if x == y:
            continue
        if vlib.is_hexf(x) and vlib.is_hexf(y):
            if not vlib.close(h2f(x), h2f(y), RTOL, atol):
                return False
        else:
            return False
    return True


# ---------------------------------------------------------------------------------------------------------
# oracle: the property statement evaluated on the implementation's answers

def dotp(a, b):
    return math.fsum(x * y for x, y in zip(a, b))


def sub(a, b):
    return [x - y for x, y in zip(a, b)]


def read_object(t):
    """skips the object spec; returns (family, id, size or None, info)"""
    fam = t.s()
    op = t.s()
    info = {}
    if fam == "fn":
        fid = t.s(); t.int(); t.int()
        return fam, op, fid, info
    if fam == "loss":
        lid = t.s(); info["alpha"] = t.f(); info["target"] = t.fs()
        return fam, op, lid, info
    if fam == "ct":
        kind = t.s()
        if kind in ("constant", "minimum", "maximum"):
            t.int(); t.f(); t.int()
        elif kind.startswith("ball") or kind.startswith("linear"):
            t.fs(); t.f()
        elif kind.startswith("quadratic"):
            info["P"] = t.fs(); t.fs(); t.f()
        else:
            kind = f"{kind}({t.s()})"; t.int(); t.int()
        return fam, op, kind, info
    if fam in ("lin", "gbias", "ggrads", "gscale"):
        lid = t.s(); t.f(); t.int(); info["threads"] = t.int()
        S, I = t.int(), t.int(); tt = t.s(); K = t.int()
        t.fs()
        if tt == "R":
            t.fs()
        else:
            t.ints()
        info.update(S=S, I=I, K=K, ttype=tt)
        if fam == "lin":
            info["l1"] = t.f(); info["l2"] = t.f()
        if fam == "gscale":
            t.int(); t.ints(); t.fs(); t.fs()
        return fam, op, lid, info
    if fam == "sfit":
        lid = t.s(); t.f(); t.int(); t.int(); t.fs(); t.fs()
        return fam, op, lid, info
    if fam == "squad":
        t.fs()
        return fam, op, "quadratic-surrogate", info
    raise ValueError("family " + fam)


def same_value(info, f0, f1):
    """value-only vs value+gradient call: identical bits, except that the ML objectives evaluated by more than one worker thread
    add the per-thread partial sums in scheduling order (relative 1e-12 there)"""
    if f2h(f0) == f2h(f1):
        return True
    return info.get("threads", 1) > 1 and vlib.close(f0, f1, 1e-12, 0.0)


def finite(*vs):
    return all(v == v and abs(v) != math.inf for v in vs)


def check_convex(name, fam, info, mu, x, fx, gx, z, fz):
    """f(z) >= f(x) + g.(z-x) + mu/2 |z-x|^2 up to rounding; returns None or '[key] why'"""
    dz = sub(z, x)
    gd = dotp(gx, dz)
    q = 0.5 * mu * dotp(dz, dz)
    scale = abs(fx) + abs(fz) + math.fsum(abs(a * b) for a, b in zip(gx, dz)) + q
    # + rounding of the evaluation itself: values are formed from intermediates of the size of the coordinates (e.g.
    # s-classnll adds and subtracts the largest output), so an absolute error of a few ulps of max|x_i|, |z_i| is noise
    tol = 1e-9 * scale + 64.0 * EPS * max([1.0] + [abs(v) for v in x] + [abs(v) for v in z])
    if not finite(fx, fz, gd):
        return f"[{name}:non-finite] non-finite value or gradient: f(x)={fx} f(z)={fz} g.(z-x)={gd}"
    viol = fx + gd + q - fz
    if viol <= tol:
        return None
    plain = fx + gd - fz
    if mu > 0.0 and plain <= tol:
        key = f"{name}:strong-convexity"
        if fam == "lin":
            nW = info["I"] * info["K"]
            bias_moves = any(v != 0.0 for v in dz[nW:])
            key = "linear-function:strong-convexity:bias-direction" if bias_moves else "linear-function:strong-convexity:weights-only"
        return (f"[{key}] declared mu={mu:g}: f(z)={fz!r} < f(x)+g.(z-x)+mu/2|z-x|^2={fx + gd + q!r} (violation {viol:.3e} > tol "
                f"{tol:.1e}) although f(z) >= f(x)+g.(z-x) holds")
    key = f"{name}:convexity"
    if name in ("fn:chained_cb3I", "fn:chained_cb3II") and cb3_on_tie(name, x):
        key = "chained_cb3-tie-subgradient"
    return (f"[{key}] declared convex but f(z)={fz!r} < f(x)+g.(z-x)={fx + gd!r} (violation {plain:.3e} > tol {tol:.1e}; "
            f"|z-x|={math.sqrt(dotp(dz, dz)):.3g})")


def cb3_on_tie(name, x):
    if name.endswith("II"):
        s1 = s2 = s3 = 0.0
        for a, b in zip(x, x[1:]):
            v1, v2, v3 = cb3_values(a, b)
            s1 += v1; s2 += v2; s3 += v3
        return abs(s1 - s2) <= 1e-12 * (abs(s1) + 1.0) and s1 >= s3
    for a, b in zip(x, x[1:]):
        v1, v2, v3 = cb3_values(a, b)
        if abs(v1 - v2) <= 1e-12 * (abs(v1) + 1.0) and v1 >= v3:
            return True
    return False


def check_cd(name, smooth, P, f, g):
    """difference quotients at two step sizes against g.(dx); P = the five stencil points, f = their values"""
    if not finite(*f) or not finite(*g):
        return f"[{name}:non-finite] non-finite value or gradient on the stencil"
    D1 = f[1] - f[2]
    D2 = f[3] - f[4]
    gd2 = dotp(g, sub(P[3], P[4]))
    F = max(abs(v) for v in f)
    noise = 2e-11 * F + 1e-300
    tol = 1e-6 * abs(gd2) + 2.0 * abs(D1 - 2.0 * D2) + noise
    if abs(D2 - gd2) <= tol:
        return None
    if not smooth:
        a = f[3] - f[0]
        b = f[0] - f[4]
        c1 = dotp(g, sub(P[3], P[0]))
        c2 = dotp(g, sub(P[0], P[4]))
        lo, hi = min(a, b), max(a, b)
        t2 = 1e-6 * max(abs(c1), abs(c2)) + noise + 2.0 * abs(D1 - 2.0 * D2)
        if lo - t2 <= c1 <= hi + t2 and lo - t2 <= c2 <= hi + t2:
            return None
        key = f"{name}:difference-quotient:kink"
        if name in ("fn:chained_cb3I", "fn:chained_cb3II") and cb3_on_tie(name, P[0]):
            key = "chained_cb3-tie-subgradient"
        return (f"[{key}] g.dx={c1!r} is not between the one-sided differences {a!r}, {b!r} "
                f"(central {D2!r} vs {gd2!r}, tol {tol:.2e})")
    return f"[{name}:difference-quotient] central difference {D2!r} != g.dx {gd2!r} (|diff| {abs(D2 - gd2):.3e} > tol {tol:.2e})"


def sign_rule_errors(t, o, eps_zone=1e-9):
    """(min, max) number of sign disagreements; an output inside (-eps_zone, eps_zone) but not 0 may count either way"""
    lo = hi = 0
    for ti, oi in zip(t, o):
        if oi == 0.0:
            lo += 1; hi += 1
        elif abs(oi) < eps_zone:
            hi += 1
        elif (ti > 0) != (oi > 0):
            lo += 1; hi += 1
    return lo, hi


def oracle_sample(t):
    lid = t.s(); alpha = t.f(); T = t.fs(); O = t.fs()
    return lid, alpha, T, O


def nonsymmetric_P(op):
    t, _ = split_tag(op)
    if len(t) < 4 or t[0] != "ct" or not t[2].startswith("quadratic"):
        return False
    n2 = int(t[3])
    n = int(round(math.sqrt(n2)))
    P = [h2f(v) for v in t[4:4 + n2]]
    return any(P[i * n + j] != P[j * n + i] for i in range(n) for j in range(n))


def oracle(op, res):
    why = oracle_(op, res)
    if why and nonsymmetric_P(op):
        why = "[quadratic-constraint:nonsymmetric-P] " + re.sub(r"^\[[^\]]*\]\s*", "", why)
    return why


def oracle_(op, res):
    toks, tag = split_tag(op)
    t = Toks(" ".join(toks))
    r = Toks(res)
    if r.s() != "ok":
        return f"[no-answer] implementation did not answer ok: {res[:120]}"
    fam, o = toks[0], toks[1]
    if fam == "loss" and o == "sample":
        t.s(); t.s()
        lid, alpha, T, O = oracle_sample(t)
        value = r.f(); g = r.fs(); err = r.f(); convex = r.int(); r.int()
        name = "loss:" + lid
        if not finite(value, err, *g):
            return f"[{name}:non-finite] non-finite value/gradient/error"
        npos = sum(1 for v in T if v > 0)
        if value < 0.0 and not (lid == "s-classnll" and npos != 1):
            return f"[{name}:negative-value] loss value {value!r} < 0"
        if err < 0.0:
            return f"[{name}:negative-error] error {err!r} < 0"
        n = len(T)
        if lid.startswith("m-") or (lid.startswith("s-") and n == 1):
            lo, hi = sign_rule_errors(T, O)
            if not (lo <= err <= hi and err == int(err)):
                return f"[{name}:sign-rule] 0-1 error {err!r} but the sign rule counts {lo}..{hi} mismatches"
        elif lid.startswith("s-"):
            m = max(O)
            allowed = {0.0 if T[i] > 0 else 1.0 for i in range(n) if O[i] == m}
            if err not in allowed:
                return f"[{name}:argmax-rule] 0-1 error {err!r} but the arg-max label gives {sorted(allowed)}"
        elif lid == "pinball":
            if err != value:
                return f"[{name}:error] pinball error {err!r} != its value {value!r}"
        else:
            l1 = math.fsum(abs(a - b) for a, b in zip(T, O))
            if not vlib.close(err, l1, 1e-12, 1e-300):
                return f"[{name}:error] error {err!r} != L1 distance {l1!r}"
        return None
    if fam == "loss" and o == "batch":
        vals = []
        while not r.done():
            vals.append(r.fs())
        if len(vals) != 6:
            return "[loss:batch] malformed answer"
        # the same numbers up to rounding: Eigen evaluates exp/log with packet or scalar code depending on the alignment of
        # the sample inside the batch (1 ulp apart); errors (counts / L1 distances) and everything else must agree to 1e-12
        for k, what in enumerate(("value", "error", "gradient")):
            a, b = vals[k], vals[k + 3]
            atol = 1e-13 * max([abs(v) for v in a if finite(v)] + [0.0])
            if len(a) != len(b) or not all(vlib.close(x, y, 1e-12, atol) for x, y in zip(a, b)):
                return f"[loss:{toks[2]}:batch-dependence] {what} of a sample differs between batch and single evaluation"
        return None
    fam, o, oid, info = read_object(t)
    name = f"{fam}:{oid}" if fam in ("fn", "loss", "ct") else fam
    if o == "eval":
        x = t.fs()
        size = r.int(); f0 = r.f(); f1 = r.f(); g = r.fs()
        if size != len(x) or len(g) != size:
            return f"[{name}:size] size {size}, point {len(x)}, gradient {len(g)}"
        if not same_value(info, f0, f1):
            return f"[{name}:value-only-differs] value-only call {f0!r} != value+gradient call {f1!r}"
        if not finite(f0, *g):
            return f"[{name}:non-finite] non-finite value or gradient"
        return None
    if o in ("cd", "cvx"):
        k = t.int()
        P = [t.fs() for _ in range(k)]
        convex = r.int(); smooth = r.int(); mu = r.f()
        f0 = r.f(); f1 = r.f(); g = r.fs()
        fs = [f1] + [r.f() for _ in range(k - 1)]
        if not same_value(info, f0, f1):
            return f"[{name}:value-only-differs] value-only call {f0!r} != value+gradient call {f1!r}"
        if o == "cd":
            if k != 5:
                return "[cd] needs 5 points"
            return check_cd(name, bool(smooth), P, fs, g)
        if not convex:
            return None
        for z, fz in zip(P[1:], fs[1:]):
            why = check_convex(name, fam, info, mu, P[0], f1, g, z, fz)
            if why:
                return why
        return None
    if o == "climb":
        convex = r.int(); r.int(); mu = r.f()
        x = r.fs(); z = r.fs(); f0 = r.f(); f1 = r.f(); g = r.fs(); fz = r.f()
        if not same_value(info, f0, f1):
            return f"[{name}:value-only-differs] value-only call {f0!r} != value+gradient call {f1!r}"
        if not convex:
            return None
        why = check_convex(name, fam, info, mu, x, f1, g, z, fz)
        if why:
            return why + f" at x={x} z={z}"
        return None
    return f"[unknown-op] {o}"


def classify(op, kind, detail):
    if kind == "oracle":
        m = re.match(r"\[([^\]]+)\]", detail or "")
        if m:
            return m.group(1)
    t, _ = split_tag(op)
    if kind == "corr":
        return "corr:" + obj_id(t)
    return (kind + ":" + obj_id(t)) if len(t) > 2 else kind


def nontrivial(op):
    t, tag = split_tag(op)
    if tag:
        return True
    if len(t) < 4:
        return False
    fam, o = t[0], t[1]
    try:
        if fam == "loss":
            return int(t[4]) >= 2  # number of outputs (length of the target list)
        if fam == "fn":
            return int(t[3]) >= 2
    except ValueError:
        return False
    return True


def distribution(ops):
    d = {}
    for op in ops:
        t, tag = split_tag(op)
        k = f"{t[0]}/{t[1]}" + (f"#{tag}" if tag else "")
        d[k] = d.get(k, 0) + 1
    return d


def shrink_candidates(op):
    """fewer comparison points; coordinates of z pulled onto x; rounder coordinates"""
    toks, tag = split_tag(op)
    if len(toks) < 3 or toks[1] != "cvx":
        return
    t = Toks(" ".join(toks))
    try:
        fam, o, oid, info = read_object(t)
        head = toks[:t.i]
        k = t.int()
        P = [t.fs() for _ in range(k)]
    except Exception:
        return
    tg = f" #{tag}" if tag else ""
    mk = lambda pts_: " ".join(head) + " " + pts(pts_) + tg
    if k > 2:
        for j in range(1, k):
            yield mk([P[0], P[j]])
        return
    x, z = P
    for i in range(len(x)):
        if z[i] != x[i]:
            z2 = list(z); z2[i] = x[i]
            if z2 != x:
                yield mk([x, z2])
    for digits in (1, 2, 3):
        z2 = [xi + round(zi - xi, digits) for xi, zi in zip(x, z)]
        if z2 != z and z2 != x:
            yield mk([x, z2])
