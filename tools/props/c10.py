"""C10 — weak learners fit residuals optimally in their class and predict consistently (DESIGN.md §4 C10).

Op line (one self-contained case per line; doubles as 16 hex digits, `nan` = missing scalar value):
  wl <kind> <p1> <p2> <crit> <threads> <N> <T> <F> {feature}*F <grads N*T> <base N*T> <samples> <scalemode> <svals>
     <sub samples> <K> {<samples>}*K
  kind    affine | stump | hinge | dense | dstep | kbest | ksplit | dtree   (p1 p2 = max_depth min_split for dtree, else 0 0)
  feature S <classes> l_1..l_N (-1 missing) | M <classes> m_1..m_N (bit c = label c, -1 missing) | F v_1..v_N
          (the features are grouped S*, M*, F*: the order in which the identity generators are added)
  crit    0 rss, 1 aic, 2 aicc, 3 bic;  threads = size of the dataset's thread pool (1..16)
  grads / base: gradient tensor (residual = -gradient) and the outputs the predictions are added to
  samples: the fitted sample list (any subset, repetitions allowed); sub: another list used to check that predictions depend
  only on the sample; scalemode 0: scale(vector of size 1), 1: one factor per table row (svals cycled); the K extra lists fit
  K more learners of the same kind, then wlearner::merge is applied to the list
Result line (harness/c10.cpp): `ok fit <score>|nofit feat … thr … dir … hashes … h2t … nodes … tables … pred … groups … split …
  sub … scaled … extra … merge <count> before … after … mfeat … [stump1 …]`
Every fit (decision trees, k-best / k-split tables included) is computed by the Lean model itself and compared with the
implementation's; the oracle re-derives the tree (breadth-first greedy, brute-force stump per node), the k-best family (all
subsets) and the k-split family (greedy agglomeration) independently in python.
translate() (c10_translate.py) regenerates Gen/WLearner{Criterion,Accumulator,Sweep,Table}.lean from the source text of the tree under check:
make_score / AIC / AICc / BIC, the accumulator closed forms, the affine / stump / hinge score, coefficient, threshold, acceptance and
predict formulas; the `model_*_is_generated` obligations (Proofs/WLearnerGen.lean) state that the model text is the generated one.
"""
import math, os
import vlib
from vlib import Toks, lst, f2h, h2f
from props import c10_translate

ID = "C10"
LEVEL = "proof"
HARNESS = "c10"
LEAN_MODULES = ["NanoVerif.Props.C10"]
NS = "NanoVerif.WLearner."
OBLIGATIONS = [NS + t for t in [
    "const_fit_optimal", "affine_fit_optimal", "affine_constant_branch_optimal", "running_moments_eq_prefix",
    "stump_fit_optimal", "stump_fit_eq_brute", "hinge_fit_eq_brute", "table_fit_eq_brute", "dstep_fit_optimal",
    "fit_predict_reproduces_rss", "fit_assignment_independent", "table_fit_assignment_independent",
    "table_cache_eq_first_best", "old_fit_assignment_dependent",
    "predict_adds", "predict_missing_zero", "predict_eq_table_of_split", "scale_scales", "merge_preserves_sum",
    "mergeSort_sortSpec", "sweep_sound", "sweep_complete", "findHash_sorted",
    # the fit of the decision tree (Model/WLearnerTree.lean)
    "dtreeFit_fuel_enough", "dtree_depth1_eq_stump", "dtree_fit_wellformed", "dtree_leaves_partition",
    "dtree_leaf_table_is_mean", "dtree_leaf_rows_are_means", "tbase_inj", "tbase_surj", "TInv.step", "dtreeFit_inv", "TInv.entry_origin", "route_forward", "route_through",
    "stumpCands_means",
    # the fits of the k-best / k-split tables (Model/WLearnerKTable.lean)
    "dtree_fit_predict_reproduces_rss", "kbest_fit_predict_reproduces_rss", "ksplit_fit_predict_reproduces_rss",
    "cluTrials_rel", "cluRel_rss", "rssOfC_subsetTable", "kbest_contrib",
    "kbest_fit_eq_brute", "kbest_greedy_optimal_per_size", "ksplit_fit_eq_brute", "kbestCands_spec", "ksplitCands_spec",
    "cluScore_merge", "cluStep_spec", "closestPair_valid", "mergeSort_pairSortSpec", "lsum_take_le_sublist",
    # translation round (Proofs/WLearnerGen.lean): the model text IS the text regenerated from the C++ source (c10_translate.py)
    "model_crit_code_is_generated", "model_aic_is_generated", "model_score_is_generated", "model_scoreFloor_is_generated", "model_fitConstant_is_generated",
    "model_upd_moments_is_generated", "model_upd_residuals_is_generated", "model_affineConst_is_generated",
    "model_affineW_is_generated", "model_affineB_is_generated", "model_affineRss_is_generated", "model_affineCand_is_generated",
    "model_lin_is_generated", "model_sideScore_is_generated", "model_sweep_is_generated_stump", "model_sweep_is_generated_hinge",
    "model_momSub_is_generated", "model_stumpCand_is_generated", "model_pick_is_generated", "model_stump_predict_is_generated",
    "model_hingeBeta_is_generated", "model_hingeSide_is_generated", "model_hingeCands_is_generated",
    "model_hinge_predict_is_generated", "model_binScore_is_generated", "model_cluScore_is_generated", "model_tableK_is_generated",
    "model_pickLex_is_generated",
]]


def translate():
    """Gen/WLearnerCriterion.lean, Gen/WLearnerAccumulator.lean, Gen/WLearnerSweep.lean, Gen/WLearnerTable.lean: the scalar formulas of
    criterion.cpp / stats.h, accumulator.h / affine.cpp, stump.cpp / hinge.cpp, table.cpp / accumulator.cpp re-translated from the source text of the tree under check"""
    return c10_translate.translate()


TRUSTED = [
    "Lean 4.33.0 kernel; Mathlib modules Mathlib.Algebra.Order.Field.Basic, Mathlib.Algebra.Order.Field.Rat, "
    "Mathlib.Tactic.Ring/Linarith/Positivity/FieldSimp/NormNum (only in Proofs/WLearner*.lean and Props/C10.lean)",
    "axioms: at most propext, Classical.choice, Quot.sound (audited per theorem on every run)",
    "hand-written generic-scalar model NanoVerif/Model/WLearner.lean (+ WLearnerTree.lean: dtree do_fit, WLearnerKTable.lean: "
    "score_kbest / score_ksplit / accumulator_t::sort / cluster) of src/wlearner/{stump,hinge,affine,table,dtree,accumulator,"
    "criterion,util,single}.cpp, src/machine/cluster.cpp (indices), include/nano/core/reduce.h, src/dataset/hash.cpp; tied to the "
    "code by the correspondence run: "
    "harness/c10.cpp builds an in-memory datasource/dataset from the op line (1..16 pool threads), calls fit / predict / split / "
    "scale / clone / wlearner::merge / features of the real learners, vs the same model compiled at Float (driver_c10)",
    "Lean Float = g++ double for + - * / log in the same order (no -ffast-math, no FMA contraction on the x86-64 baseline); Eigen "
    "may sum the <= 3 outputs in another order: scores / tables / predictions are compared with rtol 1e-9, atol 1e-12",
    "std::sort returns a sorted permutation (SortSpec; List.mergeSort with the pair order is proved to be one); the pool hands "
    "every feature chunk to exactly one worker (C17) - hypothesis hperm of fit_assignment_independent - and every worker sees its "
    "features in increasing index order (pool_t::map: chunks enqueued in order into a FIFO queue; hypothesis WorkersSorted, needed "
    "for affine / stump / hinge only: the table caches compare (score, feature) themselves, table_fit_assignment_independent)",
    "tools/props/c10_translate.py: the translator (expression parser of c14_translate.py, sub-classed) of make_score / AIC / AICc / BIC, "
    "accumulator_t::fit_constant / rss_zero / update, affine cache_t::constant / w / b / rss_affine / score, stump and hinge ::score / ::beta / "
    "*_pos / output_* / score_neg / score_pos, the sweep's distinct-values rule, mid-point threshold and acceptance rule, the predict / split "
    "elements, the table learners' per-bin / per-cluster RSS, parameter counts, rows, acceptance rule and sort key into "
    "Gen/WLearner{Criterion,Accumulator,Sweep,Table}.lean; Proofs/WLearnerGen.lean proves the model text equal to it (any scalar type)",
    "tools/props/c10.py generator + independent python oracle (brute force over features x mid-point thresholds x directions / "
    "label sets with least-squares coefficients from centred sums); harness/c10.cpp; g++/libstdc++/Eigen",
]
ASSUMPTIONS = [
    "theorems are about exact arithmetic (any linear ordered field) and the RSS criterion; AIC/AICc/BIC (std::log) are modelled "
    "at Float and covered by the correspondence run and the consistency clauses of the oracle only",
    "hfin: no computed score overflows (std::isfinite true); hbig: every computed score is below no_fit_score() = DBL_MAX",
    "every fit is modelled (the augmented op only carries epsilon1): the decision tree as the breadth-first loop of do_fit with the "
    "stump fit at every node as an oracle (instantiated by the modelled stump fit), k-best as the prefix sums of the sorted deltas, "
    "k-split as the greedy agglomeration of accumulator_t::cluster; std::sort of the (delta, bin) pairs is the oracle PairSortSpec "
    "(any sorted permutation; the driver's mergeSort is proved to be one); theorems about kbest / ksplit optimality are for the RSS "
    "criterion (+ kbest_greedy_optimal_per_size for every criterion); the k-split choice for a FIXED number of clusters is greedy and "
    "not optimal (kernel-checked counterexample in Props/C10.lean); the fit-predict consistency (the RSS handed to make_score is the "
    "RSS of the stored table's predictions) is proved for every k-best and every k-split candidate and every criterion "
    "(kbest_fit_predict_reproduces_rss, ksplit_fit_predict_reproduces_rss) and checked by the python oracle for all 4 criteria",
    "a tree whose stump selection at some node is decided by rounding in the model (runner-up within 1e-9 relative, not exactly equal) "
    "is not compared (the driver prints a tiny gap); exact ties are compared; the python tree oracle accepts any node stump within "
    "10*tol of the brute-force optimum of that node's samples",
    "selection-dependent fields are compared with the model when the gap between the best and the second-best candidate score "
    "exceeds 1e-9*max(1,|score|) OR is exactly 0 (exact ties - duplicated columns, symmetric integer data - go to the smallest "
    "feature index / the first candidate of the sweep since commits 62472c9 + 5de0896, for every thread count); only the band "
    "0 < gap <= 1e-9*max(1,|score|) (winner decided by rounding) stays uncompared; the gap is the model's (driver at Float): an "
    "exact tie of the model that is not one of the implementation (outputs summed in another order) would be a reported "
    "correspondence difference; the oracle's clauses are independent of the model and always apply, among them: a selected "
    "feature never has an identical column at a smaller index; the root of a tree is the stump fit, ties included",
    "oracle tolerance: |score - max(brute-force minimum RSS, 1e3*eps)| <= 1e-9 * max(1, sum of squared residuals of the fitted "
    "samples) + 1e3*eps; data are integers / dyadic / one-decimal values in [-30, 30] so that the accumulated sums are (nearly) "
    "exact; scalar features whose relative variance lies strictly between rounding noise and epsilon1 (1e-10) are not generated "
    "(there affine's constant() guard deliberately prefers the constant fit)",
    "memory safety (ASan/UBSan) is observed in the thorough tier only; dtree_wlearner_t::do_split reports groups() = leaves * "
    "outputs (element count of the tables, not rows): mirrored by the model, group ids are checked against the table rows",
]
RULE = ("corpus (the three fixed defects: dstep all-missing feature, affine constant feature, kbest unsorted hashes; duplicated "
        "columns under 2..16 threads) first; "
        "exhaustive small: 3 samples x one scalar feature in {0, 1, missing}^3 x gradients {-1, 0, 1}^3 for stump / hinge / affine and "
        "one 2-class feature in {0, 1, missing}^3 for dense / dstep / kbest / ksplit (sampled 10% in quick, all 5103 in thorough); random "
        "structured: 2..60 samples (45% <= 8), 1..8 features grouped single-label / multi-label (1..6 classes, label sets from a small "
        "pool or uniform, 12% duplicated columns) / scalar (small integers with ties, dyadic, one-decimal, two-valued, constant, duplicated "
        "column - 60% of those exact copies), missing "
        "rate 0 / 0.1 / 0.3 / 0.6 / all, 1..3 outputs, integer / quarter / sparse gradients (8% planted stump / table residuals -> "
        "clamped score), fitted sample lists: all / shuffled / subset / with repetitions / two samples, criterion rss 70%, "
        "threads 1..16, scale vector of size 1 or one factor per table row, 0..3 extra fits merged; every 12th case a GROWING tree "
        "(6..200 samples, 1..5 scalar features with mostly distinct values, few missing values, max_depth 1..5, min_split 1..10, fitted "
        "lists with repetitions / subsets) and every 10th a k-best / k-split case with 3..8 label sets, residual levels per group of "
        "labels + noise, AIC / AICc / BIC 6 of 7 (so that bins are dropped / clusters merged); affine on a constant non-dyadic "
        "feature with N = 2..10 on purpose; a case is non-trivial when a fitted feature has ties or missing values, the sample "
        "list has repetitions or 2 entries; distinct by op text")
FLAVOUR = {"quick": "plain", "thorough": "asan"}
HARNESS_TIMEOUT = 1500
RTOL = 1e-9
ATOL = 1e-12

NAN = float("nan")
INF = float("inf")
CLAMP = 2.0 ** -52 * 1e3
KINDS = ["stump", "hinge", "affine", "dense", "dstep", "kbest", "ksplit", "dtree"]
SCALAR_KINDS = ("stump", "hinge", "affine", "dtree")
OPTIMAL_KINDS = ("stump", "hinge", "affine", "dense", "dstep")
KEYWORDS = {"fit", "feat", "thr", "dir", "hashes", "h2t", "nodes", "tables", "pred", "groups", "split", "sub", "scaled",
            "extra", "merge", "before", "after", "mfeat", "stump1"}


# ---------------------------------------------------------------------------------------------------------
# op text <-> case

def fmt(c):
    t = ["wl", c["kind"], str(c["p1"]), str(c["p2"]), str(c["crit"]), str(c["threads"]), str(c["N"]), str(c["T"]),
         str(len(c["feats"]))]
    for f in c["feats"]:
        if f[0] == "F":
            t += ["F"] + [f2h(v) for v in f[1]]
        else:
            t += [f[0], str(f[1])] + [str(v) for v in f[2]]
    t += [f2h(g) for g in c["grads"]]
    t += [f2h(b) for b in c["base"]]
    t.append(lst(c["samples"]))
    t.append(str(c["scalemode"]))
    t.append(lst(c["svals"], f2h))
    t.append(lst(c["sub"]))
    t.append(str(len(c["extras"])))
    for e in c["extras"]:
        t.append(lst(e))
    return " ".join(t)


def parse(op):
    t = Toks(op.split(" | ")[0])
    assert t.s() == "wl"
    c = dict(kind=t.s(), p1=t.int(), p2=t.int(), crit=t.int(), threads=t.int(), N=t.int(), T=t.int())
    F = t.int()
    N, T = c["N"], c["T"]
    feats = []
    for _ in range(F):
        k = t.s()
        if k == "F":
            feats.append(("F", [t.f() for _ in range(N)]))
        else:
            cl = t.int()
            feats.append((k, cl, [t.int() for _ in range(N)]))
    c["feats"] = feats
    c["grads"] = [t.f() for _ in range(N * T)]
    c["base"] = [t.f() for _ in range(N * T)]
    c["samples"] = t.ints()
    c["scalemode"] = t.int()
    c["svals"] = t.fs()
    c["sub"] = t.ints()
    K = t.int()
    c["extras"] = [t.ints() for _ in range(K)]
    return c


def fvalue(f, i):
    """value of feature f for sample i; None = missing"""
    if f[0] == "F":
        v = f[1][i]
        return v if math.isfinite(v) else None
    v = f[2][i]
    return v if v >= 0 else None


def sections(res):
    """keyword -> token list of a result line (harness or model)"""
    toks = res.split()
    sec = {"head": []}
    cur = "head"
    for w in toks:
        if w in KEYWORDS:
            cur = w
            sec[cur] = []
        else:
            sec[cur].append(w)
    return sec


def floats(ws):
    return [h2f(w) for w in ws]


# ---------------------------------------------------------------------------------------------------------
# generator

def gen_scalar_feature(rng, N, others):
    mode = rng.choice(["int", "int", "dyadic", "decimal", "two", "const", "dup", "decimal", "int"])
    if mode == "dup" and not others:
        mode = "int"
    if mode == "int":
        m = rng.range(1, 6)
        vals = [float(rng.range(0, m)) for _ in range(N)]
    elif mode == "dyadic":
        vals = [rng.range(-24, 24) / 8.0 for _ in range(N)]
    elif mode == "decimal":
        vals = [rng.range(-30, 30) / 10.0 for _ in range(N)]
    elif mode == "two":
        a, b = rng.range(-4, 4) / 2.0, rng.range(5, 9) / 2.0
        vals = [a if rng.chance(0.5) else b for _ in range(N)]
    elif mode == "const":
        c = rng.choice([0.0, 1.0, -2.5, 0.125, 3.0])      # dyadic constants: x2*x0 - x1^2 is exactly 0
        vals = [c] * N
    else:
        vals = list(rng.choice(others)[1])
        if rng.chance(0.6):
            return ("F", vals)                      # an exact copy, missing values included: bit-identical scores
    pm = rng.choice([0.0, 0.0, 0.1, 0.3, 0.6])
    if rng.chance(0.02):
        pm = 1.0
    vals = [NAN if rng.chance(pm) else v for v in vals]
    return ("F", vals)


def gen_class_feature(rng, N, kind, others=()):
    if others and rng.chance(0.12):
        k, C, labs = rng.choice(list(others))        # duplicated column (exact tie); sometimes with other missing values
        pm = rng.choice([0.0, 0.0, 0.0, 0.2])
        return (k, C, [-1 if rng.chance(pm) else l for l in labs])
    C = rng.range(1, 6)
    pm = rng.choice([0.0, 0.0, 0.1, 0.3, 0.6])
    if rng.chance(0.02):
        pm = 1.0
    if kind == "S":
        labs = [rng.below(C) for _ in range(N)]
    else:
        pool = [rng.below(1 << C) for _ in range(rng.range(1, 6))] if rng.chance(0.6) else None
        labs = [(rng.choice(pool) if pool else rng.below(1 << C)) for _ in range(N)]
    labs = [-1 if rng.chance(pm) else l for l in labs]
    return (kind, C, labs)


def gen_values(rng, n, mode=None):
    mode = mode or rng.choice(["int", "int", "quarter", "sparse"])
    if mode == "int":
        return [float(rng.range(-4, 4)) for _ in range(n)]
    if mode == "quarter":
        return [rng.range(-12, 12) / 4.0 for _ in range(n)]
    return [float(rng.range(-3, 3)) if rng.chance(0.3) else 0.0 for _ in range(n)]


def gen_samples(rng, N):
    mode = rng.choice(["all", "all", "subset", "subset", "rep", "rep", "two", "shuffled"])
    if mode == "all":
        return list(range(N))
    if mode == "shuffled":
        return rng.shuffle(range(N))
    if mode == "subset":
        k = rng.range(1, N)
        return sorted(rng.shuffle(range(N))[:k]) if rng.chance(0.5) else rng.shuffle(range(N))[:k]
    if mode == "two":
        return [rng.below(N), rng.below(N)]
    return [rng.below(N) for _ in range(rng.range(1, N + N // 2))]


def all_missing_class_feature(c, samples=None):
    """some categorical feature is missing for every fitted sample (dstep: `mapping[0]` of an empty vector)"""
    samples = c["samples"] if samples is None else samples
    for f in c["feats"]:
        if f[0] != "F" and all(f[2][i] < 0 for i in samples):
            return True
    return False


def gen_case(rng, kind=None, small=False):
    kind = kind or rng.choice(["stump"] * 5 + ["hinge"] * 5 + ["affine"] * 4 + ["dense"] * 4 + ["dstep"] * 3 +
                                ["kbest"] * 2 + ["ksplit"] * 2 + ["dtree"] * 3)
    r = rng.unit()
    if small:
        N = rng.range(2, 6)
    elif kind == "dtree":
        N = rng.range(2, 60) if r < 0.5 else rng.range(20, 60)
    else:
        N = rng.range(2, 8) if r < 0.45 else (rng.range(9, 24) if r < 0.8 else rng.range(25, 60))
    T = rng.choice([1, 1, 2, 3])
    nF = rng.range(1, 3) if small else rng.range(1, 8)
    # how many of each type: the learner's own type is (almost always) present
    if kind in SCALAR_KINDS:
        nf = rng.range(1, nF) if not rng.chance(0.03) else 0
        rest = nF - nf
        ns = rng.range(0, rest); nm = rest - ns
    else:
        ncls = rng.range(1, nF) if not rng.chance(0.03) else 0
        nf = nF - ncls
        ns = rng.range(0, ncls); nm = ncls - ns
    if ns + nm + nf == 0:
        nf = 1
    feats = []
    for _ in range(ns):
        feats.append(gen_class_feature(rng, N, "S", feats))
    ms = []
    for _ in range(nm):
        ms.append(gen_class_feature(rng, N, "M", ms))
    feats += ms
    scal = []
    for _ in range(nf):
        scal.append(gen_scalar_feature(rng, N, scal))
    feats += scal
    grads = gen_values(rng, N * T)
    if rng.chance(0.08) and kind in ("stump", "dense"):
        # planted learner: residuals that a learner of the class fits exactly (clamped score)
        cands = [f for f in feats if (f[0] == "F") == (kind == "stump")]
        if cands:
            f = rng.choice(cands)
            for i in range(N):
                v = fvalue(f, i)
                for o in range(T):
                    if kind == "stump":
                        grads[i * T + o] = 0.0 if v is None else (-1.0 - o if v < 1.0 else 2.0 + o)
                    else:
                        grads[i * T + o] = 0.0 if v is None else float((v * 7 + o) % 5) - 2.0
    c = dict(kind=kind, p1=0, p2=0, crit=0 if rng.chance(0.7) else rng.range(1, 3), threads=rng.choice([1, 1, 2, 3, 4, 8, 16, rng.range(1, 16)]),
             N=N, T=T, feats=feats, grads=grads, base=gen_values(rng, N * T, rng.choice(["int", "quarter"])))
    if kind == "dtree":
        c["p1"] = rng.choice([1, 1, 2, 2, 3, 4])
        c["p2"] = rng.range(1, 10)
    c["samples"] = gen_samples(rng, N)
    c["scalemode"] = rng.below(2)
    c["svals"] = [rng.choice([0.0, 0.5, 1.0, 2.0, 3.0, 0.25, 1.5]) for _ in range(rng.range(1, 5))]
    c["sub"] = [rng.below(N) for _ in range(rng.range(0, N + 3))] if rng.chance(0.7) else list(reversed(c["samples"]))
    extras = []
    for _ in range(rng.choice([0, 0, 1, 1, 2, 3])):
        if rng.chance(0.6):
            e = rng.shuffle(c["samples"]) + [rng.choice(c["samples"]) for _ in range(rng.range(0, 3))]
        else:
            e = gen_samples(rng, N)
        extras.append(e)
    c["extras"] = extras
    return c


def gen_tree_case(rng):
    """decision trees that actually grow: many samples, scalar features with (mostly) distinct values, few missing values, so that
    the stump fits of the inner nodes succeed; `min_split` over its domain with N large enough for `min_samples_size` to vary
    in 0..10; max_depth 1..4 (5 rarely); fitted lists with repetitions (kept at the root only) and subsets"""
    N = rng.choice([rng.range(6, 30), rng.range(30, 80), rng.range(80, 160), rng.range(100, 200)])
    T = rng.choice([1, 1, 2])
    feats = []
    for _ in range(rng.choice([0, 0, 0, 1])):
        feats.append(gen_class_feature(rng, N, "S", feats))
    scal = []
    for _ in range(rng.range(1, 5)):
        mode = rng.choice(["wide", "wide", "perm", "int", "dup"])
        if mode == "dup" and not scal:
            mode = "perm"
        if mode == "wide":
            vals = [rng.range(-4 * N, 4 * N) / 4.0 for _ in range(N)]
        elif mode == "perm":
            vals = [float(v) for v in rng.shuffle(range(N))]
        elif mode == "int":
            m = rng.range(2, max(3, N // 2))
            vals = [float(rng.range(0, m)) for _ in range(N)]
        else:
            vals = list(rng.choice(scal)[1])
        pm = rng.choice([0.0, 0.0, 0.0, 0.03, 0.1, 0.25])
        scal.append(("F", [NAN if rng.chance(pm) else v for v in vals]))
    feats += scal
    c = dict(kind="dtree", p1=rng.choice([1, 2, 2, 3, 3, 3, 4, 4, 5]), p2=rng.range(1, 10), crit=0 if rng.chance(0.75) else rng.range(1, 3),
             threads=rng.choice([1, 2, 3, 4, 8, 16, rng.range(1, 16)]), N=N, T=T, feats=feats,
             grads=gen_values(rng, N * T, rng.choice(["int", "quarter", "quarter"])), base=gen_values(rng, N * T, "int"))
    mode = rng.choice(["all", "all", "shuffled", "subset", "rep"])
    if mode == "all":
        c["samples"] = list(range(N))
    elif mode == "shuffled":
        c["samples"] = rng.shuffle(range(N))
    elif mode == "subset":
        c["samples"] = rng.shuffle(range(N))[:rng.range(max(2, N // 2), N)]
    else:
        c["samples"] = [rng.below(N) for _ in range(rng.range(N // 2 + 1, 2 * N))]
    c["scalemode"] = rng.below(2)
    c["svals"] = [rng.choice([0.0, 0.5, 1.0, 2.0, 3.0]) for _ in range(rng.range(1, 5))]
    c["sub"] = [rng.below(N) for _ in range(rng.range(0, 8))]
    c["extras"] = [rng.shuffle(range(N))[:rng.range(max(2, N // 2), N)] for _ in range(rng.choice([0, 0, 1]))]
    return c


def gen_ktable_case(rng):
    """k-best / k-split tables on categorical features with many label sets, mostly with AIC / AICc / BIC (with the RSS criterion the
    k-split fit always keeps every bin and the k-best fit every bin with a non-zero mean): residuals = a level per GROUP of labels
    plus small noise, so that merging clusters / dropping bins pays off and the greedy clustering has work to do"""
    kind = rng.choice(["kbest", "ksplit", "ksplit"])
    N = rng.range(12, 60)
    T = rng.choice([1, 1, 2])
    feats = []
    ns = rng.range(1, 3)
    for _ in range(ns):
        C = rng.range(3, 8)
        pm = rng.choice([0.0, 0.0, 0.1, 0.25])
        feats.append(("S", C, [-1 if rng.chance(pm) else rng.below(C) for _ in range(N)]))
    for _ in range(rng.choice([0, 0, 1])):
        C = rng.range(2, 4)
        pm = rng.choice([0.0, 0.1])
        feats.append(("M", C, [-1 if rng.chance(pm) else rng.below(1 << C) for _ in range(N)]))
    for _ in range(rng.choice([0, 0, 1])):
        feats.append(("F", [float(rng.range(0, 5)) for _ in range(N)]))
    f = feats[rng.below(ns)]
    levels = rng.range(1, 3)
    lvl = {l: [rng.choice([-4.0, -2.0, 0.0, 0.0, 1.0, 3.0, 3.25]) for _ in range(T)] for l in range(levels)}
    group = {l: rng.below(levels) for l in range(f[1])}
    noise = rng.choice([0.0, 0.25, 0.25, 0.5, 1.0])
    grads = []
    for i in range(N):
        l = f[2][i]
        for o in range(T):
            base = 0.0 if l < 0 else lvl[group[l]][o]
            grads.append(-(base + noise * rng.range(-2, 2)))
    c = dict(kind=kind, p1=0, p2=0, crit=rng.choice([0, 1, 1, 2, 2, 3, 3]), threads=rng.choice([1, 2, 3, 4, 8, 16]), N=N, T=T, feats=feats,
             grads=grads, base=gen_values(rng, N * T, "int"))
    c["samples"] = gen_samples(rng, N) if rng.chance(0.3) else list(range(N))
    if len(c["samples"]) < 8:
        c["samples"] = list(range(N))
    c["scalemode"] = rng.below(2)
    c["svals"] = [rng.choice([0.0, 0.5, 1.0, 2.0]) for _ in range(rng.range(1, 4))]
    c["sub"] = [rng.below(N) for _ in range(rng.range(0, 6))]
    c["extras"] = [rng.shuffle(range(N))[:rng.range(max(8, N // 2), N)] for _ in range(rng.choice([0, 0, 1]))]
    return c


def gen_ksplit_merge_case(rng):
    """several k-split tables on the SAME categorical feature with the same hashes and the same number of clusters but DIFFERENT
    label -> table mappings, then wlearner::merge: table_wlearner_t::try_merge must compare hash2tables (not only its size).
    One single-label feature with 3..4 labels; the main fit and the extra fits use disjoint sample blocks in which different pairs
    of labels share a residual level (small noise), AIC / AICc / BIC so that the pair is merged into one cluster"""
    C = rng.choice([3, 3, 4])
    per = rng.range(4, 7)
    T = rng.choice([1, 1, 2])
    nblocks = rng.choice([2, 2, 3])
    pairs = [(a, b) for a in range(C) for b in range(a + 1, C)]
    chosen = rng.shuffle(pairs)[:nblocks]
    if rng.chance(0.3):
        chosen[-1] = chosen[0]                 # ... and sometimes the same mapping twice (these DO merge)
    labels, grads, blocks = [], [], []
    lo = [float(rng.range(-3, 3)) for _ in range(T)]
    gap = rng.choice([4.0, 5.0, 6.0, 8.0])
    for (a, b) in chosen:
        idx = []
        # the pair (a, b) shares the level `lo`, every other label has its own distant level
        level = {}
        nxt = 1
        for l in range(C):
            if l in (a, b):
                level[l] = 0
            else:
                level[l] = nxt; nxt += 1
        for l in range(C):
            for _ in range(per):
                idx.append(len(labels))
                labels.append(l)
                for o in range(T):
                    grads.append(-(lo[o] + gap * level[l] + 0.25 * rng.range(-1, 1)))
        blocks.append(rng.shuffle(idx))
    N = len(labels)
    feats = [("S", C, labels)]
    if rng.chance(0.3):
        feats.append(("F", [float(rng.range(0, 3)) for _ in range(N)]))
    c = dict(kind="ksplit", p1=0, p2=0, crit=rng.choice([1, 2, 3]), threads=rng.choice([1, 2, 4, 8]), N=N, T=T, feats=feats, grads=grads,
             base=[0.0] * (N * T), samples=blocks[0], scalemode=rng.below(2), svals=[rng.choice([0.5, 1.0, 2.0])],
             sub=[rng.below(N) for _ in range(rng.range(0, 5))], extras=blocks[1:])
    return c


def gen_affine_constant(rng):
    """the affine learner on a feature that is constant (non-dyadic value) over the fitted samples: DESIGN.md §6 item 10"""
    N = rng.range(2, 10)
    T = rng.choice([1, 1, 2])
    cst = rng.choice([0.1, 0.3, 0.7, 123.456, 1000.001, -0.2, 1.0 / 3.0, 2.2])
    c = dict(kind="affine", p1=0, p2=0, crit=0, threads=1, N=N, T=T, feats=[("F", [cst] * N)],
             grads=[rng.range(-12, 12) / 4.0 for _ in range(N * T)], base=[0.0] * (N * T), samples=list(range(N)), scalemode=0,
             svals=[2.0], sub=list(range(N)), extras=[])
    return c


def gen_exhaustive_small(rng, frac):
    """3 samples, one scalar feature with values in {0, 1, missing}, gradients in {-1, 0, 1}: every case (sampled in quick)"""
    ops = []
    vals = [0.0, 1.0, NAN]
    gs = [-1.0, 0.0, 1.0]
    for kind in ("stump", "hinge", "affine"):
        for a in vals:
            for b in vals:
                for cc in vals:
                    for g1 in gs:
                        for g2 in gs:
                            for g3 in gs:
                                if frac < 1.0 and not rng.chance(frac):
                                    continue
                                ops.append(fmt(dict(kind=kind, p1=0, p2=0, crit=0, threads=1, N=3, T=1, feats=[("F", [a, b, cc])],
                                                    grads=[g1, g2, g3], base=[1.0, 2.0, 3.0], samples=[0, 1, 2], scalemode=0,
                                                    svals=[2.0], sub=[2, 0, 0], extras=[])))
    labs = [0, 1, -1]
    for kind in ("dense", "dstep", "kbest", "ksplit"):
        for a in labs:
            for b in labs:
                for cc in labs:
                    for g1 in gs:
                        for g2 in gs:
                            for g3 in gs:
                                if frac < 1.0 and not rng.chance(frac):
                                    continue
                                ops.append(fmt(dict(kind=kind, p1=0, p2=0, crit=0, threads=1, N=3, T=1, feats=[("S", 2, [a, b, cc])],
                                                    grads=[g1, g2, g3], base=[1.0, 2.0, 3.0], samples=[0, 1, 2], scalemode=1,
                                                    svals=[2.0, 0.5], sub=[2, 0, 0], extras=[[2, 1, 0]])))
    return ops


def gen(rng, tier):
    ops = []
    cp = os.path.join(vlib.VERIF, "corpus", "C10", "ops.txt")
    if os.path.exists(cp):
        ops += [l.strip() for l in open(cp) if l.strip() and not l.startswith("#")]
    ops += gen_exhaustive_small(rng, 0.1 if tier == "quick" else 1.0)
    n_random = 2500 if tier == "quick" else 12000
    n_const = 25 if tier == "quick" else 100
    every = max(1, n_random // n_const)
    for k in range(n_random):
        if k % every == every // 2:
            ops.append(fmt(gen_affine_constant(rng)))
        if k % 12 == 5:
            ops.append(fmt(gen_tree_case(rng)))
        if k % 10 == 7:
            ops.append(fmt(gen_ktable_case(rng)))
        if k % 25 == 3:
            ops.append(fmt(gen_ksplit_merge_case(rng)))
        c = gen_case(rng, small=rng.chance(0.15))
        ops.append(fmt(c))
    return ops


def nontrivial(op):
    """ties in the feature values, a missing value, a repeated sample index, a 2-sample subset or a constant feature"""
    c = parse(op)
    s = c["samples"]
    if len(set(s)) < len(s) or len(s) == 2:
        return True
    for f in c["feats"]:
        vs = [fvalue(f, i) for i in s]
        present = [v for v in vs if v is not None]
        if len(present) < len(vs) or len(set(present)) < len(present):
            return True
    return False


def distribution(ops):
    d = {}
    for op in ops:
        t = op.split()
        k = f"{t[1]}/crit{t[4]}"
        d[k] = d.get(k, 0) + 1
        d[f"threads{t[5]}"] = d.get(f"threads{t[5]}", 0) + 1
    return d


# ---------------------------------------------------------------------------------------------------------
# the property oracle (independent: brute force from the statement, plain python floats)

def sqerr(r, p):
    return sum((a - b) * (a - b) for a, b in zip(r, p))


def mean(rs, T):
    n = len(rs)
    return [sum(r[o] for r in rs) / n for o in range(T)]


def sse_const(rs, T):
    """min over constants of the squared error = squared error around the mean"""
    if not rs:
        return 0.0
    m = mean(rs, T)
    return sum(sqerr(r, m) for r in rs)


def sse_zero(rs):
    return sum(sum(a * a for a in r) for r in rs)


def residuals(c, samples):
    T = c["T"]
    return [[-c["grads"][i * T + o] for o in range(T)] for i in samples]


def thresholds(values):
    """mid-points between consecutive distinct values"""
    vs = sorted(set(values))
    return [0.5 * (a + b) for a, b in zip(vs, vs[1:])]


def brute_stump(c, samples):
    """[(rss, feature, threshold)] over all scalar features and all mid-point thresholds"""
    T = c["T"]
    rs = residuals(c, samples)
    out = []
    for fi, f in enumerate(c["feats"]):
        if f[0] != "F":
            continue
        xs = [fvalue(f, i) for i in samples]
        miss = sse_zero([r for x, r in zip(xs, rs) if x is None])
        for t in thresholds([x for x in xs if x is not None]):
            left = [r for x, r in zip(xs, rs) if x is not None and x < t]
            right = [r for x, r in zip(xs, rs) if x is not None and not x < t]
            out.append((sse_const(left, T) + sse_const(right, T) + miss, fi, t))
    return out


def ls_through_origin(us, rs, T):
    """min over beta of sum (r - beta u)^2, per output"""
    suu = sum(u * u for u in us)
    total = 0.0
    for o in range(T):
        sur = sum(u * r[o] for u, r in zip(us, rs))
        beta = sur / suu
        total += sum((r[o] - beta * u) ** 2 for u, r in zip(us, rs))
    return total


def brute_hinge(c, samples):
    T = c["T"]
    rs = residuals(c, samples)
    out = []
    for fi, f in enumerate(c["feats"]):
        if f[0] != "F":
            continue
        xs = [fvalue(f, i) for i in samples]
        miss = sse_zero([r for x, r in zip(xs, rs) if x is None])
        for t in thresholds([x for x in xs if x is not None]):
            left = [(x - t, r) for x, r in zip(xs, rs) if x is not None and x < t]
            right = [(x - t, r) for x, r in zip(xs, rs) if x is not None and not x < t]
            zl = sse_zero([r for _, r in left]); zr = sse_zero([r for _, r in right])
            out.append((ls_through_origin([u for u, _ in left], [r for _, r in left], T) + zr + miss, fi, t, 0))
            out.append((zl + ls_through_origin([u for u, _ in right], [r for _, r in right], T) + miss, fi, t, 1))
    return out


def brute_affine(c, samples):
    """([(rss, feature)] for the features with at least two distinct present values, [(rss, feature)] of the constant fit on the
    features that are constant over the fitted samples)"""
    T = c["T"]
    rs = residuals(c, samples)
    var, const = [], []
    for fi, f in enumerate(c["feats"]):
        if f[0] != "F":
            continue
        xs = [fvalue(f, i) for i in samples]
        miss = sse_zero([r for x, r in zip(xs, rs) if x is None])
        px = [x for x in xs if x is not None]
        pr = [r for x, r in zip(xs, rs) if x is not None]
        if len(set(px)) < 2:      # constant over the fitted samples, or no value at all: the class contains only constants / zero
            const.append((sse_const(pr, T) + miss, fi))
            continue
        n = len(px)
        mx = sum(px) / n
        sxx = sum((x - mx) ** 2 for x in px)
        total = miss
        for o in range(T):
            mr = sum(r[o] for r in pr) / n
            sxr = sum((x - mx) * (r[o] - mr) for x, r in zip(px, pr))
            w = sxr / sxx
            b = mr - w * mx
            total += sum((r[o] - w * x - b) ** 2 for x, r in zip(px, pr))
        var.append((total, fi))
    return var, const


def label_groups(f, samples, rs):
    groups = {}
    miss = []
    for i, r in zip(samples, rs):
        v = fvalue(f, i)
        if v is None:
            miss.append(r)
        else:
            groups.setdefault(v, []).append(r)
    return groups, miss


def brute_dense(c, samples):
    T = c["T"]
    rs = residuals(c, samples)
    out = []
    for fi, f in enumerate(c["feats"]):
        if f[0] == "F":
            continue
        groups, miss = label_groups(f, samples, rs)
        out.append((sum(sse_const(g, T) for g in groups.values()) + sse_zero(miss), fi))
    return out


def brute_dstep(c, samples):
    T = c["T"]
    rs = residuals(c, samples)
    out = []
    for fi, f in enumerate(c["feats"]):
        if f[0] == "F":
            continue
        groups, miss = label_groups(f, samples, rs)
        for lab, g in groups.items():
            others = [r for l2, g2 in groups.items() if l2 != lab for r in g2]
            out.append((sse_const(g, T) + sse_zero(others) + sse_zero(miss), fi, lab))
    return out


def best_and_gap(cands):
    vals = sorted(x[0] for x in cands)
    if not vals:
        return None, INF
    return vals[0], (vals[1] - vals[0] if len(vals) > 1 else INF)


def close(a, b, tol):
    return abs(a - b) <= tol


def tree_group(nodes, x):
    """independent walk of the node table; x: feature -> value or None"""
    i = 0
    for _ in range(len(nodes) + 1):
        if i >= len(nodes):
            return None
        f, thr, nxt, table = nodes[i]
        v = x(f)
        if v is None:
            return -1
        g = 0 if v < thr else 1
        if nxt == 0:
            return table + g
        if i + g >= len(nodes):
            return None
        i = nodes[i + g][2]
    return None


def tree_fit_oracle(c, nofit, score, nodes, tables, split):
    """the fit of a decision tree, re-derived from the definition (independent of the Lean model): breadth-first greedy
    partitioning; every node pair carries a brute-force-optimal stump of the samples that reach it; a node is terminal iff it has
    fewer than min(10, N*min_split/100) samples or depth+1 >= max_depth; the children get the DISTINCT samples of each side (sorted);
    a leaf row is the mean residual of its side; table rows / `next` indices are handed out in processing order; one failing stump
    fit makes the whole tree fail; score = sum over the terminal pairs of max(rss, 1e3*eps) (RSS criterion)"""
    T, N = c["T"], c["N"]
    maxd, minS = c["p1"], min(10, N * c["p2"] // 100)
    rss_crit = c["crit"] == 0
    samples = c["samples"]
    tol = 1e-9 * max(1.0, sse_zero(residuals(c, samples))) + CLAMP

    def side(f, thr, i):
        v = fvalue(c["feats"][f], i)
        return None if v is None else (0 if v < thr else 1)

    def terminal(S, d):
        return len(S) < minS or d + 1 >= maxd

    def children(S, f, thr):
        return [sorted({i for i in S if side(f, thr, i) == g}) for g in (0, 1)]

    if nofit:
        if not rss_crit:
            return None
        queue = [(samples, 0)]
        for _ in range(1 << (maxd + 1)):
            if not queue:
                return fail("tree-fit", f"no fit reported although every node of the greedy tree (max_depth {maxd}, min samples {minS}) "
                                        f"has a stump with clearly separated RSS")
            S, d = queue.pop(0)
            b = sorted(brute_stump(c, S))
            if not b:
                return None           # a node without any candidate stump: the whole tree fails, as reported
            if len(b) > 1 and b[1][0] - b[0][0] <= 10 * tol:
                return None           # the selection at this node is decided by rounding: not decidable here
            if not terminal(S, d):
                queue += [(ch, d + 1) for ch in children(S, b[0][1], b[0][2])]
        return None

    nn, nrows = len(nodes), len(tables)
    if nn % 2 or nn == 0:
        return fail("tree-layout", f"{nn} nodes")
    queue = [(samples, 0, None)]       # (samples of the cache, depth, index of the parent node)
    processed = 0
    rows = 0
    total = 0.0
    leaf_of = {}
    while queue:
        S, d, parent = queue.pop(0)
        i = 2 * processed
        if i + 1 >= nn:
            return fail("tree-layout", f"the greedy tree has more than {nn // 2} node pairs (cache #{processed}: {len(S)} samples, depth {d})")
        if parent is not None and nodes[parent][2] != i:
            return fail("tree-layout", f"node {parent}.next = {nodes[parent][2]}, its child cache is processed as node pair {i}")
        (f, thr, nxt, tb), (f1, thr1, nxt1, tb1) = nodes[i], nodes[i + 1]
        if (f, thr) != (f1, thr1):
            return fail("tree-layout", f"node pair {i}: different stumps {nodes[i]} / {nodes[i + 1]}")
        if not (0 <= f < len(c["feats"])) or c["feats"][f][0] != "F":
            return fail("tree-layout", f"node {i} selects feature {f}")
        sides = [[i2 for i2 in S if side(f, thr, i2) == g] for g in (0, 1)]
        if not sides[0] or not sides[1]:
            return fail("tree-stump", f"node pair {i}: threshold {thr!r} on feature {f} leaves a side empty ({len(S)} samples at depth {d})")
        rs = [residuals(c, sd) for sd in sides]
        miss = sse_zero(residuals(c, [i2 for i2 in S if side(f, thr, i2) is None]))
        rss = sse_const(rs[0], T) + sse_const(rs[1], T) + miss
        if rss_crit:
            b = brute_stump(c, S)
            best = min(x[0] for x in b)
            if rss > best + 10 * tol:
                return fail("tree-stump", f"node pair {i} (depth {d}, {len(S)} samples): stump (feature {f}, threshold {thr!r}) has RSS "
                                          f"{rss!r}, the best stump on these samples {best!r}")
        if terminal(S, d):
            if nxt != 0 or nxt1 != 0:
                return fail("tree-terminal", f"node pair {i} (depth {d}, {len(S)} samples, min samples {minS}, max_depth {maxd}) must be "
                                             f"terminal, next = {nxt}, {nxt1}")
            if (tb, tb1) != (rows, rows + 1) or rows + 1 >= nrows:
                return fail("tree-layout", f"terminal node pair {i}: table rows {tb}, {tb1}, expected {rows}, {rows + 1} of {nrows}")
            for g in (0, 1):
                m = mean(rs[g], T)
                if any(not close(a, bb, 1e-9 * max(1.0, abs(bb)) + 1e-12) for a, bb in zip(tables[rows + g], m)):
                    return fail("tree-leaf", f"table row {rows + g} = {tables[rows + g]}, the mean residual of the {len(rs[g])} samples of "
                                             f"this leaf is {m}")
                for i2 in sides[g]:
                    if leaf_of.setdefault(i2, rows + g) != rows + g:
                        return fail("tree-partition", f"sample {i2} reaches the leaves {leaf_of[i2]} and {rows + g}")
            rows += 2
            total += max(rss, CLAMP)
        else:
            if nxt == 0 or nxt1 == 0:
                return fail("tree-terminal", f"node pair {i} (depth {d}, {len(S)} samples, min samples {minS}, max_depth {maxd}) must be "
                                             f"split further, next = {nxt}, {nxt1}")
            if tb != -1 or tb1 != -1:
                return fail("tree-layout", f"inner node pair {i} has table indices {tb}, {tb1}")
            ch = children(S, f, thr)
            queue += [(ch[0], d + 1, i), (ch[1], d + 1, i + 1)]
        processed += 1
    if 2 * processed != nn or rows != nrows:
        return fail("tree-layout", f"{nn} nodes / {nrows} table rows, the greedy tree has {2 * processed} / {rows}")
    for i2, L in leaf_of.items():
        if split[i2] != L:
            return fail("tree-partition", f"fitted sample {i2} belongs to leaf {L}, split() reports {split[i2]}")
    if rss_crit and not close(score, total, 10 * tol * max(1, rows // 2)):
        return fail("tree-score", f"score {score!r}, the sum over the {rows // 2} terminal node pairs of max(RSS, 1e3*eps) is {total!r}")
    return None


def py_score(crit, rss, k, n):
    """the selection criteria from their textbook definitions (RSS clamped below by 1e3*eps); None = not finite"""
    rss = max(rss, CLAMP)
    try:
        if crit == 0:
            v = rss
        elif crit == 1:
            v = 2.0 * k + n * math.log(rss) - n * math.log(n)
        elif crit == 2:
            v = 2.0 * k + n * math.log(rss) - n * math.log(n) + 2.0 * (k * k + k) / (n - k - 1.0)
        else:
            v = k * math.log(n) + n * math.log(rss / n)
    except (ZeroDivisionError, ValueError):
        return None
    return v if math.isfinite(v) else None


def score_close(a, b, n, rss_scale):
    """scores within rounding: RSS-like scores relative to the data scale, log-scores absolute (n * 1e-9 covers log(rss) noise)"""
    return abs(a - b) <= 1e-9 * max(1.0, abs(a), abs(b), rss_scale) + 1e-7 * n * 1e-2 + CLAMP


def ktable_candidates(c, samples, kind):
    """([(score, rss, feature, rows, partition | None)], complete) for the k-best / k-split families, from the definition, per sample:
    k-best: for every k the k label sets whose own mean explains most (every other fitted sample is predicted zero) — for up to
    8 label sets all subsets of every size are enumerated, beyond that the k largest gains are taken; partition None = the best
    subset of that size is not unique;
    k-split: the greedy agglomeration — start with one cluster per label set, repeatedly merge the two clusters whose MEAN OUTPUTS
    are closest (first closest pair in hash order, the later clusters move down by one), one candidate per number of clusters;
    complete = False when some merge was decided by rounding or by the (here unknown) hash order of multi-label sets"""
    import itertools
    T = c["T"]
    rs = residuals(c, samples)
    n = len(samples)
    out = []
    complete = True
    ktable_candidates.had_groups = False
    for fi, f in enumerate(c["feats"]):
        if f[0] == "F":
            continue
        groups, miss = label_groups(f, samples, rs)
        if not groups:
            continue
        ktable_candidates.had_groups = True
        labs = sorted(groups)            # single-label features: the hash of a label is the label
        zmiss = sse_zero(miss)
        if kind == "kbest":
            gain = {l: sse_zero(groups[l]) - sse_const(groups[l], T) for l in labs}
            for k in range(1, len(labs) + 1):
                if len(labs) <= 8:
                    cand = sorted((zmiss + sum(sse_const(groups[l], T) if l in sub else sse_zero(groups[l]) for l in labs), sub)
                                  for sub in itertools.combinations(labs, k))
                    rss, sub = cand[0]
                    unique = len(cand) == 1 or cand[1][0] - rss > 1e-9 * max(1.0, rss)
                else:
                    order = sorted(labs, key=lambda l: -gain[l])
                    sub = tuple(order[:k])
                    rss = zmiss + sum(sse_const(groups[l], T) if l in sub else sse_zero(groups[l]) for l in labs)
                    unique = k == len(labs) or gain[order[k - 1]] - gain[order[k]] > 1e-9 * max(1.0, rss)
                sc = py_score(c["crit"], rss, k * T, n)
                if sc is not None:
                    out.append((sc, rss, fi, k, frozenset(sub) if unique else None))
        else:
            clusters = [[l] for l in labs]
            while True:
                members = [[r for l in cl for r in groups[l]] for cl in clusters]
                rss = zmiss + sum(sse_const(m, T) for m in members)
                sc = py_score(c["crit"], rss, len(clusters) * T, n)
                if sc is not None:
                    out.append((sc, rss, fi, len(clusters), frozenset(frozenset(cl) for cl in clusters)))
                if len(clusters) == 1:
                    break
                means = [mean(m, T) for m in members]
                ds = [(sqerr(means[a], means[b]), a, b) for a in range(len(clusters)) for b in range(a + 1, len(clusters))]
                dmin = min(d for d, _, _ in ds)
                near = [d for d, _, _ in ds if d - dmin <= 1e-9 * max(1.0, dmin)]
                if len(near) > 1 and (any(d != dmin for d in near) or f[0] != "S"):
                    complete = False
                    break
                _, a, b = min(ds, key=lambda x: (x[0], x[1], x[2]))
                clusters[a] = clusters[a] + clusters[b]
                del clusters[b]
    return out, complete


def fail(clause, msg, key=None):
    return f"[{clause}]" + (f" key={key}" if key else "") + " " + msg


def oracle(aug, res):
    c = parse(aug)
    kind, T, N = c["kind"], c["T"], c["N"]
    S = sections(res)
    if S["head"] != ["ok"] or "fit" not in S:
        return fail("answer", f"implementation did not answer ok: {res[:120]}")
    samples = c["samples"]
    rs = residuals(c, samples)
    scale2 = max(1.0, sse_zero(rs))
    tol = 1e-9 * scale2 + CLAMP
    rss_crit = c["crit"] == 0

    # ---- which feature is constant over the fitted samples (affine) ----
    def constant_feature(fi):
        f = c["feats"][fi]
        px = [fvalue(f, i) for i in samples if fvalue(f, i) is not None]
        return f[0] == "F" and len(px) >= 1 and len(set(px)) == 1

    # ---- brute force over the hypothesis class ----
    brute = None
    if kind == "stump" or kind == "dtree":
        brute = brute_stump(c, samples)
    elif kind == "hinge":
        brute = brute_hinge(c, samples)
    elif kind == "dense":
        brute = brute_dense(c, samples)
    elif kind == "dstep":
        brute = brute_dstep(c, samples)
    avar = aconst = None
    if kind == "affine":
        avar, aconst = brute_affine(c, samples)
        brute = avar

    nofit = S["fit"] == ["nofit"]
    if nofit:
        if kind == "dtree":
            return tree_fit_oracle(c, True, None, None, None, None)
        if kind in ("kbest", "ksplit"):
            kc, _ = ktable_candidates(c, samples, kind)
            if kc:
                return fail("ktable-fit", f"no fit reported although the {kind} family has a candidate with score "
                                          f"{min(x[0] for x in kc)!r}")
        if kind in OPTIMAL_KINDS and brute:
            if rss_crit:
                return fail("optimal", f"no fit reported although the class contains a learner with RSS {min(b[0] for b in brute)!r}")
        return None

    score = h2f(S["fit"][0])
    feat = [int(w) for w in S["feat"][1:]]
    thr = h2f(S["thr"][0])
    direction = int(S["dir"][0])
    nrows = int(S["tables"][0])
    tvals = floats(S["tables"][1:])
    if len(tvals) != nrows * T or len(feat) != int(S["feat"][0]):
        return fail("answer", "malformed tables / features")
    tables = [tvals[k * T:(k + 1) * T] for k in range(nrows)]
    pred = floats(S["pred"])
    groups = int(S["groups"][0])
    split = [int(w) for w in S["split"]]
    sub = floats(S["sub"])
    scaled = floats(S["scaled"])
    if len(pred) != N * T or len(split) != N or len(scaled) != N * T or len(sub) != len(c["sub"]) * T:
        return fail("answer", "malformed predictions")
    base = c["base"]
    zero = [0.0] * T
    ckey = None
    if kind == "affine" and len(feat) == 1 and constant_feature(feat[0]):
        ckey = "affine:constant-feature"

    # ---- (0) exact ties between identical columns are broken by the smallest feature index, whatever the thread count ----
    def same_column(f, g):
        if f[0] != g[0]:
            return False
        if f[0] == "F":
            return all((f[1][i] == g[1][i]) or (not math.isfinite(f[1][i]) and not math.isfinite(g[1][i])) for i in samples)
        return f[1] == g[1] and all((f[2][i] == g[2][i]) or (f[2][i] < 0 and g[2][i] < 0) for i in samples)

    if kind != "dtree" and len(feat) == 1:
        sel = feat[0]
        for g in range(sel):
            if same_column(c["feats"][g], c["feats"][sel]):
                return fail("tie", f"feature {sel} was selected although feature {g} < {sel} has the same values on the fitted samples "
                                   f"(bit-identical score): the tie must go to the smallest index ({c['threads']} threads)",
                            "feature-tie:schedule-dependent-selection")

    # ---- (1) minimum RSS over the class ----
    if kind in OPTIMAL_KINDS and rss_crit:
        if kind == "affine":
            cands = [b[0] for b in avar]
            allc = cands + [b[0] for b in aconst]
            ok = False
            if cands and close(score, max(min(cands), CLAMP), tol):
                ok = True          # constant features refused
            if allc and close(score, max(min(allc), CLAMP), tol):
                ok = True          # or fitted by the constant
            if not ok:
                want = min(allc) if allc else None
                return fail("optimal", f"affine score {score!r} (feature {feat}, w,b = {tables}) is not the minimum RSS over the class "
                                       f"{want!r} (features with >= 2 distinct values: {sorted(cands)[:3]}, constant features: "
                                       f"{[b[0] for b in aconst][:3]})", ckey)
        else:
            if not brute:
                return fail("optimal", f"a fit with score {score!r} is reported although the class is empty on these samples")
            want = max(min(b[0] for b in brute), CLAMP)
            if not close(score, want, tol):
                return fail("optimal", f"{kind} score {score!r} differs from the brute-force minimum RSS {want!r} "
                                       f"(feature {feat}, threshold {thr!r}, tables {tables})")

    # ---- (2) the added vectors ----
    added = []
    for i in range(N):
        p = pred[i * T:(i + 1) * T]
        b = base[i * T:(i + 1) * T]
        added.append(p)
        # recover the added vector from the zero-based predictions of `sub` / from the definition below
    # zero-based predictions of every sample listed in `sub`
    zb = {}
    for k, i in enumerate(c["sub"]):
        v = sub[k * T:(k + 1) * T]
        if i in zb and zb[i] != v:
            return fail("sample-only", f"sample {i} is predicted {zb[i]} and {v} within one call")
        zb[i] = v

    def xval(f):
        return lambda i: fvalue(c["feats"][f], i)

    # what the fitted parameters say the added vector of sample i is
    def expected(i):
        if kind in ("affine", "hinge"):
            x = fvalue(c["feats"][feat[0]], i)
            if x is None:
                return -1, zero
            if kind == "hinge" and not ((direction == 0 and x < thr) or (direction == 1 and not x < thr)):
                return -1, zero
            return 0, [tables[0][o] * x + tables[1][o] for o in range(T)]
        if kind == "stump":
            x = fvalue(c["feats"][feat[0]], i)
            if x is None:
                return -1, zero
            g = 0 if x < thr else 1
            return g, tables[g]
        if kind == "dtree":
            g = tree_group(nodes, lambda f: fvalue(c["feats"][f], i))
            if g is None:
                return None, None
            return g, (tables[g] if 0 <= g < nrows else zero)
        # tables: the group is what split() reports (the hash is not recomputed here); consistency is checked below
        g = split[i]
        x = fvalue(c["feats"][feat[0]], i)
        if x is None:
            return -1, zero
        return g, (tables[g] if 0 <= g < nrows else zero)

    nodes = []
    if kind == "dtree":
        nt = S["nodes"]
        nn = int(nt[0])
        for k in range(nn):
            nodes.append((int(nt[1 + 4 * k]), h2f(nt[2 + 4 * k]), int(nt[3 + 4 * k]), int(nt[4 + 4 * k])))

    vecs = []
    for i in range(N):
        g, v = expected(i)
        if g is None:
            return fail("split-table", f"the node table does not lead sample {i} to a leaf")
        if split[i] != g:
            return fail("split-table", f"split() puts sample {i} into group {split[i]}, the fitted parameters say {g}")
        if g >= nrows and kind not in ("affine", "hinge"):
            return fail("split-table", f"group {g} of sample {i} has no table (rows {nrows})")
        want = [base[i * T + o] + v[o] for o in range(T)]
        got = pred[i * T:(i + 1) * T]
        if want != got:
            what = "missing-zero" if g < 0 else ("adds" if i in zb and zb[i] == v else "split-table")
            return fail(what, f"sample {i} (group {g}): outputs {base[i * T:(i + 1) * T]} became {got}, expected + {v} = {want}")
        if i in zb and zb[i] != v:
            return fail("sample-only", f"sample {i}: predicted from zero {zb[i]}, expected {v}")
        vecs.append(v)
        # missing selected feature => nothing added, not assigned
        if kind != "dtree":
            if fvalue(c["feats"][feat[0]], i) is None and (g != -1 or any(a != 0.0 for a in v)):
                return fail("missing-zero", f"sample {i} misses feature {feat[0]} but is predicted {v} / group {g}")
        elif nodes and fvalue(c["feats"][nodes[0][0]], i) is None and (g != -1 or any(a != 0.0 for a in v)):
            return fail("missing-zero", f"sample {i} misses the root feature but is predicted {v} / group {g}")

    # tables: same label set <=> same group (among the groups that exist), fitted label sets are assigned
    if kind in ("dense", "dstep", "kbest", "ksplit"):
        f = c["feats"][feat[0]]
        if f[0] == "F":
            return fail("split-table", f"a table learner selected the scalar feature {feat[0]}")
        lab2g = {}
        for i in range(N):
            v = fvalue(f, i)
            if v is None:
                continue
            if v in lab2g and lab2g[v] != split[i]:
                return fail("sample-only", f"label set {v} is mapped to groups {lab2g[v]} and {split[i]}")
            lab2g[v] = split[i]
        # every table row was fitted from at least one fitted sample: split() must report it for some fitted sample
        hashes = [int(w) for w in S["hashes"][1:]]
        ukey = "kbest:unsorted-hashes" if kind == "kbest" and hashes != sorted(hashes) else None
        seen = {split[i] for i in samples}
        lost = [g for g in range(nrows) if g not in seen]
        if lost:
            return fail("split-table", f"table rows {lost} (of {nrows}, hashes {hashes}) are never reported by split() on the fitted "
                                       f"samples (groups {sorted(seen)})", ukey)
        if kind in ("kbest", "ksplit"):
            # the reported score is the criterion of the RSS of the fitted learner's predictions with k = rows * outputs
            prss = sum(sqerr(r, vecs[i]) for i, r in zip(samples, rs))
            want = py_score(c["crit"], prss, nrows * T, len(samples))
            if want is None or not score_close(want, score, len(samples), scale2 if rss_crit else 0.0):
                return fail("reproduce", f"{kind}: the RSS of the fitted learner's predictions is {prss!r} -> criterion {want!r} with "
                                         f"{nrows} rows, the reported score is {score!r}", ukey)
            # the reported score is the minimum over the family (all features; k-best: all subsets of label sets of every size;
            # k-split: the greedy agglomeration sequence), and the fitted rows / partition are the family member's when it is unique
            kc, complete = ktable_candidates(c, samples, kind)
            kc.sort(key=lambda x: x[0])
            if not kc and not ktable_candidates.had_groups:
                return fail("ktable-fit", f"{kind}: a fit is reported although the family is empty on these samples")
            # (no candidate with a finite criterion: AICc is undefined for n - k - 1 <= 0, e.g. 4 samples and 2 outputs - the code
            # then compares +inf / negative-denominator values; the criteria other than the RSS are outside the statement. This case
            # was first reported as 'the family is empty': a false alarm at VERIF_SEED 23, 26, 45, 46)
            if kc and complete and not score_close(kc[0][0], score, len(samples), scale2 if rss_crit else 0.0):
                return fail("ktable-fit", f"{kind}: reported score {score!r} (feature {feat}, {nrows} rows), the minimum over the family is "
                                          f"{kc[0][0]!r} (feature {kc[0][2]}, {kc[0][3]} rows)", ukey)
            clear = bool(kc) and (len(kc) == 1 or kc[1][0] - kc[0][0] > 1e-6 * max(1.0, abs(kc[0][0])))
            if clear and complete and ukey is None and kc[0][4] is not None:
                _, _, bf, brows, bpart = kc[0]
                if bf != feat[0] or brows != nrows:
                    return fail("ktable-fit", f"{kind}: fitted feature {feat[0]} with {nrows} rows, the unique best member of the family is on "
                                              f"feature {bf} with {brows} rows")
                fitted_labs = {fvalue(f, i) for i in samples} - {None}
                if kind == "kbest":
                    kept = frozenset(l for l in fitted_labs if lab2g.get(l, -1) >= 0)
                    if kept != bpart:
                        return fail("ktable-fit", f"kbest: the table keeps the label sets {sorted(kept)}, the best subset is {sorted(bpart)}")
                else:
                    part = {}
                    for l in fitted_labs:
                        part.setdefault(lab2g.get(l, -1), set()).add(l)
                    got = frozenset(frozenset(v) for v in part.values())
                    if -1 in part or got != bpart:
                        return fail("ktable-fit", f"ksplit: the table groups the label sets as {sorted(map(sorted, got))}, the greedy "
                                                  f"agglomeration gives {sorted(map(sorted, bpart))}")
        if kind == "dense":
            fitted = {fvalue(f, i) for i in samples if fvalue(f, i) is not None}
            gs = [lab2g[v] for v in fitted]
            if any(g < 0 for g in gs) or len(set(gs)) != len(gs) or nrows != len(fitted):
                return fail("split-table", f"dense table: fitted label sets {sorted(fitted)} -> groups {gs}, rows {nrows}")

    # ---- (3) the predictions reproduce the reported RSS ----
    if kind in OPTIMAL_KINDS and rss_crit:
        prss = sum(sqerr(r, vecs[i]) for i, r in zip(samples, rs))
        if not close(max(prss, CLAMP), score, tol):
            return fail("reproduce", f"{kind}: the RSS of the fitted learner's predictions is {prss!r}, the reported score {score!r} "
                                     f"(feature {feat}, tables {tables})", ckey)

    # ---- (3b) AIC / AICc / BIC: the reported score is the textbook criterion of the RSS of the fitted learner's predictions with the
    #      learner's parameter count k and sample count n (stump 2T+1, affine 2T, hinge T+1 on the samples of the active side plus the
    #      missing ones, dense rows*T, dstep T). Only on fits that are not (nearly) perfect: log(rss) amplifies the relative rounding
    #      error of a tiny RSS (n * relative error), and the floor max(rss, 1e3*eps) is a numerical detail outside the statement.
    if kind in OPTIMAL_KINDS and not rss_crit:
        prss = sum(sqerr(r, vecs[i]) for i, r in zip(samples, rs))
        if prss > 1e-3 * scale2:
            nfit = len(samples)
            if kind == "hinge":
                fx = [fvalue(c["feats"][feat[0]], i) for i in samples]
                nfit = sum(1 for x in fx if x is None or (x < thr if direction == 0 else not x < thr))
            kpar = {"stump": 2 * T + 1, "affine": 2 * T, "hinge": T + 1, "dense": nrows * T, "dstep": T}[kind]
            want = py_score(c["crit"], prss, kpar, nfit)
            if want is not None and math.isfinite(want) and not score_close(want, score, nfit, 0.0):
                return fail("criterion", f"{kind}: criterion {c['crit']} of the RSS of the fitted learner's predictions ({prss!r}, k = {kpar}, "
                                         f"n = {nfit}) is {want!r}, the reported score is {score!r}", ckey)

    # ---- (4) scale ----
    size = 1 if c["scalemode"] == 0 else max(1, nrows)
    svec = [c["svals"][k % len(c["svals"])] for k in range(size)]
    for i in range(N):
        g = split[i]
        got = scaled[i * T:(i + 1) * T]
        if g < 0:
            want = zero
        elif kind in ("affine", "hinge"):
            x = fvalue(c["feats"][feat[0]], i)
            if size == 1:
                want = [vecs[i][o] * svec[0] for o in range(T)]
            else:
                want = [tables[0][o] * svec[0] * x + tables[1][o] * svec[min(1, size - 1)] for o in range(T)]
        else:
            want = [vecs[i][o] * svec[min(g, size - 1)] for o in range(T)]
        for a, b in zip(got, want):
            if not close(a, b, 1e-9 * max(abs(a), abs(b)) + 1e-12):
                return fail("scale", f"sample {i} (group {g}): scaled prediction {got}, expected {want} (scale {svec})")

    # ---- (5) merge ----
    if "merge" in S:
        before = floats(S["before"]); after = floats(S["after"])
        if len(before) != N * T or len(after) != N * T:
            return fail("answer", "malformed merge sums")
        for k, (a, b) in enumerate(zip(before, after)):
            if not close(a, b, 1e-9 * max(abs(a), abs(b)) + 1e-12):
                return fail("merge", f"sum of predictions of sample {k // T} changed by merge: {a!r} -> {b!r}")
        nextra = sum(1 for w in S["extra"][1:] if w != "nofit")
        if int(S["merge"][0]) > 1 + nextra or int(S["merge"][0]) < 1:
            return fail("merge", "number of learners after merge")

    # ---- (5b) the fitted tree is the greedy breadth-first tree of brute-force stumps ----
    if kind == "dtree":
        why = tree_fit_oracle(c, False, score, nodes, tables, split)
        if why:
            return why

    # ---- (6) the root of a tree is the stump; a tree of depth 1 is the stump ----
    if kind == "dtree" and "stump1" in S:
        st = S["stump1"]
        if st == ["nofit"]:
            return fail("depth1", "the tree is fitted but the stump is not")
        sscore, sfeat, sthr, srows = h2f(st[0]), int(st[1]), h2f(st[2]), int(st[3])
        stab = floats(st[4:])
        if c["p1"] == 1 and sscore != score:
            return fail("depth1", f"tree of depth 1 has score {score!r}, the stump {sscore!r}")
        # the root is fitted by the same stump fit on the same samples and gradients: the same answer, ties included (the
        # tie-break no longer depends on the schedule)
        if not nodes or nodes[0][0] != sfeat or nodes[0][1] != sthr:
            return fail("depth1", f"root node {nodes[:1]} differs from the stump (feature {sfeat}, threshold {sthr!r})",
                        "feature-tie:schedule-dependent-selection")
        if c["p1"] == 1 and (len(nodes) != 2 or tvals != stab or srows != nrows or nodes[0][2] != 0):
            return fail("depth1", f"tree of depth 1 {nodes} {tvals} is not the stump {stab}")
    return None


# ---------------------------------------------------------------------------------------------------------
# correspondence

def fclose(x, y):
    if x == y:
        return True
    if vlib.is_hexf(x) and vlib.is_hexf(y):
        return vlib.close(h2f(x), h2f(y), RTOL, ATOL)
    return False


def same(a, b):
    return len(a) == len(b) and all(fclose(x, y) for x, y in zip(a, b))


def is_tie(gap, score):
    """the band in which the selection is NOT compared: the runner-up is within rounding noise of the best score but not exactly
    equal. An exact tie (gap == 0: duplicated columns, symmetric integer data) is decided by the smallest feature index /
    the first candidate of the sweep since commits 62472c9 + 5de0896 and IS compared."""
    return gap != 0.0 and not (gap > 1e-9 * max(1.0, abs(score)))


def compare(aug, impl, model):
    """the model line carries the gap to the second-best candidate after `ok`, after every extra score and after `stump1`;
    fields that depend on the selected candidate are compared only when the gap is not a tie"""
    A, B = sections(impl), sections(model)
    if A["head"] != ["ok"] or len(B["head"]) != 2 or B["head"][0] != "ok":
        return False
    if A.get("fit") == ["nofit"] or B.get("fit") == ["nofit"]:
        if A.get("fit") == B.get("fit"):
            return True
        # a tree: some node's stump selection of the model was decided by rounding -> fitted / not fitted is not compared
        return vlib.is_hexf(B["head"][1]) and is_tie(h2f(B["head"][1]), 1.0) and aug.split()[1] == "dtree"
    if not same(A["fit"], B["fit"]):
        return False
    gap = h2f(B["head"][1])
    if is_tie(gap, h2f(A["fit"][0])):
        return True
    for k in ("feat", "thr", "dir", "hashes", "h2t", "nodes", "tables", "pred", "groups", "split", "sub", "scaled"):
        if not same(A[k], B[k]):
            return False
    # extras: `K s1 ..` vs `K s1 g1 ..`
    ea, eb = A["extra"], B["extra"]
    if ea[0] != eb[0]:
        return False
    ia, ib = 1, 1
    tie = False
    while ia < len(ea):
        if ib < len(eb) and eb[ib] == "tie":      # an extra tree with a node decided by rounding (model: not fitted)
            tie = True
            ia += 1; ib += 1
            continue
        if ea[ia] == "nofit" or (ib < len(eb) and eb[ib] == "nofit"):
            if ib >= len(eb) or ea[ia] != eb[ib]:
                return False
            ia += 1; ib += 1
            continue
        if ib + 1 >= len(eb) or not fclose(ea[ia], eb[ib]):
            return False
        tie = tie or is_tie(h2f(eb[ib + 1]), h2f(ea[ia]))
        ia += 1; ib += 2
    if ib != len(eb):
        return False
    if not tie:
        for k in ("merge", "before", "after", "mfeat"):
            if not same(A[k], B[k]):
                return False
    if ("stump1" in A) != ("stump1" in B):
        return False
    if "stump1" in A:
        sa, sb = A["stump1"], B["stump1"]
        if sa == ["nofit"] or sb == ["nofit"]:
            return sa == sb
        if not fclose(sa[0], sb[1]):
            return False
        if not is_tie(h2f(sb[0]), h2f(sa[0])) and not same(sa[1:], sb[2:]):
            return False
    return True


def classify(op, kind, detail):
    try:
        c = parse(op)
    except Exception:
        return None
    if kind == "crash":
        if c["kind"] == "dstep" and (all_missing_class_feature(c) or any(all_missing_class_feature(c, e) for e in c["extras"])):
            return "dstep:all-missing-feature"
        return f"{c['kind']}:crash"
    if kind == "corr":
        return f"{c['kind']}:corr"
    if "key=" in detail:
        return detail.split("key=")[1].split()[0]
    if detail.startswith("["):
        return f"{c['kind']}:{detail[1:detail.index(']')]}"
    return f"{c['kind']}:oracle"


def shrink_candidates(op):
    c = parse(op)
    out = []
    N, T = c["N"], c["T"]

    def emit(n):
        out.append(fmt(n))

    if c["extras"]:
        n = dict(c); n["extras"] = []
        emit(n)
    if len(c["sub"]) > 0:
        n = dict(c); n["sub"] = []
        emit(n)
    if c["threads"] != 1:
        n = dict(c); n["threads"] = 1
        emit(n)
    if len(c["feats"]) > 1:
        # keep the S*, M*, F* grouping: dropping one feature keeps the order
        for k in range(len(c["feats"])):
            n = dict(c); n["feats"] = c["feats"][:k] + c["feats"][k + 1:]
            emit(n)
    if len(c["samples"]) > 1:
        for k in range(min(len(c["samples"]), 24)):
            n = dict(c); n["samples"] = c["samples"][:k] + c["samples"][k + 1:]
            emit(n)
    # drop the samples that are not fitted (renumbering)
    used = sorted(set(c["samples"]) | set(c["sub"]) | {i for e in c["extras"] for i in e})
    if len(used) < N and used:
        idx = {old: new for new, old in enumerate(used)}
        n = dict(c)
        n["N"] = len(used)
        n["feats"] = [(f[0], [f[1][i] for i in used]) if f[0] == "F" else (f[0], f[1], [f[2][i] for i in used]) for f in c["feats"]]
        n["grads"] = [c["grads"][i * T + o] for i in used for o in range(T)]
        n["base"] = [c["base"][i * T + o] for i in used for o in range(T)]
        n["samples"] = [idx[i] for i in c["samples"]]
        n["sub"] = [idx[i] for i in c["sub"]]
        n["extras"] = [[idx[i] for i in e] for e in c["extras"]]
        emit(n)
    if T > 1:
        n = dict(c); n["T"] = 1
        n["grads"] = [c["grads"][i * T] for i in range(N)]
        n["base"] = [c["base"][i * T] for i in range(N)]
        emit(n)
    if any(b != 0.0 for b in c["base"]):
        n = dict(c); n["base"] = [0.0] * (N * T)
        emit(n)
    return out
