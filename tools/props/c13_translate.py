"""C13: C++ -> Lean translator for the scalar / index code of the tuners (DESIGN.md §2.3.a).

Extracts, *by function name* from the current source text of the repository under check, and emits
lean/NanoVerif/Gen/TunerSpace.lean (core Lean, self-contained, generic over the scalar):

  enum class param_space_t::type            (include/nano/tuner/space.h) -> `SpaceType`
  param_space_t::param_space_t              (src/tuner/space.cpp)  -> `ctorThrows`    (the four `critical`s, in source order)
  param_space_t::to_surrogate                                      -> `toSurrogate`   (the range guard that throws = `none`, the `switch`)
  param_space_t::from_surrogate                                    -> `fromSurrogate` (`std::clamp`, `std::pow(10.0, ·)`)
  param_space_t::closest_grid_point_from_surrogate                 -> `closestGridPointInit`, `closestGridPointStep` (loop body),
                                                                      `closestGridPoint` (the loop over the grid, the returned variable)
  param_space_t::closest_grid_value_from_surrogate                 -> `closestGridValue`
  nano::make_min/max/avg_igrid              (src/tuner/util.cpp)   -> `minIgridCoord`, `maxIgridCoord`, `avgIgridCoord`
  nano::evaluate                                                   -> `evaluateSame`, `evaluateKnown`, `evaluateFresh`, `evaluateRejects`
  nano::local_search                                               -> `trialsPerSpace`, `localSearchCoord` (the element-wise update),
                                                                      `localSearchOutside` (the `continue` test, per coordinate)
  tuner_t::optimize                         (src/tuner.cpp)        -> `optimizeRefuses`, `coarseRadius0`, `coarseContinue`, `coarseNextRadius` (the `for` header)
  local_search_tuner_t::do_optimize         (src/tuner/local.cpp)  -> `localContinue`, `localRadius`
  surrogate_tuner_t::do_optimize            (src/tuner/surrogate.cpp) -> `surrogateContinue`, `surrogateRadius`
  result_t::value(trial, …)                 (src/machine/result.cpp) -> `trialValueInit`, `trialValueStep`, `trialValueFinish`
  result_t::optimum_trial, ::closest_trial                          -> `optimumTrialInit/Step`, `optimumTrial`, `closestTrialInit/Step`, `closestTrial`
  nano::ml::tune (thread_callback)          (src/machine/tune.cpp) -> `tuneTrial`, `tuneFold`, `tuneStoreTrial`, `tuneStoreFold`, `tuneClosestMax`, `tuneTasks`
  quadratic_surrogate_fit_t ctor            (src/tuner/surrogate.cpp) -> `quadLen` (number of coefficients), `featConst`, `featPairIdx`,
                                                                      `featTerm` (index walk of the feature map)
  quadratic_surrogate_t ctor                                       -> `quadDim`, `QuadSizeOk` (the two asserts)
  quadratic_surrogate_t::do_vgrad                                  -> `gradK0`, `gradLin`, `gradPairIdx`, `gradTerm`,
                                                                      `valueInitIdx`, `valueK0`, `valueLin`, `valuePairIdx`, `valueTerm`, `quadValueWalk`, `quadGradWalk2`

Statement language: `const auto x = e;`, `auto x = e;` (loop state), `x = e;`, `x += e;`, `if (c) {…}` without else, `return x;`,
`critical(c, …)`, `switch (m_type)` of `case type::x: return e;` / `default: return e;`, canonical `for` headers
`for (T i = lo[, size = …]; i < hi; ++i)` (also `i <= hi`), the coefficient walk `m(k++)` (checked: `k` starts at the stated constant, every innermost body
consumes exactly one coefficient with its last use of `k`, so coefficients are consumed in iteration order). Expression parser, tokenizer and
block splitter are those of c14_translate.py. Locals are renamed (`v0, v1, …`, loop variables `i, j`), so renaming a C++ local does not
change the generated text. Anything else raises vlib.Broken("translate", …).
"""
import os, re
import vlib
from props import c14_translate as T
from props.c14_translate import TranslateError

OUT = os.path.join(vlib.LEAN, "NanoVerif", "Gen", "TunerSpace.lean")
SPACE_CPP = "src/tuner/space.cpp"
SPACE_H = "include/nano/tuner/space.h"
UTIL_CPP = "src/tuner/util.cpp"
LOCAL_CPP = "src/tuner/local.cpp"
TUNER_CPP = "src/tuner.cpp"
SURR_CPP = "src/tuner/surrogate.cpp"


class Parser(T.Parser):
    """c14's expression parser + std::fabs / log10 / clamp / pow(10.0, ·) and Nat.sqrt for the integer cast of a square root"""
    def primary(self):
        k = self.peek()
        if k[0] == "id" and self.i + 1 < len(self.t) and self.t[self.i + 1][1] == "(":
            name = k[1]
            if name == "std::pow":
                self.eat(); self.eat("(")
                base = self.eat()
                if base != ("num", "10.0"):
                    raise TranslateError("std::pow with a base other than the literal 10.0")
                self.eat(",")
                e = self.cond(); self.eat(")")
                return f"(pow10 {e})"
            if name in ("std::fabs", "std::log10", "std::clamp", "ISQRT"):
                self.eat(); self.eat("(")
                a = self.args()
                if name == "std::fabs" and len(a) == 1:
                    return f"(gabs {a[0]})"
                if name == "std::log10" and len(a) == 1:
                    return f"(log10 {a[0]})"
                if name == "std::clamp" and len(a) == 3:
                    return f"(gclamp {a[0]} {a[1]} {a[2]})"
                if name == "ISQRT" and len(a) == 1:
                    return f"(Nat.sqrt {a[0]})"
                raise TranslateError(f"{name}: wrong number of arguments")
        return super().primary()


def expr(text, bind, lits, what):
    p = Parser(T.tokenize(text), bind, lits)
    e = p.cond()
    if p.peek()[0] != "eof":
        raise TranslateError(f"{what}: trailing tokens in `{text.strip()}`")
    return e


def strip_strings(s):
    return re.sub(r'"(?:[^"\\]|\\.)*"', "STR", s)


def first_arg(text, what):
    """`name(a, b, …)` -> a"""
    m = re.match(r"\s*\w+\s*\(", text)
    if not m:
        raise TranslateError(f"{what}: call expected in `{text[:60]}`")
    i = m.end(); depth = 1; j = i
    while j < len(text):
        c = text[j]
        if c in "({":
            depth += 1
        elif c in ")}":
            depth -= 1
            if depth == 0:
                return text[i:j]
        elif c == "," and depth == 1:
            return text[i:j]
        j += 1
    raise TranslateError(f"{what}: unbalanced call")


def call_args(text, what):
    """`name(a, b, …)` (whole text) -> [a, b, …]"""
    m = re.match(r"\s*[\w:]+\s*\(", text)
    if not m or not text.rstrip().endswith(")"):
        raise TranslateError(f"{what}: call expected in `{text[:60]}`")
    inner = text.rstrip()[m.end():-1]
    out = []; depth = 0; cur = ""
    for c in inner:
        if c in "({<" and not (c == "<" and depth == 0 and False):
            depth += c in "({"
        if c in ")}":
            depth -= 1
        if c == "," and depth == 0:
            out.append(cur.strip()); cur = ""
        else:
            cur += c
    out.append(cur.strip())
    return out


def paren_after(src, start, what):
    """text between the parentheses of the group whose `(` is at src[start]"""
    assert src[start] == "("
    i = start + 1; depth = 1
    while depth:
        if i >= len(src):
            raise TranslateError(f"{what}: unbalanced parentheses")
        depth += (src[i] == "(") - (src[i] == ")")
        i += 1
    return src[start + 1:i - 1]


def tops(body, what):
    try:
        return T.split_top(body)
    except IndexError:
        raise TranslateError(f"{what}: unbalanced text")


def method_body(src, cls, name, what, ret=r"[\w:<>]+"):
    return T.body_of(src, ret + r"\s+" + cls + r"::" + name + r"\s*\(", what)


# ---------------------------------------------------------------------------------------------------------------------
# src/tuner/space.cpp

SPACE_BIND = {"m_min": "mn", "m_max": "mx", "value": "value", "DBLMAX": "dblmax"}


def space_enum(hdr):
    body = T.body_of(hdr, r"enum\s+class\s+type\b", "enum class param_space_t::type")
    names = []
    for part in body.split(","):
        p = part.strip()
        if not p:
            continue
        if not re.fullmatch(r"\w+", p):
            raise TranslateError("param_space_t::type: enumerator not understood: " + p)
        names.append(p)
    if not names:
        raise TranslateError("param_space_t::type: no enumerators")
    return names


def type_switch(stmts, enum, lits, what):
    """`switch (m_type) { case type::x: return e; … default: return e; }` -> Lean match arms"""
    if len(stmts) != 1 or stmts[0][0] != "switch" or stmts[0][1] != "m_type":
        raise TranslateError(f"{what}: expected exactly one `switch (m_type)`")
    parts = re.split(r"\b(case\s+type::\w+\s*:|default\s*:)", stmts[0][2])
    if parts[0].strip():
        raise TranslateError(f"{what}: text before the first case label")
    arms = []; seen = set(); has_default = False
    for lab, blk in zip(parts[1::2], parts[2::2]):
        m = re.fullmatch(r"\s*return\s+(.*?);\s*", blk, flags=re.S)
        if not m:
            raise TranslateError(f"{what}: a case that is not a single `return e;`: {' '.join(blk.split())[:60]}")
        e = expr(m.group(1), SPACE_BIND, lits, what)
        if has_default:
            raise TranslateError(f"{what}: case label after `default`")
        if lab.startswith("default"):
            has_default = True
            arms.append(("_", e))
        else:
            name = re.search(r"type::(\w+)", lab).group(1)
            if name not in enum or name in seen:
                raise TranslateError(f"{what}: unknown or repeated enumerator {name}")
            seen.add(name)
            arms.append(("." + name, e))
    if not has_default and seen != set(enum):
        raise TranslateError(f"{what}: the switch does not cover every enumerator and has no default")
    return arms


def gen_to_surrogate(cpp, enum, lits):
    what = "param_space_t::to_surrogate"
    body = strip_strings(method_body(cpp, "param_space_t", "to_surrogate", what))
    st = tops(body, what)
    if not st or st[0][0] != "stmt" or not st[0][1].startswith("critical("):
        raise TranslateError(f"{what}: the range guard `critical(…)` is not the first statement")
    guard = expr(first_arg(st[0][1], what), SPACE_BIND, lits, what)
    arms = type_switch(st[1:], enum, lits, what)
    txt = " ".join(body.split())
    lines = [f"/-- `{what}` ({SPACE_CPP}): `none` = the `critical` throws -/",
             "def toSurrogate (log10 : α → α) (ty : SpaceType) (mn mx value : α) : Option α :=",
             f"  if {guard} then none",
             "  else some (match ty with"]
    lines += [f"    | {p} => {e}" for p, e in arms]
    lines[-1] += ")"
    return "\n".join(lines) + "\n"


def gen_from_surrogate(cpp, enum, lits):
    what = "param_space_t::from_surrogate"
    body = strip_strings(method_body(cpp, "param_space_t", "from_surrogate", what))
    arms = type_switch(tops(body, what), enum, lits, what)
    lines = [f"/-- `{what}` ({SPACE_CPP}) -/",
             "def fromSurrogate (pow10 : α → α) (ty : SpaceType) (mn mx value : α) : α :=",
             "  match ty with"]
    lines += [f"  | {p} => {e}" for p, e in arms]
    return "\n".join(lines) + "\n"


def gen_closest_point(cpp, lits):
    """the arg-min loop: state variables declared with `auto`, one canonical `for` over the grid, body = consts + one `if` of assignments"""
    what = "param_space_t::closest_grid_point_from_surrogate"
    body = strip_strings(method_body(cpp, "param_space_t", "closest_grid_point_from_surrogate", what))
    body = body.replace("std::numeric_limits<scalar_t>::max()", "DBLMAX")
    body = re.sub(r"\btensor_size_t\s*\{\s*(\d+)\s*\}", r"\1", body)
    st = tops(body, what)
    bind = dict(SPACE_BIND)
    state = []; inits = []
    k = 0
    while k < len(st) and st[k][0] == "stmt":
        m = re.fullmatch(r"auto\s+(\w+)\s*=\s*(.+)", st[k][1])
        if not m:
            break
        inits.append(expr(m.group(2), bind, lits, what))
        state.append(m.group(1))
        k += 1
    if len(state) != 2 or k + 2 != len(st) or st[k][0] != "for" or st[k + 1][0] != "stmt":
        raise TranslateError(f"{what}: expected two state variables, one `for` loop and a `return`")
    m = re.fullmatch(r"return\s+(\w+)", st[k + 1][1])
    if not m or m.group(1) not in state:
        raise TranslateError(f"{what}: the function does not return one of its state variables")
    ret = state.index(m.group(1))
    head = st[k][1]
    m = re.fullmatch(r"(?:tensor_size_t|auto)\s+(\w+)\s*=\s*0\s*;\s*(\w+)\s*<\s*m_grid_values\.size\(\)\s*;\s*(?:\+\+(\w+)|(\w+)\+\+)", head)
    if not m or m.group(1) != m.group(2) or (m.group(3) or m.group(4)) != m.group(1):
        raise TranslateError(f"{what}: `for` header is not `for (T i = 0; i < m_grid_values.size(); ++i)`: {head}")
    lv = m.group(1)
    for n, s in enumerate(state):
        bind[s] = f"v{n}"
    bind[lv] = "point"
    loop = st[k][2]
    ts_call = re.compile(r"\bto_surrogate\s*\(\s*m_grid_values\s*\(\s*" + re.escape(lv) + r"\s*\)\s*\)")
    loop, nts = ts_call.subn("TS", loop)
    if nts != 1 or "m_grid_values" in loop or "to_surrogate" in loop:
        raise TranslateError(f"{what}: the loop body must use the grid exactly once, as to_surrogate(m_grid_values({lv}))")
    bind["TS"] = "ts"
    out = []; nconst = 0
    lst_ = tops(loop, what)
    tup = "(v0, v1)"
    for n, s in enumerate(lst_):
        if s[0] == "stmt":
            m = re.fullmatch(r"const\s+auto\s+(\w+)\s*=\s*(.+)", s[1])
            if not m or n == len(lst_) - 1:
                raise TranslateError(f"{what}: loop statement not understood: {s[1]}")
            e = expr(m.group(2), bind, lits, what)
            bind[m.group(1)] = f"c{nconst}"
            out.append(f"  let c{nconst} := {e}")
            nconst += 1
        elif s[0] == "if" and s[3] is None and n == len(lst_) - 1:
            c = expr(s[1], bind, lits, what)
            out.append(f"  if {c} then")
            b2 = dict(bind)
            for a in tops(s[2], what):
                m = re.fullmatch(r"(\w+)\s*=\s*(.+)", a[1]) if a[0] == "stmt" else None
                if not m or m.group(1) not in state:
                    raise TranslateError(f"{what}: only assignments to the state variables are understood inside the `if`")
                e = expr(m.group(2), b2, lits, what)
                out.append(f"    let v{state.index(m.group(1))} := {e}")
            out.append(f"    {tup}")
            out.append(f"  else {tup}")
        else:
            raise TranslateError(f"{what}: loop statement not understood: {s[1][:60]}")
    if not out or not out[-1].startswith("  else"):
        raise TranslateError(f"{what}: the loop body does not end in the update `if`")
    lines = [f"/-- the initial values of the two loop variables of `{what}` ({SPACE_CPP}), in declaration order -/",
             f"def closestGridPointInit (dblmax : α) : α × Nat := ({inits[0]}, {inits[1]})", "",
             "/-- … the body of its loop: `point` = the loop index, `ts` = `to_surrogate(m_grid_values(point))`, `st` = the loop variables -/",
             "def closestGridPointStep (value : α) (point : Nat) (ts : α) (st : α × Nat) : α × Nat :=",
             "  let v0 := st.1", "  let v1 := st.2"] + out + ["",
             "/-- … the function: the loop over the grid in index order (a `critical` of `to_surrogate` at any point = `none`), the returned variable -/",
             "def closestGridPoint (log10 : α → α) (dblmax : α) (ty : SpaceType) (mn mx : α) (grid : List α) (value : α) : Option Nat :=",
             "  (grid.mapM (toSurrogate log10 ty mn mx)).map fun sg =>",
             f"    (forIdx sg (closestGridPointStep value) (closestGridPointInit dblmax)).{ret + 1}"]
    return "\n".join(lines) + "\n"


def gen_ctor(cpp, enum, lits):
    """the constructor's `critical`s, in order: any of them throws"""
    what = "param_space_t::param_space_t"
    body = strip_strings(T.body_of(cpp, r"param_space_t::param_space_t\s*\(", what))
    st = tops(body, what)
    if not st or any(s[0] != "stmt" or not s[1].startswith("critical(") for s in st):
        raise TranslateError(f"{what}: the body must be a sequence of `critical(…)` statements")
    rng = r"std::begin\s*\(\s*m_grid_values\s*\)\s*,\s*std::end\s*\(\s*m_grid_values\s*\)"
    bind = {"GSIZE": "grid.length", "ISSORTED": "(isSorted grid = true)", "HASDUP": "(hasAdjEq grid = true)", "MINE": "minE", "EPS": "eps"}
    for e in enum:
        bind["ISTYPE_" + e] = f"(ty = .{e})"
    conds = []
    for s in st:
        c = first_arg(s[1], what)
        c = re.sub(r"std::unique\s*\(\s*" + rng + r"\s*\)\s*!=\s*std::end\s*\(\s*m_grid_values\s*\)", "HASDUP", c)
        c = re.sub(r"std::is_sorted\s*\(\s*" + rng + r"\s*\)", "ISSORTED", c)
        c = re.sub(r"\*\s*std::min_element\s*\(\s*" + rng + r"\s*\)", "MINE", c)
        c = c.replace("std::numeric_limits<scalar_t>::epsilon()", "EPS").replace("m_grid_values.size()", "GSIZE")
        c = re.sub(r"\bm_type\s*==\s*type::(\w+)", r"ISTYPE_\1", c)
        conds.append(expr(c, bind, lits, what))
    return "\n".join([
        f"/-- `{what}` ({SPACE_CPP}): one of the constructor's `critical`s throws (in source order). `isSorted` = `std::is_sorted`,",
        "    `hasAdjEq` = `std::unique(…) != end` on the whole grid, `minE` = `*std::min_element`, `eps` = `numeric_limits<scalar_t>::epsilon()` -/",
        "abbrev ctorThrows (isSorted hasAdjEq : List α → Bool) (eps : α) (ty : SpaceType) (grid : List α) (minE : α) : Prop :=",
        "  " + " ∨ ".join(conds)]) + "\n"


def gen_closest_value(cpp):
    what = "param_space_t::closest_grid_value_from_surrogate"
    body = " ".join(method_body(cpp, "param_space_t", "closest_grid_value_from_surrogate", what).split())
    if not re.fullmatch(r"return m_grid_values\s*\(\s*closest_grid_point_from_surrogate\s*\(\s*value\s*\)\s*\)\s*;", body):
        raise TranslateError(f"{what}: expected `return m_grid_values(closest_grid_point_from_surrogate(value));`, got `{body[:80]}`")
    return (f"/-- `{what}` ({SPACE_CPP}): the grid value at the closest point (`none`: a `critical`, or an index outside the grid) -/\n"
            "def closestGridValue (log10 : α → α) (dblmax : α) (ty : SpaceType) (mn mx : α) (grid : List α) (value : α) : Option α :=\n"
            "  (closestGridPoint log10 dblmax ty mn mx grid value).bind fun k => grid[k]?\n")


# ---------------------------------------------------------------------------------------------------------------------
# src/machine/result.cpp (arg-min scans), src/machine/tune.cpp (index arithmetic of thread_callback)

def argmin_scan(cpp, cls, name, lean, bound_re, elem_re, elem_doc, lits):
    """the same statement shape as closest_grid_point_from_surrogate: two `auto` state variables, one canonical `for`, consts, one `if`"""
    what = f"{cls}::{name}"
    body = strip_strings(method_body(cpp, cls, name, what))
    body = body.replace("std::numeric_limits<scalar_t>::max()", "DBLMAX")
    body = re.sub(r"\btensor_size_t\s*\{\s*(\d+)\s*\}", r"\1", body)
    st = [x for x in tops(body, what) if not (x[0] == "stmt" and x[1].startswith("assert"))]
    bind = {"DBLMAX": "dblmax"}
    state = []; inits = []; types = []
    k = 0
    while k < len(st) and st[k][0] == "stmt":
        m = re.fullmatch(r"auto\s+(\w+)\s*=\s*(.+)", st[k][1])
        if not m:
            break
        types.append("Nat" if re.fullmatch(r"\d+", m.group(2).strip()) else "α")
        inits.append(expr(m.group(2), bind, lits, what))
        state.append(m.group(1))
        k += 1
    if len(state) != 2 or sorted(types) != ["Nat", "α"] or k + 2 != len(st) or st[k][0] != "for" or st[k + 1][0] != "stmt":
        raise TranslateError(f"{what}: expected an index and a value state variable, one `for` loop and a `return`")
    m = re.fullmatch(r"return\s+(\w+)", st[k + 1][1])
    if not m or m.group(1) not in state:
        raise TranslateError(f"{what}: the function does not return one of its state variables")
    ret = state.index(m.group(1))
    m = re.fullmatch(r"(?:tensor_size_t|auto)\s+(\w+)\s*=\s*0\s*;\s*(\w+)\s*<\s*" + bound_re + r"\s*;\s*(?:\+\+(\w+)|(\w+)\+\+)", st[k][1])
    if not m or m.group(1) != m.group(2) or (m.group(3) or m.group(4)) != m.group(1):
        raise TranslateError(f"{what}: `for` header not understood: {st[k][1]}")
    lv = m.group(1)
    for n, sv in enumerate(state):
        bind[sv] = f"v{n}"
    bind[lv] = "trial"
    loop, ne = re.subn(elem_re.replace("LV", re.escape(lv)), "ELEM", st[k][2])
    if ne != 1:
        raise TranslateError(f"{what}: the loop body must use {elem_doc} exactly once")
    bind["ELEM"] = "e"
    out = []; nconst = 0
    lst_ = tops(loop, what)
    tup = "(v0, v1)"
    for n, x in enumerate(lst_):
        if x[0] == "stmt" and n < len(lst_) - 1:
            m = re.fullmatch(r"const\s+auto\s+(\w+)\s*=\s*(.+)", x[1])
            if not m:
                raise TranslateError(f"{what}: loop statement not understood: {x[1]}")
            out.append(f"  let c{nconst} := {expr(m.group(2), bind, lits, what)}")
            bind[m.group(1)] = f"c{nconst}"; nconst += 1
        elif x[0] == "if" and x[3] is None and n == len(lst_) - 1:
            out.append(f"  if {expr(x[1], bind, lits, what)} then")
            b2 = dict(bind)
            for a in tops(x[2], what):
                m = re.fullmatch(r"(\w+)\s*=\s*(.+)", a[1]) if a[0] == "stmt" else None
                if not m or m.group(1) not in state:
                    raise TranslateError(f"{what}: only assignments to the state variables are understood inside the `if`")
                out.append(f"    let v{state.index(m.group(1))} := {expr(m.group(2), b2, lits, what)}")
            out += [f"    {tup}", f"  else {tup}"]
        else:
            raise TranslateError(f"{what}: loop statement not understood: {x[1][:60]}")
    if not out or not out[-1].startswith("  else"):
        raise TranslateError(f"{what}: the loop body does not end in the update `if`")
    sty = f"{types[0]} × {types[1]}"
    return "\n".join([
        f"/-- `{what}` (src/machine/result.cpp): initial loop variables (declaration order), loop body (`trial` = loop index, `e` = {elem_doc}),",
        "    returned variable; the loop runs over the list `es` of the `e`s in index order -/",
        f"def {lean}Init (dblmax : α) : {sty} := ({inits[0]}, {inits[1]})", "",
        f"def {lean}Step (trial : Nat) (e : α) (st : {sty}) : {sty} :=", "  let v0 := st.1", "  let v1 := st.2"] + out + ["",
        f"def {lean} (dblmax : α) (es : List α) : Nat := (forIdx es {lean}Step ({lean}Init dblmax)).{ret + 1}", ""])


def gen_trial_value(cpp, lits):
    """result_t::value(trial, split, value): accumulator, per-fold update, final division"""
    what = "result_t::value"
    body = T.body_of(cpp, r"scalar_t\s+result_t::value\s*\(\s*const\s+tensor_size_t\s+trial\s*,", what)
    st = [x for x in tops(body, what) if not (x[0] == "stmt" and x[1].startswith("assert"))]
    if len(st) != 3 or st[0][0] != "stmt" or st[1][0] != "for" or st[2][0] != "stmt":
        raise TranslateError(f"{what}: expected `auto acc = c; for (…) {{…}} return e;`")
    m = re.fullmatch(r"auto\s+(\w+)\s*=\s*(.+)", st[0][1])
    if not m:
        raise TranslateError(f"{what}: accumulator declaration not understood: {st[0][1]}")
    acc, init = m.group(1), expr(m.group(2), {}, lits, what)
    m = re.fullmatch(r"tensor_size_t\s+(\w+)\s*=\s*0\s*,\s*(\w+)\s*=\s*this->folds\(\)\s*;\s*\1\s*<\s*\2\s*;\s*\+\+\1", st[1][1])
    if not m:
        raise TranslateError(f"{what}: the loop must run over every fold (`fold = 0, folds = this->folds(); fold < folds; ++fold`): {st[1][1]}")
    fv = m.group(1)
    inner = tops(st[1][2], what)
    if (len(inner) != 2 or inner[0][0] != "stmt" or inner[1][0] != "stmt" or
            not re.fullmatch(r"const auto (\w+) = this->stats\s*\(\s*trial\s*,\s*" + fv + r"\s*,\s*split\s*,\s*value\s*\)", inner[0][1])):
        raise TranslateError(f"{what}: loop body is not `const auto stats = this->stats(trial, fold, split, value); acc += …;`")
    sv = re.match(r"const auto (\w+)", inner[0][1]).group(1)
    m = re.fullmatch(re.escape(acc) + r"\s*\+=\s*(.+)", inner[1][1])
    if not m:
        raise TranslateError(f"{what}: `{acc} += e;` expected, got {inner[1][1]}")
    upd = expr(re.sub(r"\b" + re.escape(sv) + r"\.m_mean\b", "MEAN", m.group(1)), {"MEAN": "mean"}, lits, what)
    m = re.fullmatch(r"return\s+(.+)", st[2][1])
    if not m:
        raise TranslateError(f"{what}: `return e;` expected")
    fin = expr(re.sub(r"static_cast<scalar_t>\s*\(\s*folds\(\)\s*\)", "SCAST(NFOLDS)", m.group(1)), {acc: "acc", "NFOLDS": "folds"}, lits, what)
    return "\n".join([
        f"/-- `{what}(trial, split, value)` (src/machine/result.cpp): the accumulator, the update per fold (`mean` = `stats(trial, fold, …).m_mean`,",
        "    every fold `0 ≤ fold < folds()` once, in order), the returned value -/",
        f"def trialValueInit : α := {init}", "", f"def trialValueStep (acc mean : α) : α := (acc + {upd})", "",
        f"def trialValueFinish (acc : α) (folds : Nat) : α := {fin}", ""])


def gen_tune(cpp, lits):
    what = "nano::ml::tune"
    body = T.body_of(cpp, r"result_t\s+nano::ml::tune\s*\(", what)
    m = re.search(r"const\s+auto\s+thread_callback\s*=\s*\[&\]\s*\(\s*const\s+tensor_size_t\s+index\s*,\s*size_t\s*\)\s*\{", body)
    if not m:
        raise TranslateError(f"{what}: the lambda `thread_callback(const tensor_size_t index, size_t)` not found")
    tc = T.block_after(body, m.end() - 1)[0]
    dec = {}
    for nm in ("fold", "trial"):
        mm = re.search(r"const\s+auto\s+" + nm + r"\s*=\s*index\s*([%/])\s*folds\s*;", tc)
        if not mm:
            raise TranslateError(f"{what}: `const auto {nm} = index (%|/) folds;` not found in thread_callback")
        dec[nm] = mm.group(1)
    mm = re.search(r"\bresult\.store\s*\(", tc)
    if not mm:
        raise TranslateError(f"{what}: no `result.store(…)` in thread_callback")
    sargs = call_args("store(" + paren_after(tc, mm.end() - 1, what) + ")", what)
    b = {"old_trials": "old", "trial": "trial", "fold": "fold"}
    st_trial, st_fold = expr(sargs[0], b, lits, what), expr(sargs[1], b, lits, what)
    mm = re.search(r"=\s*result\.closest_trial\s*\(\s*params\s*,\s*([^)]*)\)", tc)
    if not mm:
        raise TranslateError(f"{what}: no `result.closest_trial(params, n)` in thread_callback")
    cmax = expr(mm.group(1), b, lits, what)
    if not re.search(r"=\s*result\.extra\s*\(\s*closest_trial\s*,\s*fold\s*\)", tc):
        raise TranslateError(f"{what}: `result.extra(closest_trial, fold)` expected in thread_callback")
    mm = re.search(r"\btpool\.map\s*\(\s*([^,]+),\s*thread_callback\s*\)", body)
    if not mm:
        raise TranslateError(f"{what}: `tpool.map(n, thread_callback)` not found")
    cnt = expr(mm.group(1), {"folds": "folds", "new_trials": "newTrials"}, lits, what)
    return "\n".join([
        f"/-- `{what}` (src/machine/tune.cpp), `thread_callback`: task index ↦ (trial, fold), the slot stored to, the number of earlier trials",
        "    searched for the closest one (its `extra` is read at the task's fold), the number of tasks handed to the pool -/",
        f"def tuneTrial (folds index : Nat) : Nat := index {dec['trial']} folds", "",
        f"def tuneFold (folds index : Nat) : Nat := index {dec['fold']} folds", "",
        f"def tuneStoreTrial (old trial fold : Nat) : Nat := {st_trial}", "",
        f"def tuneStoreFold (old trial fold : Nat) : Nat := {st_fold}", "",
        f"def tuneClosestMax (old trial fold : Nat) : Nat := {cmax}", "",
        f"def tuneTasks (folds newTrials : Nat) : Nat := {cnt}", ""])


# ---------------------------------------------------------------------------------------------------------------------
# src/tuner/util.cpp local_search, loop headers of the three optimisation loops

def gen_local_search(cpp, lits):
    what = "nano::local_search"
    body = T.body_of(cpp, r"igrids_t\s+nano::local_search\s*\(", what)
    m = re.search(r"const\s+auto\s+(\w+)\s*=\s*make_full_tensor<tensor_size_t>\s*\(\s*make_dims\s*\(\s*n_params\s*\)\s*,\s*(\d+)\s*\)\s*;", body)
    if not m:
        raise TranslateError(f"{what}: the trials per space (`make_full_tensor<tensor_size_t>(make_dims(n_params), k)`) not found")
    tps, count = m.group(1), int(m.group(2))
    st = tops(body, what)
    loops = [s for s in st if s[0] == "for"]
    if len(loops) != 1 or not re.fullmatch(r"auto\s+(\w+)\s*=\s*combinatorial_iterator_t\s*\{\s*" + tps + r"\s*\}\s*;\s*\1\s*;\s*\+\+\1", loops[0][1]):
        raise TranslateError(f"{what}: expected one loop `for (auto it = combinatorial_iterator_t{{{tps}}}; it; ++it)`")
    it = re.match(r"auto\s+(\w+)", loops[0][1]).group(1)
    inner = tops(loops[0][2], what)
    if (len(inner) != 4 or inner[0][0] != "stmt" or inner[1][0] != "stmt" or inner[2][0] != "if" or inner[3][0] != "stmt"):
        raise TranslateError(f"{what}: loop body is not `auto igrid = *it; igrid.array() = …; if (…) {{ continue; }} igrids.emplace_back(…);`")
    m = re.fullmatch(r"auto\s+(\w+)\s*=\s*\*\s*" + it, inner[0][1])
    if not m:
        raise TranslateError(f"{what}: `auto igrid = *it;` expected, got {inner[0][1]}")
    g = m.group(1)
    arr = lambda t: re.sub(r"\b(\w+)\.array\(\)", r"\1", t)
    m = re.fullmatch(re.escape(g) + r"\.array\(\)\s*=\s*(.+)", inner[1][1])
    if not m:
        raise TranslateError(f"{what}: element-wise update `{g}.array() = …` expected, got {inner[1][1]}")
    bind = {g: "igrid", "radius": "radius", "src_igrid": "src", "min_igrid": "mn", "max_igrid": "mx"}
    upd = expr(arr(m.group(1)), bind, lits, what)
    if " ".join(inner[2][2].split()) != "continue;" or inner[2][3] is not None:
        raise TranslateError(f"{what}: the range test must guard a single `continue;`")
    if not re.fullmatch(r"igrids\.emplace_back\s*\(\s*(?:std::move\s*\(\s*)?" + re.escape(g) + r"\s*\)?\s*\)", inner[3][1]):
        raise TranslateError(f"{what}: `igrids.emplace_back(igrid)` expected, got {inner[3][1]}")
    terms = []
    for part in inner[2][1].split("||"):
        m = re.fullmatch(r"\s*\((.+)\)\s*\.minCoeff\(\)\s*<\s*0\s*", part)
        if not m:
            raise TranslateError(f"{what}: range test term not of the form `(e).minCoeff() < 0`: {part.strip()}")
        terms.append("decide (" + expr(arr(m.group(1)), bind, lits, what) + " < 0)")
    return "\n".join([
        f"/-- `{what}` ({UTIL_CPP}): the number of trials per space handed to `combinatorial_iterator_t` -/",
        f"def trialsPerSpace : Nat := {count}", "",
        "/-- … the element-wise update of the combination `igrid` (one coordinate) -/",
        "def localSearchCoord (igrid radius src : Int) : Int :=", f"  {upd}", "",
        "/-- … the `continue` test, one coordinate (`(e).minCoeff() < 0 || …`: some coordinate of some `e` is negative) -/",
        "def localSearchOutside (igrid mn mx : Int) : Bool :=", "  " + " || ".join(terms)]) + "\n"


def gen_igrids(cpp, lits):
    """make_min_igrid (a constant fill), make_max_igrid / make_avg_igrid (one expression of the grid size per space)"""
    out = []
    what = "nano::make_min_igrid"
    body = " ".join(T.body_of(cpp, r"igrid_t\s+nano::make_min_igrid\s*\(", what).split())
    m = re.fullmatch(r"const auto n_params = static_cast<tensor_size_t>\s*\(\s*spaces\.size\(\)\s*\); "
                     r"return make_full_tensor<tensor_size_t>\s*\(\s*make_dims\s*\(\s*n_params\s*\)\s*,\s*(-?\d+)\s*\);", body)
    if not m:
        raise TranslateError(f"{what}: `return make_full_tensor<tensor_size_t>(make_dims(n_params), k);` expected, got {body[:120]}")
    out += [f"/-- `{what}` ({UTIL_CPP}): every coordinate -/", f"def minIgridCoord : Int := {m.group(1)}", ""]
    for nm, lean in (("make_max_igrid", "maxIgridCoord"), ("make_avg_igrid", "avgIgridCoord")):
        what = "nano::" + nm
        st = tops(T.body_of(cpp, r"igrid_t\s+nano::" + nm + r"\s*\(", what), what)
        loops = [x for x in st if x[0] == "for"]
        if len(st) != 4 or len(loops) != 1 or st[3] != ("stmt", "return igrid"):
            raise TranslateError(f"{what}: expected `n_params = …; auto igrid = …; for (…) {{…}} return igrid;`")
        m = re.fullmatch(r"tensor_size_t\s+(\w+)\s*=\s*0\s*;\s*\1\s*<\s*n_params\s*;\s*\+\+\1", loops[0][1])
        if not m:
            raise TranslateError(f"{what}: `for` header not understood: {loops[0][1]}")
        iv = m.group(1)
        inner = tops(loops[0][2], what)
        if (len(inner) != 2 or inner[0][0] != "stmt" or inner[1][0] != "stmt" or
                not re.fullmatch(r"const auto&\s*space\s*=\s*spaces\s*\[\s*static_cast<size_t>\s*\(\s*" + iv + r"\s*\)\s*\]", inner[0][1])):
            raise TranslateError(f"{what}: loop body is not `const auto& space = spaces[i]; igrid(i) = e;`")
        m = re.fullmatch(r"igrid\s*\(\s*" + iv + r"\s*\)\s*=\s*(.+)", inner[1][1])
        if not m:
            raise TranslateError(f"{what}: `igrid({iv}) = e;` expected, got {inner[1][1]}")
        e = expr(m.group(1).replace("space.values().size()", "GSIZE"), {"GSIZE": "size"}, lits, what)
        out += [f"/-- `{what}` ({UTIL_CPP}): the coordinate of a space with `size` grid values -/", f"def {lean} (size : Int) : Int := {e}", ""]
    return "\n".join(out)


def gen_evaluate(cpp, lits):
    """nano::evaluate: the STL idioms are recognised as whole statements (find_if != end ↦ any, remove_if + erase ↦ filter); the equality
    test of the inner lambda and the condition of the `critical` are parsed"""
    what = "nano::evaluate"
    body = strip_strings(T.body_of(cpp, r"bool\s+nano::evaluate\s*\(", what))
    flat = " ".join(body.split())
    m = re.match(r"const auto (\w+) = \[&\]\(const igrid_t& (\w+)\) \{ const auto (\w+) = \[&\]\(const auto& (\w+)\) \{ return (.+?); \}; "
                 r"return std::find_if\(steps\.begin\(\), steps\.end\(\), (\w+)\) != steps\.end\(\); \}; "
                 r"const auto (\w+) = std::remove_if\(igrids\.begin\(\), igrids\.end\(\), (\w+)\); igrids\.erase\((\w+), igrids\.end\(\)\); "
                 r"if \(igrids\.empty\(\)\) \{ return (\w+); \} ", flat)
    if (not m or m.group(6) != m.group(3) or m.group(8) != m.group(1) or m.group(9) != m.group(7) or m.group(10) != "false"):
        raise TranslateError(f"{what}: the filter of the grid points already evaluated (lambda + find_if, remove_if + erase, "
                             f"`if (igrids.empty()) return false`) is not in the understood form")
    ig, stp = m.group(2), m.group(4)
    mm = re.fullmatch(re.escape(stp) + r"\.m_igrid\s*==\s*" + re.escape(ig) + "|" + re.escape(ig) + r"\s*==\s*" + re.escape(stp) + r"\.m_igrid", m.group(5).strip())
    if not mm:
        raise TranslateError(f"{what}: the test of the inner lambda is not `step.m_igrid == igrid`: {m.group(5)}")
    rest = flat[m.end():]
    m = re.fullmatch(r"const auto (?P<bef>\w+) = steps\.size\(\); const auto (?P<par>\w+) = map_to_grid\(spaces, igrids\); const auto (?P<val>\w+) = callback\((?P=par)\); "
                     r"for \(tensor_size_t (?P<it>\w+) = 0; (?P=it) < (?P=val)\.size\(\); \+\+(?P=it)\) \{ const auto& (?P<ig>\w+) = igrids\[static_cast<size_t>\((?P=it)\)\]; "
                     r"(?P<crit>critical\(.+?\)); steps\.emplace_back\(tuner_step_t\{(?P=ig), (?P=par)\.tensor\((?P=it)\), (?P=val)\((?P=it)\)\}\); \} "
                     r"std::sort\(steps\.begin\(\), steps\.end\(\)\); return steps\.size\(\) != (?P=bef);", rest)
    if not m:
        raise TranslateError(f"{what}: the evaluation part (callback, loop with `critical` + emplace_back, sort, return) is not in the understood form: {rest[:160]}")
    cond = first_arg(m.group("crit"), what).replace(f"{m.group('val')}({m.group('it')})", "VALUE")
    rej = expr(cond, {"VALUE": "v"}, lits, what)
    return "\n".join([
        f"/-- `{what}` ({UTIL_CPP}): the test of the inner lambda (`m_igrid` of a step against a proposed point), `find_if(…) != end` over the",
        "    steps, `remove_if` + `erase` over the proposed points; then (recognised as whole statements, in this order): nothing left ⇒ `return false`,",
        "    one call back, per value the `critical` below, `emplace_back`, `std::sort`, `return steps.size() != before` -/",
        "def evaluateSame (m_igrid igrid : List Int) : Bool := m_igrid == igrid", "",
        "def evaluateKnown (stepIgrids : List (List Int)) (igrid : List Int) : Bool := stepIgrids.any fun m_igrid => evaluateSame m_igrid igrid", "",
        "def evaluateFresh (stepIgrids igrids : List (List Int)) : List (List Int) := igrids.filter fun igrid => !(evaluateKnown stepIgrids igrid)", "",
        "/-- … the condition of its `critical` on a returned value -/",
        "def evaluateRejects {α : Type} (fin : α → Bool) (v : α) : Bool :=", f"  decide {rej}", ""])


def loop_header(body, what, radius_arg):
    """the `for` that calls local_search + evaluate: (init radius | None, guard, step | None, radius argument of local_search)"""
    loops = [s for s in tops(body, what) if s[0] == "for" and "local_search" in s[2] and "evaluate" in s[2]]
    if len(loops) != 1:
        raise TranslateError(f"{what}: expected exactly one loop around local_search + evaluate")
    parts = [p.strip() for p in loops[0][1].split(";")]
    if len(parts) != 3:
        raise TranslateError(f"{what}: `for` header not understood: {loops[0][1]}")
    inner = tops(loops[0][2], what)
    calls = [s for s in inner if s[0] == "stmt" and re.search(r"=\s*local_search\s*\(", s[1])]
    if len(calls) != 1:
        raise TranslateError(f"{what}: expected one call of local_search in the loop")
    args = call_args(calls[0][1].split("=", 1)[1].strip(), what)
    if len(args) != 4 or args[0] != "min_igrid" or args[1] != "max_igrid":
        raise TranslateError(f"{what}: local_search(min_igrid, max_igrid, src, radius) expected, got {args}")
    last = inner[-1]
    if (last[0] != "if" or not re.fullmatch(r"!\s*evaluate\s*\(\s*spaces\s*,\s*callback\s*,\s*igrids\s*,\s*logger\s*,\s*steps\s*\)", last[1])
            or " ".join(last[2].split()) != "break;" or last[3] is not None):
        raise TranslateError(f"{what}: the loop must end in `if (!evaluate(spaces, callback, igrids, logger, steps)) {{ break; }}`")
    return parts, args


GUARD_BIND = {"NSTEPS": "nsteps", "max_evals": "maxEvals", "EMPTY": "(nsteps = 0)"}


def guard_expr(text, lits, what):
    t = text.replace("steps.empty()", "EMPTY").replace("steps.size()", "NSTEPS")
    return expr(t, GUARD_BIND, lits, what)


def gen_loop_headers(tuner_cpp, local_cpp, surr_cpp, lits):
    out = []
    what = "tuner_t::optimize"
    obody = strip_strings(T.body_of(tuner_cpp, r"tuner_steps_t\s+tuner_t::optimize\s*\(", what))
    ost = tops(obody, what)
    if not ost or ost[0][0] != "stmt" or not ost[0][1].startswith("critical("):
        raise TranslateError(f"{what}: the `critical(…)` on the spaces is not the first statement")
    refuse = expr(first_arg(ost[0][1], what).replace("spaces.empty()", "NOSPACES"), {"NOSPACES": "(nspaces = 0)"}, lits, what)
    firsts = [x[1] for x in ost if x[0] == "stmt" and x[1].startswith("evaluate")]
    if firsts != ["evaluate(spaces, callback, igrids_t{avg_igrid}, logger, steps)"] or ost[-2:] != [("stmt", "do_optimize(spaces, callback, logger, steps)"), ("stmt", "return steps")]:
        raise TranslateError(f"{what}: expected `evaluate(spaces, callback, igrids_t{{avg_igrid}}, logger, steps);` before the coarse loop and "
                             f"`do_optimize(spaces, callback, logger, steps); return steps;` after it")
    out += [f"/-- `{what}` ({TUNER_CPP}): the condition of its `critical` (then: evaluate `avg_igrid`, the coarse loop, `do_optimize`, `return steps`) -/",
            "abbrev optimizeRefuses (nspaces : Nat) : Prop :=", "  " + refuse, ""]
    parts, args = loop_header(obody, what, None)
    m = re.fullmatch(r"(?:tensor_size_t|auto)\s+(\w+)\s*=\s*(\d+)", parts[0])
    if not m:
        raise TranslateError(f"{what}: `for (tensor_size_t radius = k; …` expected, got {parts[0]}")
    rv, r0 = m.group(1), m.group(2)
    if args[3] != rv or args[2] != "steps.begin()->m_igrid":
        raise TranslateError(f"{what}: local_search(…, steps.begin()->m_igrid, {rv}) expected, got {args}")
    m = re.fullmatch(re.escape(rv) + r"\s*\*=\s*(\d+)", parts[2])
    if not m:
        raise TranslateError(f"{what}: `{rv} *= k` expected, got {parts[2]}")
    out += [f"/-- `{what}` ({TUNER_CPP}), the coarse initialisation loop: first radius, loop condition, next radius; the centre is `steps.begin()->m_igrid` -/",
            f"def coarseRadius0 : Int := {r0}", "",
            "abbrev coarseContinue (nsteps maxEvals : Nat) : Prop :=", "  " + guard_expr(parts[1], lits, what), "",
            f"def coarseNextRadius (radius : Int) : Int := radius * {m.group(1)}", ""]
    for nm, cpp, cls, path, centre in (("local", local_cpp, "local_search_tuner_t", LOCAL_CPP, "steps.begin()->m_igrid"),
                                       ("surrogate", surr_cpp, "surrogate_tuner_t", SURR_CPP, "src_igrid")):
        what = f"{cls}::do_optimize"
        parts, args = loop_header(T.body_of(cpp, r"void\s+" + cls + r"::do_optimize\s*\(", what), what, None)
        if parts[0] or parts[2]:
            raise TranslateError(f"{what}: `for (; cond;)` expected, got {parts}")
        if args[2] != centre or not re.fullmatch(r"\d+", args[3]):
            raise TranslateError(f"{what}: local_search(…, {centre}, k) expected, got {args}")
        out += [f"/-- `{what}` ({path}): the loop condition and the radius; the centre is `{centre}` -/",
                f"abbrev {nm}Continue (nsteps maxEvals : Nat) : Prop :=", "  " + guard_expr(parts[1], lits, what), "",
                f"def {nm}Radius : Int := {args[3]}", ""]
    return "\n".join(out)


# ---------------------------------------------------------------------------------------------------------------------
# src/tuner/surrogate.cpp: number of coefficients and the index walks

FOR_HEAD = re.compile(r"tensor_size_t\s+(\w+)\s*=\s*(\w+)\s*((?:,\s*\w+\s*=\s*[\w.<>()]+\s*)*);\s*(\w+)\s*(<=?)\s*(\w+)\s*;\s*(?:\+\+(\w+)|(\w+)\+\+)")


def for_head(head, what, alias):
    """canonical header -> (var, lo, hi); further declarators must be aliases of the dimension"""
    m = FOR_HEAD.fullmatch(head)
    if not m or m.group(4) != m.group(1) or (m.group(7) or m.group(8)) != m.group(1):
        raise TranslateError(f"{what}: `for` header not understood: {head}")
    al = dict(alias)
    for d in [d.strip() for d in m.group(3).split(",") if d.strip()]:
        n, e = [x.strip() for x in d.split("=", 1)]
        if e not in alias:
            raise TranslateError(f"{what}: declarator `{d}` in a `for` header is not an alias of a known size")
        al[n] = alias[e]
    return m.group(1), m.group(2), (m.group(6), m.group(5) == "<="), al


def pair_space(loop, what, alias, names=("i", "j")):
    """a `for` nest of depth 2 -> Lean list of the index pairs in iteration order, loop-variable binding, innermost body"""
    v1, lo1, hi1, al = for_head(loop[1], what, alias)
    inner = tops(loop[2], what)
    if len(inner) != 1 or inner[0][0] != "for":
        raise TranslateError(f"{what}: expected a loop nest of depth 2")
    v2, lo2, hi2, al2 = for_head(inner[0][1], what, al)
    ren = {v1: names[0], v2: names[1]}

    def bound(t, scope):
        if isinstance(t, tuple):      # upper bound: (text, inclusive)
            b = bound(t[0], scope)
            return f"({b} + 1)" if t[1] else b
        if re.fullmatch(r"\d+", t):
            return t
        if t in scope:
            return scope[t]
        raise TranslateError(f"{what}: loop bound `{t}` not understood")
    s1 = dict(al); a, b = bound(lo1, s1), bound(hi1, s1)
    s2 = dict(al2); s2[v1] = names[0]; c, d = bound(lo2, s2), bound(hi2, s2)
    space = (f"(List.range' {a} ({b} - {a})).flatMap fun {names[0]} => (List.range' {c} ({d} - {c})).map fun {names[1]} => (i, j)")
    return space, ren, inner[0][2]


def single_space(loop, what, alias):
    v, lo, hi, al = for_head(loop[1], what, alias)
    if lo != "0" or hi[1] or al.get(hi[0]) != "n":
        raise TranslateError(f"{what}: the first-order loop must run over 0 ≤ i < size, got {loop[1]}")
    return v, loop[2]


def walk_subst(text, coef, what):
    """`m(k)` / `m(k++)` -> Q (checked: exactly one `k++`, after every plain use); `x(v)` -> X_v"""
    uses = [(m.start(), m.group(1)) for m in re.finditer(re.escape(coef) + r"\s*\(\s*k(\+\+)?\s*\)", text)]
    incs = [u for u in uses if u[1]]
    if len(incs) != 1 or uses[-1] != incs[0]:
        raise TranslateError(f"{what}: every innermost body must consume exactly one coefficient, `k++` being its last use: {' '.join(text.split())}")
    t = re.sub(re.escape(coef) + r"\s*\(\s*k(\+\+)?\s*\)", "Q", text)
    if re.search(r"\bk\b", t):
        raise TranslateError(f"{what}: other use of the walk index `k`: {' '.join(text.split())}")
    return t


def k_init(st, what):
    m = re.fullmatch(r"auto\s+k\s*=\s*tensor_size_t\s*\{\s*(\d+)\s*\}", st[1]) if st[0] == "stmt" else None
    if not m:
        raise TranslateError(f"{what}: `auto k = tensor_size_t{{c}};` expected, got {st[1][:60]}")
    return m.group(1)


def xs(text, ren):
    """x(v) -> symbol per renamed loop variable"""
    def rep(m):
        if m.group(1) not in ren:
            raise TranslateError(f"index `{m.group(1)}` of x is not a loop variable")
        return "X_" + ren[m.group(1)]
    return re.sub(r"\bx\s*\(\s*(\w+)\s*\)", rep, text)


X_BIND = {"X_i": "(x.getD i 0)", "X_j": "(x.getD j 0)", "Q": "q", "fx": "fx"}


def gen_surrogate(cpp, lits):
    out = []
    # --- quadratic_surrogate_fit_t ctor: number of coefficients, feature map
    what = "quadratic_surrogate_fit_t::quadratic_surrogate_fit_t"
    m = re.search(r"quadratic_surrogate_fit_t::quadratic_surrogate_fit_t\s*\([^)]*\)\s*:\s*function_t\s*\(", cpp)
    if not m:
        raise TranslateError(f"{what}: constructor with a `function_t(name, size)` initialiser not found")
    a = call_args(strip_strings("function_t(" + paren_after(cpp, m.end() - 1, what) + ")"), what)
    if len(a) != 2:
        raise TranslateError(f"{what}: function_t(name, size) expected")
    nexpr = expr(a[1].replace("p.cols()", "NCOLS"), {"NCOLS": "n"}, lits, what)
    out += [f"/-- `{what}` ({SURR_CPP}): the dimension handed to `function_t`, `n = p.cols()` -/",
            f"def quadLen (n : Nat) : Nat := {nexpr}", ""]
    body = T.body_of(cpp, r"quadratic_surrogate_fit_t::quadratic_surrogate_fit_t\s*\(", what)
    outer = [s for s in tops(body, what) if s[0] == "for"]
    if len(outer) != 1:
        raise TranslateError(f"{what}: expected one loop over the samples")
    m = re.fullmatch(r"tensor_size_t\s+(\w+)\s*=\s*0\s*,\s*(\w+)\s*=\s*p\.size<0>\(\)\s*,\s*(\w+)\s*=\s*p\.size<1>\(\)\s*;\s*\1\s*<\s*\2\s*;\s*\+\+\1", outer[0][1])
    if not m:
        raise TranslateError(f"{what}: sample loop header not understood: {outer[0][1]}")
    smp, size = m.group(1), m.group(3)
    inner = tops(outer[0][2], what)
    if len(inner) != 4 or inner[2][0] != "for" or inner[3][0] != "for":
        raise TranslateError(f"{what}: expected `auto k = …; m_p2(sample, k++) = c; for …; for … for …`")
    if k_init(inner[0], what) != "0":
        raise TranslateError(f"{what}: the walk must start at column 0")
    lhs = r"m_p2\s*\(\s*" + smp + r"\s*,\s*k\+\+\s*\)\s*=\s*"
    m = re.fullmatch(lhs + r"(.+)", inner[1][1])
    if not m:
        raise TranslateError(f"{what}: `m_p2({smp}, k++) = c;` expected, got {inner[1][1]}")
    const = expr(m.group(1), {}, lits, what)
    v, b = single_space(inner[2], what, {size: "n"})
    if not re.fullmatch(lhs + r"p\s*\(\s*" + smp + r"\s*,\s*" + v + r"\s*\)\s*;\s*", b.strip()):
        raise TranslateError(f"{what}: the first-order columns must be the copy `m_p2({smp}, k++) = p({smp}, {v});`")
    space, ren, b = pair_space(inner[3], what, {size: "n"})
    m = re.fullmatch(lhs + r"(.+);\s*", b.strip(), flags=re.S)
    if not m:
        raise TranslateError(f"{what}: second-order column statement not understood: {' '.join(b.split())}")
    def ps(mm):
        if mm.group(1) not in ren:
            raise TranslateError(f"{what}: index `{mm.group(1)}` of p is not a loop variable")
        return "P_" + ren[mm.group(1)]
    term = expr(re.sub(r"\bp\s*\(\s*" + smp + r"\s*,\s*(\w+)\s*\)", ps, m.group(1)),
                {"P_i": "(p.getD i 0)", "P_j": "(p.getD j 0)"}, lits, what)
    out += ["/-- … the feature map (one row of `m_p2`): column 0, then a copy of the `n` coordinates (checked by the translator), then one column",
            "    per index pair of the loop nest, in iteration order (`k++`) -/",
            f"def featConst : α := {const}", "",
            f"def featPairIdx (n : Nat) : List (Nat × Nat) :=\n  {space}", "",
            f"def featTerm (p : List α) (i j : Nat) : α := {term}", ""]
    # --- quadratic_surrogate_t ctor
    what = "quadratic_surrogate_t::quadratic_surrogate_t"
    m = re.search(r"quadratic_surrogate_t::quadratic_surrogate_t\s*\([^)]*\)\s*:\s*function_t\s*\(", cpp)
    if not m:
        raise TranslateError(f"{what}: constructor with a `function_t(name, size)` initialiser not found")
    a = call_args(strip_strings("function_t(" + paren_after(cpp, m.end() - 1, what) + ")"), what)
    if len(a) != 2:
        raise TranslateError(f"{what}: function_t(name, size) expected")
    t = re.sub(r"static_cast<tensor_size_t>\s*\(\s*std::sqrt\s*\(", "ISQRT((", a[1]).replace("model.size()", "MSIZE")
    dexpr = expr(t, {"MSIZE": "size"}, lits, what)
    body = T.body_of(cpp, r"quadratic_surrogate_t::quadratic_surrogate_t\s*\(", what)
    asserts = [s[1] for s in tops(body, what) if s[0] == "stmt" and s[1].startswith("assert")]
    if not asserts:
        raise TranslateError(f"{what}: no assert in the constructor")
    conds = []
    for s in asserts:
        c = s[len("assert"):].strip()
        c = c.replace("m_model.size()", "MSIZE").replace("size()", "NDIM")
        conds.append(expr(c, {"MSIZE": "size", "NDIM": "n"}, lits, what))
    out += [f"/-- `{what}` ({SURR_CPP}): the dimension derived from the number of coefficients (`static_cast<tensor_size_t>(std::sqrt(e))` = `Nat.sqrt e`)",
            "    and the constructor's `assert`s (`n` = `size()`, `size` = `m_model.size()`) -/",
            f"def quadDim (size : Nat) : Nat := {dexpr}", "",
            "abbrev QuadSizeOk (n size : Nat) : Prop :=", "  " + " ∧ ".join(conds), ""]
    # --- quadratic_surrogate_t::do_vgrad
    what = "quadratic_surrogate_t::do_vgrad"
    body = T.body_of(cpp, r"scalar_t\s+quadratic_surrogate_t::do_vgrad\s*\(", what)
    st = tops(body, what)
    if (len(st) != 6 or st[0][0] != "if" or " ".join(st[0][1].split()) != "gx.size() == x.size()" or st[0][3] is not None
            or st[3][0] != "for" or st[4][0] != "for" or st[5] != ("stmt", "return fx")):
        raise TranslateError(f"{what}: expected `if (gx.size() == x.size()) {{…}} scalar_t fx = …; auto k = …; for …; for … for …; return fx;`")
    alias = {"x.size()": "n"}
    # gradient
    g = tops(st[0][2], what)
    if len(g) != 4 or g[0] != ("stmt", "gx.zero()") or g[2][0] != "for" or g[3][0] != "for":
        raise TranslateError(f"{what}: gradient block is not `gx.zero(); auto k = …; for …; for … for …`")
    gk0 = k_init(g[1], what)
    v, b = single_space(g[2], what, alias)
    m = re.fullmatch(r"gx\s*\(\s*" + v + r"\s*\)\s*\+=\s*(.+);\s*", b.strip(), flags=re.S)
    if not m:
        raise TranslateError(f"{what}: first-order gradient statement not understood: {' '.join(b.split())}")
    glin = expr(walk_subst(m.group(1), "m_model", what), {"Q": "q", "G": "g"}, lits, what)
    space, ren, b = pair_space(g[3], what, alias)
    b = walk_subst(b, "m_model", what)
    upd = "g"
    for s in tops(b, what):
        m = re.fullmatch(r"gx\s*\(\s*(\w+)\s*\)\s*\+=\s*(.+)", s[1]) if s[0] == "stmt" else None
        if not m or m.group(1) not in ren:
            raise TranslateError(f"{what}: second-order gradient statement not understood: {s[1][:60]}")
        upd = f"(addAt {upd} {ren[m.group(1)]} {expr(xs(m.group(2), ren), X_BIND, lits, what)})"
    out += [f"/-- `{what}` ({SURR_CPP}), the gradient: after `gx.zero()`, first coefficient used (`k`), the first-order update `gx(i) += …`",
            "    (`g` = the old `gx(i)`, `q` = `m_model(k++)`), the index pairs of the loop nest in iteration order, the second-order updates",
            "    (`addAt g i c` = `gx(i) += c`) -/",
            f"def gradK0 : Nat := {gk0}", "",
            f"def gradLin (g q : α) : α := (g + {glin})", "",
            f"def gradPairIdx (n : Nat) : List (Nat × Nat) :=\n  {space}", "",
            "def gradTerm (addAt : List α → Nat → α → List α) (x g : List α) (q : α) (i j : Nat) : List α :=", f"  {upd}", ""]
    # value
    m = re.fullmatch(r"scalar_t\s+fx\s*=\s*m_model\s*\(\s*(\d+)\s*\)", st[1][1]) if st[1][0] == "stmt" else None
    if not m:
        raise TranslateError(f"{what}: `scalar_t fx = m_model(c);` expected, got {st[1][1][:60]}")
    v0 = m.group(1)
    vk0 = k_init(st[2], what)
    v, b = single_space(st[3], what, alias)
    m = re.fullmatch(r"fx\s*\+=\s*(.+);\s*", b.strip(), flags=re.S)
    if not m:
        raise TranslateError(f"{what}: first-order value statement not understood: {' '.join(b.split())}")
    vlin = expr(xs(walk_subst(m.group(1), "m_model", what), {v: "i"}), {"Q": "q", "X_i": "xi"}, lits, what)
    space, ren, b = pair_space(st[4], what, alias)
    m = re.fullmatch(r"fx\s*\+=\s*(.+);\s*", b.strip(), flags=re.S)
    if not m:
        raise TranslateError(f"{what}: second-order value statement not understood: {' '.join(b.split())}")
    vterm = expr(xs(walk_subst(m.group(1), "m_model", what), ren), X_BIND, lits, what)
    out += ["/-- … the value: index of the constant coefficient, first coefficient used by the loops (`k`), the first-order update `fx += …`",
            "    (`xi` = `x(i)`), the index pairs of the loop nest in iteration order, the second-order update -/",
            f"def valueInitIdx : Nat := {v0}", "", f"def valueK0 : Nat := {vk0}", "",
            f"def valueLin (fx q xi : α) : α := (fx + {vlin})", "",
            f"def valuePairIdx (n : Nat) : List (Nat × Nat) :=\n  {space}", "",
            f"def valueTerm (x : List α) (fx q : α) (i j : Nat) : α := (fx + {vterm})", "",
            "/-- … the value with the walk index threaded explicitly: state `(fx, k)`, `m_model(k)` ↦ `m.getD k 0`, one `k + 1` per innermost body",
            "    (every body consumes exactly one coefficient, `k++` being its last use — checked by the translator) -/",
            "def quadValueWalk (m x : List α) : α :=",
            "  let n := x.length",
            "  let st : α × Nat := (m.getD valueInitIdx 0, valueK0)",
            "  let st := (List.range' 0 (n - 0)).foldl (fun (st : α × Nat) i => (valueLin st.1 (m.getD st.2 0) (x.getD i 0), st.2 + 1)) st",
            "  let st := (valuePairIdx n).foldl (fun (st : α × Nat) ij => (valueTerm x st.1 (m.getD st.2 0) ij.1 ij.2, st.2 + 1)) st",
            "  st.1", "",
            "/-- … the second-order loop nest of the gradient, likewise; `g0` = `gx` after the first-order loop, which has advanced `k` by `x.size()` -/",
            "def quadGradWalk2 (addAt : List α → Nat → α → List α) (m x g0 : List α) : List α :=",
            "  ((gradPairIdx x.length).foldl (fun (st : List α × Nat) ij => (gradTerm addAt x st.1 (m.getD st.2 0) ij.1 ij.2, st.2 + 1))",
            "    (g0, gradK0 + x.length)).1", ""]
    return "\n".join(out)


HEADER = """-- GENERATED by tools/props/c13.py from src/tuner/space.cpp, include/nano/tuner/space.h, src/tuner/util.cpp, src/tuner/local.cpp, src/tuner.cpp, src/tuner/surrogate.cpp, src/machine/result.cpp, src/machine/tune.cpp — do not edit
/-!
  The scalar and index code of libnano's parameter spaces and tuners, re-translated from the C++ source text on every check
  (DESIGN.md §2.3.a; translator tools/props/c13_translate.py). Core Lean only; self-contained (no import). Scalar-generic.
  `Proofs/TunerGen.lean` (`model_…_is_generated`) ties the hand-written text of Model/Tuner.lean and Model/TunerSurrogate.lean — which the
  driver runs at `Float` — to these definitions, for every scalar type.

  `std::log10`, `std::pow(10.0, ·)` are the parameters `log10`, `pow10`; `std::numeric_limits<scalar_t>::max()` is `dblmax`;
  `std::fabs(x)` ↦ `gabs x`, `std::clamp(v, lo, hi)` ↦ `gclamp v lo hi` = `(v < lo) ? lo : (hi < v) ? hi : v` (libstdc++);
  `critical(c, …)` ↦ `if c then none`; `m_min`, `m_max` ↦ `mn`, `mx`; C++ locals are renamed (`v0 v1 …` loop state in declaration order,
  `c0 …` constants, loop variables `point`, `i`, `j`). A `for` over the grid is `forIdx` (elements with their indices, in order); a loop
  nest over index pairs is given as the LIST of pairs in iteration order plus the update per pair; the coefficient walk `m(k++)` consumes
  one coefficient per pair in that order (checked by the translator).
-/
set_option linter.unusedVariables false
namespace NanoVerif.Gen.TunerSpace

/-- `for (i = 0; i < l.size(); ++i) st = body(i, l(i), st)` -/
def forIdx {β σ : Type} (l : List β) (body : Nat → β → σ → σ) (init : σ) : σ := go l 0 init
where
  go : List β → Nat → σ → σ
    | [], _, st => st
    | b :: rest, i, st => go rest (i + 1) (body i b st)
"""


def generate(repo):
    def rd(p):
        try:
            return T.strip_comments(open(os.path.join(repo, p)).read())
        except OSError as ex:
            raise TranslateError(f"cannot read {p}: {ex}")
    space_cpp, space_h, util_cpp = rd(SPACE_CPP), rd(SPACE_H), rd(UTIL_CPP)
    local_cpp, tuner_cpp, surr_cpp = rd(LOCAL_CPP), rd(TUNER_CPP), rd(SURR_CPP)
    lits = T.Lits()
    enum = space_enum(space_h)
    ints = [gen_tune(rd("src/machine/tune.cpp"), lits), gen_igrids(util_cpp, lits), gen_evaluate(util_cpp, lits), gen_local_search(util_cpp, lits), gen_loop_headers(tuner_cpp, local_cpp, surr_cpp, lits)]
    if lits.used:
        raise TranslateError("floating literal in integer code")
    pieces = [gen_ctor(space_cpp, enum, lits), gen_to_surrogate(space_cpp, enum, lits), gen_from_surrogate(space_cpp, enum, lits), gen_closest_point(space_cpp, lits),
              gen_closest_value(space_cpp), gen_surrogate(surr_cpp, lits)]
    scans = [argmin_scan(rd("src/machine/result.cpp"), "result_t", "optimum_trial", "optimumTrial", r"trials\s*\(\s*\)",
                          r"this\s*->\s*value\s*\(\s*LV\s*\)", "`this->value(trial)`", lits),
              argmin_scan(rd("src/machine/result.cpp"), "result_t", "closest_trial", "closestTrial", r"max_trials",
                          r"\(\s*m_params\.tensor\s*\(\s*LV\s*\)\s*-\s*params\s*\)\s*\.lpNorm<2>\s*\(\s*\)",
                          "`(m_params.tensor(trial) - params).lpNorm<2>()`", lits)]
    out = [HEADER]
    out.append(f"/-- `enum class type` of `param_space_t` ({SPACE_H}) -/\ninductive SpaceType where\n" + "\n".join(f"  | {m}" for m in enum)
               + "\nderiving DecidableEq, Repr\n")
    out += ints
    need = sorted(lits.used | {0})
    ofn = " ".join(f"[OfNat α {n}]" for n in need)
    out.append(f"section\nvariable {{α : Type}} [Add α] [Sub α] [Mul α] [Div α] [Neg α] [LT α] [DecidableLT α] {ofn}\n")
    out.append("/-- `std::fabs` -/\ndef gabs (x : α) : α := if x < 0 then -x else x\n")
    out.append("/-- `std::clamp(v, lo, hi)` -/\ndef gclamp (v lo hi : α) : α := if v < lo then lo else if hi < v then hi else v\n")
    out += pieces
    out.append("end\n\nsection\nvariable {α : Type} [LT α] [DecidableLT α]\n")
    out += scans
    l2 = T.Lits()
    tv = gen_trial_value(rd("src/machine/result.cpp"), l2)
    ofn2 = " ".join(f"[OfNat α {n}]" for n in sorted(l2.used | {0}))
    out.append(f"end\n\nsection\nvariable {{α : Type}} [Add α] [Div α] [NatCast α] {ofn2}\n")
    out.append(tv)
    out.append("end\nend NanoVerif.Gen.TunerSpace\n")
    return "\n".join(out)


def translate():
    try:
        text = generate(vlib.REPO)
    except TranslateError as ex:
        raise vlib.Broken("translate", f"c13_translate: {ex}")
    vlib.write_if_changed(OUT, text)
    return OUT


if __name__ == "__main__":
    import sys
    try:
        sys.stdout.write(generate(sys.argv[1] if len(sys.argv) > 1 else vlib.REPO))
    except TranslateError as ex:
        sys.exit("c13_translate: " + str(ex))
