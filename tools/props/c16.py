"""C16 — tensor indexing, slicing, reshaping (DESIGN.md §4 C16)."""
import itertools
from vlib import Toks, lst
from props import c16_hist, c16_translate

ID = "C16"
LEVEL = "proof"
HARNESS = "c16"
LEAN_MODULES = ["NanoVerif.Props.C16", "NanoVerif.Proofs.TensorGenerated"]


def translate():
    """Gen/TensorIndex.lean (the template recursions of dims.h), Gen/TensorGuards.lean (range.h; tslice / treshape / arange of
    tensor.h) and Gen/TensorIntegral.lean (the two loops of integral.h), re-translated from the source of the repository under check"""
    return c16_translate.translate()



NS = "NanoVerif.Tensor."
OBLIGATIONS = [NS + t for t in [
    "index_lt_size", "unindex_index", "index_unindex", "valid_unindex", "index_injective",
    "index_append", "subview_in_bounds", "sub_get", "sub_wf", "slice_get", "slice_wf",
    "reshape_size", "reshape_wf", "reshape_rejects_negative", "gather_dims", "gather_get",
    "keptRows_eq_filter", "removeIf_eq_filter", "removeIf_eq_gather",
    "index_lex_mono", "lexLt_iff_lt", "reshape_infer_one", "reshape_explicit", "reshape_rejects", "reshape_get",
    "slice_in_bounds", "gather_wf",
    "stack_block_get", "stackVec_get",
    "integralData_spec", "integral_eq_prefix_sums", "integral_rank1", "integral_rank2",
    # non-owning tensors (Model/TensorView.lean): what a view aliases, assignments of views, writes through views
    "view_get", "owner_view_get", "assign_full_view", "assign_wf",
    "view_sub_in_bounds", "view_slice_in_bounds", "view_reshape_in_bounds",
    "view_sub_elem", "view_slice_elem", "view_reshape_elem",
    "assign_slice_elem", "assign_sub_elem", "assign_reshape_elem",
    "write_through_view_frame", "index_outside_subview", "write_sub_get", "write_slice_get",
    # gathers into a provided output
    "gatherRows_spec", "gather_into_map_eq_gather", "gather_into_eq_gather", "gather_into_dims", "gather_into_get",
    # integral with distinct input / output scalar types
    "integralData_hom", "integralX_eq_prefix_sums", "wrap_exact", "integralWrapped_spec",
    # range.h / dims.h helpers, remove_if over a pack, the vector form of stack as coded, arange, fills, factories
    "range_valid_iff", "range_valid_slice", "makeRange_spec", "sliceRange_eq", "catDims_spec",
    "removeIfLoopN_eq", "removeIfRowsN_eq", "copyRow_eq", "stackVecGo_eq", "stackVecCoded_eq", "blockOfVec_spec",
    "arange_spec", "arange_indices", "arange_rejects", "full_spec", "makeTensor_wf", "makeMatrix_wf", "makeVector_wf",
    "makeFullTensor_wf",
]] + [NS + "Store." + t for t in [
    # heap model of the three storages (Model/TensorStorage.lean): primitives
    "read_in_bounds", "read_length", "read_getElem?", "cell_write", "read_write_same", "read_write_disjoint",
    "read_write_some", "read_after_write", "alloc_ptr", "buf_alloc_old", "read_alloc_new", "read_alloc_keep",
    "buf_free_other", "buf_free_same", "read_free_same", "read_free_other", "fwd_getElem?", "fwd_eq_splice", "succ_mod_cases", "fwd_periodic",
    # conversions / assignments / copies / moves / resizes
    "count_of_okMem", "ok_of_okMem", "read_add", "alloc_then_free",
    "memCopy_elems", "memCopy_succeeds", "memCopy_frame", "memCopy_fresh", "memCopy_others",
    "copy_independent_of_writes_to_copy", "copy_independent_of_writes_to_source",
    "memAssignView_elems", "memAssignView_succeeds", "memAssignView_fresh", "memAssignView_frame",
    "memAssignView_stale_view_dangles", "memAssignView_others",
    "memResize_same_count", "memResize_same_count_elems", "memResize_other_count",
    "memAssignMem_same_count", "memAssignMem_other_count",
    "write_in_bounds", "obj_write_succeeds", "okMem_write", "assignExpr_mem", "assignExpr_map",
    "memMoveCtor_spec", "memMoveCtor_source_unusable", "memMoveAssign_spec", "memMoveAssign_source_okMem_iff",
    "mapAssign_elems", "mapAssign_src_dims", "mapAssign_bigger_source", "mapAssign_overlap", "mapAssign_overlap_witness",
    "mapAssign_smaller_source_witness", "mapAssign_shape_witness",
    # the ownership invariant over every history
    "inv_heap", "inv_set", "inv_construct", "inv_assign_mem", "inv_assignObj", "inv_moveCtor", "inv_moveAssign", "inv_init",
    "step_inv", "run_inv",
    # views of any storage tied to the addressing theorems; headline
    "obj_view_elems", "obj_slice_elems", "obj_sub_elems", "obj_reshape_elems", "viewOf_elems", "assign_preserves_elements",
    "write_alias_exact",
]] + [NS + t for t in [
    # translation round (Proofs/TensorGenerated.lean): the model IS the code regenerated from dims.h / range.h / tensor.h
    "model_size_is_generated", "model_size_entry_is_generated", "model_index0_is_generated", "generated_index0_none",
    "model_validPrefix_is_generated", "model_index_is_generated", "valid_passes_generated_asserts",
    "generated_index_asserts_skip_last", "generated_product_int", "generated_index0_int",
    "model_range_size_is_generated", "model_range_valid_is_generated", "model_makeRange_is_generated",
    "model_sliceAssert_is_generated", "model_slice_guard_is_generated", "model_slice_dims_is_generated",
    "model_sliceRange_args_is_generated", "model_iprod_is_generated", "model_reshapeInfer_is_generated",
    "model_reshapeDims_is_generated", "generated_reshape_two_wildcards", "model_arange_is_generated", "generated_arange_step",
    "generated_getDims0_spec", "model_dims0_is_generated", "validPrefix_length", "model_sub_is_generated",
    # integral.h re-translated (Gen/TensorIntegral.lean)
    "model_prefixSums_is_generated", "model_prefixSums1_is_generated", "generated_integralRows_pos", "model_accRows1_is_generated",
    "model_integralData_is_generated", "model_integral_is_generated",
    # algorithm.h re-translated (Gen/TensorAlgorithm.lean)
    "model_copyRow_is_generated", "model_removeIfSkip_is_generated", "model_removeIfLoopN_is_generated",
    "model_removeIfRowsN_is_generated",
]]
TRUSTED = [
    "Lean 4.33.0 kernel (core library only for this property; no Mathlib import)",
    "axioms: at most propext, Classical.choice, Quot.sound (audited per theorem on every run)",
    "hand-written model NanoVerif/Model/Tensor.lean + Model/TensorView.lean + Model/TensorStorage.lean (heap model of the three "
    "storages, incl. what Eigen 3.4's DenseStorage does for the defaulted copy / move / resize of the owning storage) + "
    "Model/TensorRange.lean of dims.h/range.h/tensor.h/storage.h/integral.h/algorithm.h/stack.h; tied to the code by the correspondence run (harness/c16.cpp on the real headers vs the compiled Lean driver, "
    "exact comparison)",
    "tools/props/c16.py generator + naive nested-loop oracle; harness/c16.cpp; g++/libstdc++/Eigen",
    "tools/props/c16_translate.py: the translator of the template recursions of dims.h (detail::product / get_index / get_index0, size, "
    "index, index0: `std::get<idim>` = head, `f<idim + 1>` = tail, `idim == trank` = empty list; get_dims0 / dims0 with explicit "
    "positions), of the guards / derived values of range.h and of tslice / slice(range) / treshape / arange in tensor.h, and of the two "
    "loops of integral.h (sub-tensor `i0` = row `i0` of the model's `rows`, `vector(i0) +=` = `zipAdd`); the generated Gen/TensorIndex.lean, "
    "Gen/TensorGuards.lean, Gen/TensorIntegral.lean, Gen/TensorAlgorithm.lean (detail::copy and the two loops of remove_if) are readable and "
    "the model's size / index / dims0 / ValidPrefix / T.sub / Range.valid / sliceAssert / reshapeInfer / reshapeDims / arange / prefixSums1 / "
    "integralData / T.integral / copyRowD / removeIfSkip / removeIfLoopN / removeIfRowsN are PROVED equal to them (model_*_is_generated)",
]
ASSUMPTIONS = [
    "asserts are compiled out in the release build: ops violating an assert are never generated; the model returns none there",
    "Eigen Map objects are observed only through data()/size()/operator(): their internals are not modelled",
    "memory safety beyond 'the aliased range lies inside the buffer' is observed by the ASan/UBSan flavour of the thorough tier; "
    "the quick tier (no sanitizer) runs the harness with glibc's malloc perturbation and without its per-thread cache "
    "(GLIBC_TUNABLES), so that a read of released memory shows up as wrong VALUES",
    "the model's assignment `owning = view` is a pure function of the buffer before the assignment (no aliasing in the model): "
    "that the implementation agrees also when the view points into the destination's own buffer is what the aslice/asub/"
    "areshape ops with destination `self` test",
    "heap model: an allocation is identified by a number that is never re-used (the C allocator may hand out the same address "
    "again; a program that relies on that is already outside the model: it uses a dangling map); uninitialised elements are a "
    "fixed junk value the generator never observes; histories are only generated where the naive python semantics finds every "
    "used object usable (no released memory, no moved-from contents) and `map = map` overlaps only in the direction the "
    "ascending copy supports — the other direction is covered by the model-level witness mapAssign_overlap_witness, not run",
    "mixed-type integral: conversions input -> output scalar are exact for the generated pairs (output at least as wide); int32/"
    "int64 outputs are modelled as 32/64-bit two's-complement arithmetic (signed overflow is formally undefined in C++; the "
    "generator keeps every sum inside the output type), binary64 outputs as exact integers below 2^53",
]
RULE = ("exhaustive small shapes (quick: rank 1-3 dims 0..4, rank 4 dims 0..3, rank 5 sampled; thorough: rank 1-4 dims 0..4, rank 5 dims 0..3), "
        "every valid index tuple, every index prefix for tensor()/vector()/matrix() over 10 scalar types (cycled), every slice [b,e) "
        "(on owning/const/map/cmap storages and the range overload, cycled; rank 1 also segment()), every factorisation for reshape with "
        "one -1 at each position (storages cycled), random gathers (6 return scalar types cycled)/integrals/remove_if masks/vector stacks, "
        "gap-free matrix stacks of 1..4 blocks, and random larger shapes incl. reshapes with an inferred axis; for ranks 1-4 also: "
        "every slice / every (sampled for rank 4) index prefix / sampled same-rank reshapes ASSIGNED to the aliased owner itself and "
        "to fresh / constructed / bigger / same-size / mapped destinations (view taken through the owning tensor, its const form, a map, "
        "a constant map, the range overload; element types i64/i32/i16), writes through tensor()/vector()/array()/matrix()/slice() "
        "views, gathers into provided outputs (right shape via the map overload, other size, same element count with other dims, the "
        "same output twice) and integrals for 13 (input, output) scalar pairs with values at the end of the input type's range; "
        "histories on owners + maps + constant maps (ranks 1-5, zero-sized dims included, i64/i32): 10 directed scenarios (t = own slice, "
        "map at an offset = tensor, same-count resize, owner = owner, copy independence, moves, overlapping map = map, raw maps, expression assignment, and — outside the contract, as coded — map = bigger tensor) "
        "and random histories of 4-18 ops (new/fill/ctor/move-ctor/assign/move-assign/resize/slice/reshape/raw/drop, ranks 1-2 also assignment of an Eigen expression) with queries of "
        "dims, pointer identity (owning slot + offset) and elements; remove_if over two tensors, full/zero through a slice, arange; range.h (make_range, begin/end/size/valid(n)) on the "
        "grid begin -1..3 x end -1..4 x n in {0,3,4} plus random larger ranges with n at end-1 / end / end+1; "
        "a case is non-trivial when size > 1 and some dimension is not 1; distinct by op text")
FLAVOUR = {"quick": "plain", "thorough": "asan"}
# the quick tier is not an ASan build: glibc's allocator is asked to overwrite every released block (perturb) and to
# hand released blocks back at once (no per-thread cache), so that a read of released memory yields the fill byte
# instead of, by luck, the old values (ignored by the ASan flavour, which replaces the allocator)
HARNESS_ENV = {"GLIBC_TUNABLES": "glibc.malloc.tcache_count=0:glibc.malloc.perturb=165"}
EXHAUSTIVE = {"quick": False, "thorough": True}
STORAGES = ["mem", "cmem", "map", "cmap"]
SLICE_HOW = STORAGES + ["range"]
GATHER_TYPES = ["i64", "i32", "i8", "u16", "f32", "f64"]
TYPES = ["i8", "i16", "i32", "i64", "u8", "u16", "u32", "u64", "f32", "f64"]
# assignment / write-through ops: how the view is obtained, where it is assigned to, element width of the owner
AVIA = ["mem", "cmem", "map", "cmap"]
ADST_CTRL = ["fresh", "big", "same", "omap", "ctor"]
ATYPES = ["i64", "i32", "i16"]
WKINDS = ["tensor", "vector", "array"]
WSLICE_HOW = ["mem", "map", "range"]
# integral with distinct scalar types: (input, output), the output at least as wide as the input
INTEGRAL_PAIRS = [(i, o) for i in ["i8", "u8", "i16", "i32"] for o in ["i32", "i64", "f64"]] + [("f32", "f64")]
# integers representable in the scalar type (f32 / f64: the contiguous range of exactly representable integers)
SCALAR_RANGE = {"i8": (-2**7, 2**7 - 1), "u8": (0, 2**8 - 1), "i16": (-2**15, 2**15 - 1), "i32": (-2**31, 2**31 - 1),
                "i64": (-2**63, 2**63 - 1), "f32": (-2**24, 2**24), "f64": (-2**53, 2**53)}


def prod(xs):
    p = 1
    for x in xs:
        p *= x
    return p


def horner(dims, idx):
    """the textbook row-major offset ((i0*d1+i1)*d2+i2)…, with missing trailing indices = 0"""
    o = 0
    for k, d in enumerate(dims):
        o = o * d + (idx[k] if k < len(idx) else 0)
    return o


def shapes(rank, maxd):
    return itertools.product(range(maxd + 1), repeat=rank)


def factorisations(n, k):
    """all k-tuples of non-negative dims with product n (entries bounded by n, or small when n == 0)"""
    if k == 1:
        yield (n,)
        return
    cands = range(0, 4) if n == 0 else [d for d in range(1, n + 1) if n % d == 0]
    for d in cands:
        if n == 0:
            if d == 0:
                for rest in itertools.product(range(0, 3), repeat=k - 1):
                    yield (d,) + rest
            else:
                for rest in factorisations(0, k - 1):
                    yield (d,) + rest
        else:
            for rest in factorisations(n // d, k - 1):
                yield (d,) + rest


def gen(rng, tier):
    ops = []
    tcount = [0]
    vcount = [0]

    def cyc(choices):
        """cycle through the storage / overload / return-type variants of an accessor"""
        vcount[0] += 1
        return choices[vcount[0] % len(choices)]

    def ty():
        tcount[0] += 1
        return TYPES[tcount[0] % len(TYPES)]

    # corpus first
    import os, vlib
    cp = os.path.join(vlib.VERIF, "corpus", "C16", "ops.txt")
    if os.path.exists(cp):
        ops += [l.strip() for l in open(cp) if l.strip() and not l.startswith("#")]

    plan = [(1, 4, 1.0), (2, 4, 1.0), (3, 4, 1.0)]
    if tier == "thorough":
        plan += [(4, 4, 1.0), (5, 3, 1.0)]
    else:
        plan += [(4, 3, 1.0), (5, 3, 0.08)]
    for rank, maxd, frac in plan:
        for dims in shapes(rank, maxd):
            if frac < 1.0 and not rng.chance(frac):
                continue
            dims = list(dims)
            n = prod(dims)
            D = lst(dims)
            for idx in itertools.product(*[range(d) for d in dims]):
                ops.append(f"tensor offset {D} {lst(idx)}")
            for k in range(0, rank):
                for pre in itertools.product(*[range(d) for d in dims[:k]]):
                    ops.append(f"tensor sub {D} {lst(pre)} {ty()}")
                    ops.append(f"tensor subvec {D} {lst(pre)} {ty()}")
                    if k + 2 == rank:
                        ops.append(f"tensor submat {D} {lst(pre)} {ty()}")
            for b in range(dims[0] + 1):
                for e in range(b, dims[0] + 1):
                    ops.append(f"tensor slice {D} {b} {e} {cyc(SLICE_HOW)}")
                    if rank == 1:
                        ops.append(f"tensor segment {D} {b} {e - b} {cyc(STORAGES)}")
            if rank <= 3 or rng.chance(0.2):
                for k in range(1, 4 if n > 0 else 3):
                    for f in factorisations(n, k):
                        ops.append(f"tensor reshape {D} {lst(f)} {cyc(STORAGES)}")
                        for pos in range(k):
                            others = prod(f[:pos] + f[pos + 1:])
                            if others != 0:  # C++ would divide by zero otherwise
                                g = list(f); g[pos] = -1
                                ops.append(f"tensor reshape {D} {lst(g)} {cyc(STORAGES)}")
            if dims[0] > 0:
                cnt = rng.range(0, 6)
                ops.append(f"tensor gather {D} {lst([rng.below(dims[0]) for _ in range(cnt)])} {cyc(GATHER_TYPES)}")
            ops.append(f"tensor integral {D} {lst([rng.range(-9, 9) for _ in range(n)])}")
            ops.append(f"tensor removeif {D} {lst([rng.below(2) for _ in range(dims[0])])}")
            ops.append(f"tensor convert {D}")
            if rank <= 4:
                more_ops(ops, rng, cyc, dims, tier, small=True)
    # random larger shapes (up to 1e5 elements)
    for _ in range(120 if tier == "quick" else 400):
        rank = rng.range(1, 5)
        while True:
            dims = [rng.range(1, 40) for _ in range(rank)]
            if prod(dims) <= 100000:
                break
        D = lst(dims)
        for _ in range(20):
            idx = [rng.below(d) for d in dims]
            ops.append(f"tensor offset {D} {lst(idx)}")
        if prod(dims) <= 3000:
            k = rng.range(0, rank - 1)
            ops.append(f"tensor sub {D} {lst([rng.below(d) for d in dims[:k]])} {ty()}")
            b = rng.range(0, dims[0]); e = rng.range(b, dims[0])
            ops.append(f"tensor slice {D} {b} {e} {cyc(SLICE_HOW)}")
            ops.append(f"tensor gather {D} {lst([rng.below(dims[0]) for _ in range(rng.range(0, 8))])} {cyc(GATHER_TYPES)}")
            # reshape of a larger shape: merge two adjacent axes / split off the first axis, one entry inferred
            if rank >= 2:
                k = rng.range(0, rank - 2)
                merged = dims[:k] + [dims[k] * dims[k + 1]] + dims[k + 2:]
                pos = rng.below(len(merged))
                merged[pos] = -1
                ops.append(f"tensor reshape {D} {lst(merged)} {cyc(STORAGES)}")
            flat = [dims[0], -1] if rng.chance(0.5) else [-1, dims[-1]]
            ops.append(f"tensor reshape {D} {lst(flat)} {cyc(STORAGES)}")
            if rank == 1:
                ops.append(f"tensor segment {D} {b} {e - b} {cyc(STORAGES)}")
            ops.append(f"tensor integral {D} {lst([rng.range(-99, 99) for _ in range(prod(dims))])}")
            ops.append(f"tensor removeif {D} {lst([rng.below(2) for _ in range(dims[0])])}")
            if rank <= 4:
                more_ops(ops, rng, cyc, dims, tier, small=False)
    for _ in range(50 if tier == "quick" else 500):
        nb = rng.range(1, 4)
        blocks = [[rng.range(-50, 50) for _ in range(rng.range(0, 5))] for _ in range(nb)]
        ops.append(f"tensor stackvec {sum(len(b) for b in blocks)} {nb} " + " ".join(lst(b) for b in blocks))
    # matrix form of stack: gap-free layouts of 1..4 blocks (block-rows of equal height whose widths fill the columns)
    for _ in range(150 if tier == "quick" else 1500):
        ops.append(stackmat_op(rng))
    # histories on owners + views of the three storages (heap model): directed scenarios, then random histories
    for k in range(1600 if tier == "quick" else 8000):
        rank = 1 + k % 5
        ops.append(c16_hist.scenario(rng, rank, "i64" if k % 3 else "i32", (k // 5) % c16_hist.NSCEN))
    for k in range(1500 if tier == "quick" else 8000):
        ops.append(c16_hist.random_history(rng, 1 + k % 5, "i64" if k % 2 else "i32"))
    # remove_if over two tensors, full / zero through a slice, arange
    for k in range(300 if tier == "quick" else 2000):
        rank = 1 + k % 4
        dims = [rng.range(0, 6)] + [rng.range(0, 3) for _ in range(rank - 1)]
        ops.append(f"tensor removeifn {lst(dims)} {lst([rng.below(2) for _ in range(dims[0])])}")
        b = rng.range(0, dims[0]); e = rng.range(b, dims[0])
        ops.append(f"tensor full {lst(dims)} {b} {e} {0 if rng.chance(0.4) else rng.range(-9, 9)}")
        lo = rng.range(-20, 20)
        ops.append(f"tensor arange {lo} {lo + (0 if rng.chance(0.1) else rng.range(0, 12))}")
    # range.h: every (begin, end, size) around the boundaries of valid(): empty, reversed, negative begin, end == size, end > size
    for b in range(-1, 4):
        for e in range(-1, 5):
            for n in (0, 3, 4):
                ops.append(f"tensor range {b} {e} {n}")
    for _ in range(20):
        b = rng.range(-5, 1000); e = b + rng.range(-3, 1000)
        ops.append(f"tensor range {b} {e} {rng.choice([e - 1, e, e + 1, rng.range(0, 2000)])}")
    return ops


def integral_values(rng, n, ity, oty):
    """`n` integers of the input scalar type, chosen near the end of its range (one sign per tensor) so that the
    prefix sums leave the INPUT type while the sum of all magnitudes still fits the OUTPUT type"""
    ilo, ihi = SCALAR_RANGE[ity]
    olo, ohi = SCALAR_RANGE[oty]
    cap = min(ihi, ohi // max(n, 1))          # largest magnitude such that n values still fit the output
    if ity == "i32" and oty != "i32" and rng.chance(0.5):
        cap = 2**30 + 1000                    # near 2^30: two of them leave int32
    neg = ilo < 0 and rng.chance(0.4)
    span = max(1, min(cap // 4, 56 if ity in ("i8", "u8") else 3000))
    vals = []
    for _ in range(n):
        v = cap - rng.below(span)
        if ity == "f32":
            v |= 1                            # odd: sums of two or more are not representable in binary32
            v = min(v, 2**24 - 1)
        if rng.chance(0.05):
            v = rng.below(3)                  # a few small entries
        vals.append(-v if neg else v)
    return vals


def gatherinto_ops(rng, dims, tier):
    """gathers into a caller-provided output: the right shape (map overload), the same output twice, an owning
    output holding other dimensions with the SAME number of elements (must be re-dimensioned), or any other size"""
    rank = len(dims)
    D = lst(dims)
    cnt = rng.range(0, 5)
    idx = [rng.below(dims[0]) for _ in range(cnt)]
    R = [cnt] + dims[1:]
    nout = prod(R)
    inner = prod(dims[1:])
    ops = [f"tensor gatherinto {D} {lst(idx)} {lst(R)} map"]
    other = [rng.range(0, 4) for _ in range(rank)]
    ops.append(f"tensor gatherinto {D} {lst(idx)} {lst(other)} {'twice' if rng.chance(0.5) else 'mem'}")
    if rank >= 2:
        # same element count, other dimensions; quick tier: only layouts whose first dimension is >= the number of
        # gathered sub-tensors, so that even an implementation that forgets to re-dimension stays inside the buffer
        # (the thorough tier runs under ASan and takes every permutation)
        cands = []
        if nout == 0:
            cands += [[0] * rank, R[1:] + R[:1], [cnt] + [0] * (rank - 1)]
        else:
            cands += [[nout] + [1] * (rank - 1), [cnt * dims[1]] + [1] + dims[2:]]
            if tier == "thorough":
                cands += [R[1:] + R[:1], R[::-1]]
        cands = [E for E in cands if E != R and prod(E) == nout]
        if cands:
            ops.append(f"tensor gatherinto {D} {lst(idx)} {lst(rng.choice(cands))} mem")
    return ops


def more_ops(ops, rng, cyc, dims, tier, small):
    """assignments of views (aliasing the destination or not), writes through views, gathers into re-used outputs and
    mixed-type integrals for one shape; `small`: a shape of the exhaustive part (everything enumerated), else a
    random larger shape (sampled)"""
    rank = len(dims)
    D = lst(dims)
    n = prod(dims)
    if small:
        bes = [(b, e) for b in range(dims[0] + 1) for e in range(b, dims[0] + 1)]
    else:
        bes = []
        for _ in range(4):
            b = rng.range(1, dims[0]) if dims[0] > 1 else rng.range(0, dims[0])
            # half of them start before their own length (the region a shrinking allocation recycles first)
            e = rng.range(min(dims[0], 2 * b), dims[0]) if rng.chance(0.5) else rng.range(b, dims[0])
            bes.append((b, e))
        bes += [(0, dims[0] // 2), (dims[0] // 2, dims[0])]
    for b, e in bes:
        ops.append(f"tensor aslice {D} {b} {e} {cyc(AVIA + ['range'])} self {cyc(ATYPES)}")
        ops.append(f"tensor aslice {D} {b} {e} {cyc(AVIA + ['range'])} {cyc(ADST_CTRL)} {cyc(ATYPES)}")
        if small or rng.chance(0.5):
            ops.append(f"tensor wslice {D} {b} {e} {cyc(WSLICE_HOW)} {cyc(ATYPES)}")
    # prefixes: all of them for small shapes of rank <= 3, sampled otherwise
    pres = []
    for k in range(rank):
        if small:
            for pre in itertools.product(*[range(d) for d in dims[:k]]):
                if rank <= 3 or k == 0 or rng.chance(0.35):
                    pres.append(list(pre))
        elif n > 0:
            pres.append([rng.below(d) for d in dims[:k]])
    for pre in pres:
        k = len(pre)
        ops.append(f"tensor asub {D} {lst(pre)} {cyc(AVIA)} self {cyc(ATYPES)}")
        if rng.chance(0.3):
            ops.append(f"tensor asub {D} {lst(pre)} {cyc(AVIA)} {cyc(ADST_CTRL)} {cyc(ATYPES)}")
        kinds = WKINDS + (["matrix"] * 2 if k + 2 == rank else [])
        ops.append(f"tensor wsub {D} {lst(pre)} {cyc(kinds)} {cyc(ATYPES)}")
    # same-rank reshapes of the tensor assigned to itself / to another tensor (same element count: no reallocation)
    if small:
        facts = list(factorisations(n, rank))
    else:
        facts = [rng.shuffle(dims), dims[::-1]]
    for _ in range(2):
        f = list(rng.choice(facts))
        if rng.chance(0.5):
            pos = rng.below(rank)
            if prod(f[:pos] + f[pos + 1:]) != 0:
                f[pos] = -1
        ops.append(f"tensor areshape {D} {lst(f)} {cyc(AVIA)} {'self' if rng.chance(0.6) else cyc(ADST_CTRL)} {cyc(ATYPES)}")
    if dims[0] > 0:
        ops.extend(gatherinto_ops(rng, dims, tier))
    if n <= 600:
        ity, oty = cyc(INTEGRAL_PAIRS)
        ops.append(f"tensor integralx {D} {ity} {oty} {lst(integral_values(rng, n, ity, oty))}")


def compositions(rng, total, parts, allow_zero):
    """`parts` non-negative integers summing to `total` (positive unless allow_zero)"""
    lo = 0 if allow_zero else 1
    if total < lo * parts:
        return None
    cuts = sorted(rng.range(0, total - lo * parts) for _ in range(parts - 1))
    vals = [b - a + lo for a, b in zip([0] + cuts, cuts + [total - lo * parts])]
    return vals


def stackmat_op(rng):
    nb = rng.range(1, 4)
    # split the nb blocks into block-rows
    nrows = rng.range(1, nb)
    per_row = compositions(rng, nb, nrows, False)
    while True:
        rows = rng.range(0, 6) if rng.chance(0.15) else rng.range(nrows, 7)
        cols = rng.range(max(per_row), 7)
        heights = compositions(rng, rows, nrows, rng.chance(0.15))
        if heights is not None:
            break
    blocks = []
    for h, k in zip(heights, per_row):
        # widths: the last block of a block-row must be non-empty, earlier ones may (rarely) be empty
        while True:
            widths = compositions(rng, cols, k, rng.chance(0.1))
            if widths is not None and widths[-1] > 0:
                break
        for w in widths:
            blocks.append((h, w, [rng.range(-99, 99) for _ in range(h * w)]))
    return f"tensor stackmat {rows} {cols} {len(blocks)} " + " ".join(f"{h} {w} {lst(d)}" for h, w, d in blocks)


def nontrivial(op):
    t = Toks(op); t.s(); o = t.s()
    if o == "stackvec":
        return True
    if o == "hist":
        return any(w in op for w in (" assign ", " massign ", " ctor ", " mctor ", " resize "))
    if o == "arange":
        return t.int() + 1 < t.int()
    if o == "range":
        b = t.int(); e = t.int(); n = t.int()
        return b != e
    if o == "stackmat":
        rows = t.int(); cols = t.int(); nb = t.int()
        return rows * cols > 1 and nb > 1
    dims = t.ints()
    return prod(dims) > 1 and any(d != 1 for d in dims)


def distribution(ops):
    d = {}
    for op in ops:
        t = op.split()
        if t[1] in ("arange", "range"):
            d[t[1]] = d.get(t[1], 0) + 1
            continue
        k = f"{t[1]}/rank{t[2]}" if t[1] not in ("stackvec", "stackmat") else (t[1] if t[1] == "stackvec" else f"stackmat/{t[4]}blocks")
        d[k] = d.get(k, 0) + 1
    return d


def read_tensor(r):
    rank = r.int(); dims = [r.int() for _ in range(rank)]; n = r.int(); data = [r.int() for _ in range(n)]
    return dims, data


def oracle(op, res):
    """independent naive evaluation of the property statement on the implementation's answer"""
    t = Toks(op); t.s(); o = t.s()
    if o == "hist":
        return c16_hist.oracle(op, res)
    r = Toks(res)
    if r.s() != "ok":
        return f"implementation did not answer ok: {res[:80]}"
    if o == "range":
        # range.h as documented: [begin, end), size = end - begin, valid(n) <=> non-empty and included in [0, n)
        b = t.int(); e = t.int(); n = t.int()
        got = [r.int() for _ in range(4)]
        inside = b < e and all(0 <= i < n for i in (b, e - 1))
        want = [b, e, e - b, 1 if inside else 0]
        return None if got == want else f"make_range({b}, {e}): begin/end/size/valid({n}) = {got}, expected {want}"
    if o == "arange":
        lo = t.int(); hi = t.int(); got = r.ints()
        return None if got == list(range(lo, hi)) else f"arange({lo}, {hi}) = {got}"
    if o == "stackvec":
        n = t.int(); nb = t.int(); blocks = [t.ints() for _ in range(nb)]
        got = r.ints()
        want = [x for b in blocks for x in b]
        return None if got == want and len(got) == n else f"stack != concatenation: {got} vs {want}"
    if o == "stackmat":
        rows = t.int(); cols = t.int(); nb = t.int()
        blocks = []
        for _ in range(nb):
            h = t.int(); w = t.int(); blocks.append((h, w, t.ints()))
        grows = r.int(); gcols = r.int(); got = r.ints()
        if (grows, gcols) != (rows, cols) or len(got) != rows * cols:
            return f"stack: result is {grows}x{gcols} with {len(got)} elements, expected {rows}x{cols}"
        # naive placement on a 2D grid: blocks row-major, left to right, next block-row once the columns are full;
        # every cell must be written exactly once (no gaps, no overlaps) and hold the block's element
        grid = [[None] * cols for _ in range(rows)]
        row0 = col0 = 0
        for h, w, d in blocks:
            for rr in range(h):
                for cc in range(w):
                    if row0 + rr >= rows or col0 + cc >= cols or grid[row0 + rr][col0 + cc] is not None:
                        return "stack: generated layout is not a tiling (generator bug)"
                    grid[row0 + rr][col0 + cc] = d[rr * w + cc]
            col0 += w
            if col0 == cols:
                row0 += h; col0 = 0
        want = [x for line in grid for x in line]
        if any(x is None for x in want):
            return "stack: generated layout has gaps (generator bug)"
        return None if got == want else f"stack: block elements not at (row0+r, col0+c): {got} vs {want}"
    dims = t.ints()
    n = prod(dims)
    if o == "offset":
        idx = t.ints(); off = r.int(); val = r.int()
        want = horner(dims, idx)
        if off != want or not (0 <= off < n):
            return f"offset {off} != row-major {want} (size {n})"
        return None if val == want % 100 else f"element {val} != buffer[{want}]"
    if o in ("sub", "subvec", "submat"):
        pre = t.ints()
        off0 = r.int(); alias = r.int(); sd, data = read_tensor(r)
        want0 = horner(dims, pre)
        rest = dims[len(pre):]
        if off0 != want0 or alias != want0:
            return f"view starts at {off0}/{alias}, full indexing says {want0}"
        if o == "subvec":
            if sd != [prod(rest)]:
                return f"vector view has dims {sd}, expected [{prod(rest)}]"
        elif sd != rest:
            return f"view dims {sd} != {rest}"
        want = [horner(dims, list(pre) + list(q)) % 100 for q in itertools.product(*[range(d) for d in rest])]
        if want0 + len(want) > n:
            return "view exceeds the buffer"
        return None if data == want else f"view elements differ from full indexing: {data[:8]} vs {want[:8]}"
    if o == "slice":
        b = t.int(); e = t.int()
        alias = r.int(); sd, data = read_tensor(r)
        if sd != [e - b] + dims[1:]:
            return f"slice dims {sd}"
        want = [horner(dims, [b + q[0]] + list(q[1:])) % 100 for q in itertools.product(*[range(d) for d in sd])]
        if alias != horner(dims, [b]) and len(want) > 0:
            return f"slice starts at {alias}"
        return None if data == want else "slice elements differ from full indexing"
    if o == "segment":
        b = t.int(); ln = t.int()
        alias = r.int(); sd, data = read_tensor(r)
        if sd != [ln] or (alias != b and ln > 0) or b + ln > n:
            return f"segment({b},{ln}) is {sd} at {alias}"
        return None if data == [(b + k) % 100 for k in range(ln)] else "segment elements differ from full indexing"
    if o == "reshape":
        sizes = t.ints()
        alias = r.int(); sd, data = read_tensor(r)
        if alias != 0 or len(sd) != len(sizes):
            return "reshape does not alias the buffer start / wrong rank"
        for a, b in zip(sizes, sd):
            if a != -1 and a != b:
                return f"reshape changed an explicit dimension: {sizes} -> {sd}"
        if prod(sd) != n:
            return f"reshape {sizes} -> {sd}: product != size {n}"
        return None if data == [k % 100 for k in range(n)] else "reshape changed the contents"
    if o == "gather":
        idx = t.ints(); sd, data = read_tensor(r)
        if sd != [len(idx)] + dims[1:]:
            return f"gather dims {sd}"
        want = [horner(dims, [idx[q[0]]] + list(q[1:])) % 100 for q in itertools.product(*[range(d) for d in sd])]
        return None if data == want else "gathered elements differ from full indexing"
    if o == "integral":
        src = t.ints(); sd, data = read_tensor(r)
        if sd != dims:
            return "integral dims"
        if n == 0:
            return None
        # naive prefix sums: out[idx] = sum of in[idx'] over idx' <= idx componentwise
        want = []
        for idx in itertools.product(*[range(d) for d in dims]):
            s = 0
            for q in itertools.product(*[range(i + 1) for i in idx]):
                s += src[horner(dims, q)]
            want.append(s)
        return None if data == want else f"summed-area table differs from naive prefix sums: {data[:6]} vs {want[:6]}"
    if o == "removeif":
        mask = t.ints(); kept = r.int(); data = r.ints()
        inner = prod(dims[1:])
        rows = [i for i in range(dims[0]) if not mask[i]]
        want = [(i * inner + j) % 100 for i in rows for j in range(inner)]
        return None if kept == len(rows) and data == want else "remove_if kept the wrong sub-tensors"
    if o in ("aslice", "areshape", "asub"):
        # the assigned tensor = the view evaluated on the OLD contents (owner filled with offset + 1)
        if o == "aslice":
            b = t.int(); e = t.int()
            wd = [e - b] + dims[1:]
            want = [horner(dims, [b + q[0]] + list(q[1:])) + 1 for q in itertools.product(*[range(d) for d in wd])]
        elif o == "asub":
            pre = t.ints()
            wd = dims[len(pre):]
            want = [horner(dims, list(pre) + list(q)) + 1 for q in itertools.product(*[range(d) for d in wd])]
        else:
            sizes = t.ints()
            wd = None
            want = [k + 1 for k in range(n)]
        via = t.s(); dst = t.s()
        srcok = r.int(); sd, data = read_tensor(r)
        if wd is None:
            if len(sd) != len(sizes) or any(a != -1 and a != b for a, b in zip(sizes, sd)) or prod(sd) != n:
                return f"assigned reshape {sizes} has dims {sd}"
        elif sd != wd:
            return f"assigned view has dims {sd}, expected {wd}"
        if data != want:
            bad = [k for k in range(min(len(data), len(want))) if data[k] != want[k]][:1]
            return (f"{dst} = view ({via}): contents differ from the viewed elements"
                    + (f", first at {bad[0]}: {data[bad[0]]} vs {want[bad[0]]}" if bad else f" ({len(data)} vs {len(want)} elements)"))
        return None if srcok == 1 else "the assignment changed the source tensor"
    if o in ("wsub", "wslice"):
        # the owner (offset + 1) must hold -(j + 1) at the j-th element the view aliases and be unchanged elsewhere
        if o == "wsub":
            pre = t.ints(); k = len(pre)
            inside = lambda idx: list(idx[:k]) == pre
            local = lambda idx: horner(dims[k:], idx[k:])
        else:
            b = t.int(); e = t.int()
            inside = lambda idx: b <= idx[0] < e
            local = lambda idx: horner([e - b] + dims[1:], [idx[0] - b] + list(idx[1:]))
        sd, data = read_tensor(r)
        if sd != dims:
            return f"writing through a view changed the dims to {sd}"
        want = [(-(local(idx) + 1) if inside(idx) else horner(dims, idx) + 1)
                for idx in itertools.product(*[range(d) for d in dims])]
        return None if data == want else "writes through the view did not land on exactly the aliased elements"
    if o == "gatherinto":
        idx = t.ints(); sd, data = read_tensor(r)
        if sd != [len(idx)] + dims[1:]:
            return f"gather into a provided output: dims {sd}, expected {[len(idx)] + dims[1:]}"
        want = [horner(dims, [idx[q[0]]] + list(q[1:])) % 100 for q in itertools.product(*[range(d) for d in sd])]
        return None if data == want else "gathered elements differ from full indexing"
    if o == "integralx":
        ity = t.s(); oty = t.s(); src = t.ints(); sd, data = read_tensor(r)
        if sd != dims:
            return "integral dims"
        ilo, ihi = SCALAR_RANGE[ity]
        if any(not (ilo <= x <= ihi) for x in src):
            return "generated value outside the input scalar type (generator bug)"
        want = []
        for idx in itertools.product(*[range(d) for d in dims]):
            sm = 0
            for q in itertools.product(*[range(i + 1) for i in idx]):
                sm += src[horner(dims, q)]
            want.append(sm)
        olo, ohi = SCALAR_RANGE[oty]
        if any(not (olo <= x <= ohi) for x in want):
            return None  # the exact prefix sums do not fit the output type: nothing is promised
        if data != want:
            bad = [k for k in range(len(want)) if k >= len(data) or data[k] != want[k]][0]
            return (f"summed-area table {ity}->{oty} differs from the exact prefix sums at offset {bad}: "
                    f"{data[bad] if bad < len(data) else None} vs {want[bad]}")
        return None
    if o == "removeifn":
        mask = t.ints(); kept = r.int(); data = r.ints(); vec = r.ints()
        inner = prod(dims[1:])
        rows = [i for i in range(dims[0]) if not mask[i]]
        want = [(i * inner + j) % 100 for i in rows for j in range(inner)]
        ok = kept == len(rows) and data == want and vec == [1000 + i for i in rows]
        return None if ok else "remove_if over two tensors did not compact both with the same kept sub-tensors"
    if o == "full":
        b = t.int(); e = t.int(); v = t.int(); sd, data = read_tensor(r)
        want = [(v if b <= idx[0] < e else horner(dims, idx) + 1) for idx in itertools.product(*[range(d) for d in dims])]
        return None if sd == dims and data == want else "full / zero through a slice did not set exactly the viewed elements"
    if o == "convert":
        a = r.int(); s = r.int(); sd, data = read_tensor(r)
        ok = a == 1 and s == 1 and sd == dims and data == [k % 100 for k in range(n)]
        return None if ok else "storage conversion changed contents / aliasing"
    return f"unknown op {o}"


def classify(op, kind, detail):
    t = op.split()
    if len(t) > 1 and t[1] == "hist":
        return "hist/allocation-kept" if detail and "as-coded" in str(detail) else "hist"
    if len(t) > 1 and t[1] in ("aslice", "asub", "areshape"):
        # <op>/<self or other destination>: an aliasing failure is a different call site from a plain conversion failure
        return f"{t[1]}/{'self' if t[-2] == 'self' else 'other'}"
    if len(t) > 1 and t[1] == "integralx":
        d = Toks(op); d.s(); d.s(); d.ints()
        return f"integralx/{d.s()}->{d.s()}"
    return f"{t[1]}" if len(t) > 1 else None


def shrink_candidates(op):
    """smaller variants of a failing assignment / integral op (each line is self-contained)"""
    t = Toks(op); t.s(); o = t.s()
    if o == "hist":
        yield from c16_hist.shrink(op)
        return
    if o not in ("aslice", "integralx"):
        return
    dims = t.ints()
    if o == "aslice":
        b = t.int(); e = t.int(); rest = " ".join(t.rest())
        # drop trailing axes, then shorten the first axis / the slice
        if len(dims) > 1:
            yield f"tensor aslice {lst(dims[:-1])} {b} {e} {rest}"
        for k, d in enumerate(dims):
            if k > 0 and d > 1:
                yield f"tensor aslice {lst(dims[:k] + [d // 2] + dims[k + 1:])} {b} {e} {rest}"
        if dims[0] > e:
            yield f"tensor aslice {lst([e] + dims[1:])} {b} {e} {rest}"
        if e - b > 1:
            yield f"tensor aslice {lst(dims)} {b} {b + (e - b) // 2} {rest}"
        if b > 1:
            yield f"tensor aslice {lst([dims[0] - (b - 1)] + dims[1:])} 1 {e - (b - 1)} {rest}"
    else:
        ity = t.s(); oty = t.s(); data = t.ints()
        inner = prod(dims[1:])
        if len(dims) > 1 and dims[0] >= 1:
            # keep the first sub-tensor only, as a tensor of one rank less
            yield f"tensor integralx {lst(dims[1:])} {ity} {oty} {lst(data[:inner])}"
        if len(dims) == 1 and dims[0] > 2:
            yield f"tensor integralx {lst([dims[0] - 1])} {ity} {oty} {lst(data[:-1])}"
            yield f"tensor integralx {lst([dims[0] - 1])} {ity} {oty} {lst(data[1:])}"
