"""C16 — tensor indexing, slicing, reshaping (DESIGN.md §4 C16)."""
import itertools
from vlib import Toks, lst

ID = "C16"
LEVEL = "proof"
HARNESS = "c16"
LEAN_MODULES = ["NanoVerif.Props.C16"]
NS = "NanoVerif.Tensor."
OBLIGATIONS = [NS + t for t in [
    "index_lt_size", "unindex_index", "index_unindex", "valid_unindex", "index_injective",
    "index_append", "subview_in_bounds", "sub_get", "sub_wf", "slice_get", "slice_wf",
    "reshape_size", "reshape_wf", "reshape_rejects_negative", "gather_dims", "gather_get",
    "keptRows_eq_filter", "removeIf_eq_filter", "removeIf_eq_gather",
    "index_lex_mono", "lexLt_iff_lt", "reshape_infer_one", "reshape_explicit", "reshape_rejects", "reshape_get",
    "slice_in_bounds", "gather_wf",
    "stack_block_get", "stackVec_get",
    "integralData_spec", "integral_eq_prefix_sums", "integral_rank1", "integral_rank2",
]]
TRUSTED = [
    "Lean 4.33.0 kernel (core library only for this property; no Mathlib import)",
    "axioms: at most propext, Classical.choice, Quot.sound (audited per theorem on every run)",
    "hand-written model NanoVerif/Model/Tensor.lean of dims.h/tensor.h/integral.h/algorithm.h/stack.h; tied to the code by "
    "the correspondence run (harness/c16.cpp on the real headers vs the compiled Lean driver, exact comparison)",
    "tools/props/c16.py generator + naive nested-loop oracle; harness/c16.cpp; g++/libstdc++/Eigen",
]
ASSUMPTIONS = [
    "asserts are compiled out in the release build: ops violating an assert are never generated; the model returns none there",
    "Eigen Map objects are observed only through data()/size()/operator(): their internals are not modelled",
    "memory safety beyond 'the aliased range lies inside the buffer' is observed by the ASan/UBSan flavour of the thorough tier only",
]
RULE = ("exhaustive small shapes (quick: rank 1-3 dims 0..4, rank 4 dims 0..3, rank 5 sampled; thorough: rank 1-4 dims 0..4, rank 5 dims 0..3), "
        "every valid index tuple, every index prefix for tensor()/vector()/matrix() over 10 scalar types (cycled), every slice [b,e) "
        "(on owning/const/map/cmap storages and the range overload, cycled; rank 1 also segment()), every factorisation for reshape with "
        "one -1 at each position (storages cycled), random gathers (6 return scalar types cycled)/integrals/remove_if masks/vector stacks, "
        "gap-free matrix stacks of 1..4 blocks, and random larger shapes incl. reshapes with an inferred axis; "
        "a case is non-trivial when size > 1 and some dimension is not 1; distinct by op text")
FLAVOUR = {"quick": "plain", "thorough": "asan"}
EXHAUSTIVE = {"quick": False, "thorough": True}
STORAGES = ["mem", "cmem", "map", "cmap"]
SLICE_HOW = STORAGES + ["range"]
GATHER_TYPES = ["i64", "i32", "i8", "u16", "f32", "f64"]
TYPES = ["i8", "i16", "i32", "i64", "u8", "u16", "u32", "u64", "f32", "f64"]


def prod(xs):
    p = 1
    for x in xs:
        p *= x
    return p


def horner(dims, idx):
    """the textbook row-major offset ((i0*d1+i1)*d2+i2)…, with missing trailing indices = 0"""
    o = 0
    for k, d in enumerate(dims):
        o = o * d + (idx[k] if k < len(idx) else 0)
    return o


def shapes(rank, maxd):
    return itertools.product(range(maxd + 1), repeat=rank)


def factorisations(n, k):
    """all k-tuples of non-negative dims with product n (entries bounded by n, or small when n == 0)"""
    if k == 1:
        yield (n,)
        return
    cands = range(0, 4) if n == 0 else [d for d in range(1, n + 1) if n % d == 0]
    for d in cands:
        if n == 0:
            if d == 0:
                for rest in itertools.product(range(0, 3), repeat=k - 1):
                    yield (d,) + rest
            else:
                for rest in factorisations(0, k - 1):
                    yield (d,) + rest
        else:
            for rest in factorisations(n // d, k - 1):
                yield (d,) + rest


def gen(rng, tier):
    ops = []
    tcount = [0]
    vcount = [0]

    def cyc(choices):
        """cycle through the storage / overload / return-type variants of an accessor"""
        vcount[0] += 1
        return choices[vcount[0] % len(choices)]

    def ty():
        tcount[0] += 1
        return TYPES[tcount[0] % len(TYPES)]

    # corpus first
    import os, vlib
    cp = os.path.join(vlib.VERIF, "corpus", "C16", "ops.txt")
    if os.path.exists(cp):
        ops += [l.strip() for l in open(cp) if l.strip() and not l.startswith("#")]

    plan = [(1, 4, 1.0), (2, 4, 1.0), (3, 4, 1.0)]
    if tier == "thorough":
        plan += [(4, 4, 1.0), (5, 3, 1.0)]
    else:
        plan += [(4, 3, 1.0), (5, 3, 0.08)]
    for rank, maxd, frac in plan:
        for dims in shapes(rank, maxd):
            if frac < 1.0 and not rng.chance(frac):
                continue
            dims = list(dims)
            n = prod(dims)
            D = lst(dims)
            for idx in itertools.product(*[range(d) for d in dims]):
                ops.append(f"tensor offset {D} {lst(idx)}")
            for k in range(0, rank):
                for pre in itertools.product(*[range(d) for d in dims[:k]]):
                    ops.append(f"tensor sub {D} {lst(pre)} {ty()}")
                    ops.append(f"tensor subvec {D} {lst(pre)} {ty()}")
                    if k + 2 == rank:
                        ops.append(f"tensor submat {D} {lst(pre)} {ty()}")
            for b in range(dims[0] + 1):
                for e in range(b, dims[0] + 1):
                    ops.append(f"tensor slice {D} {b} {e} {cyc(SLICE_HOW)}")
                    if rank == 1:
                        ops.append(f"tensor segment {D} {b} {e - b} {cyc(STORAGES)}")
            if rank <= 3 or rng.chance(0.2):
                for k in range(1, 4 if n > 0 else 3):
                    for f in factorisations(n, k):
                        ops.append(f"tensor reshape {D} {lst(f)} {cyc(STORAGES)}")
                        for pos in range(k):
                            others = prod(f[:pos] + f[pos + 1:])
                            if others != 0:  # C++ would divide by zero otherwise
                                g = list(f); g[pos] = -1
                                ops.append(f"tensor reshape {D} {lst(g)} {cyc(STORAGES)}")
            if dims[0] > 0:
                cnt = rng.range(0, 6)
                ops.append(f"tensor gather {D} {lst([rng.below(dims[0]) for _ in range(cnt)])} {cyc(GATHER_TYPES)}")
            ops.append(f"tensor integral {D} {lst([rng.range(-9, 9) for _ in range(n)])}")
            ops.append(f"tensor removeif {D} {lst([rng.below(2) for _ in range(dims[0])])}")
            ops.append(f"tensor convert {D}")
    # random larger shapes (up to 1e5 elements)
    for _ in range(40 if tier == "quick" else 400):
        rank = rng.range(1, 5)
        while True:
            dims = [rng.range(1, 40) for _ in range(rank)]
            if prod(dims) <= 100000:
                break
        D = lst(dims)
        for _ in range(20):
            idx = [rng.below(d) for d in dims]
            ops.append(f"tensor offset {D} {lst(idx)}")
        if prod(dims) <= 3000:
            k = rng.range(0, rank - 1)
            ops.append(f"tensor sub {D} {lst([rng.below(d) for d in dims[:k]])} {ty()}")
            b = rng.range(0, dims[0]); e = rng.range(b, dims[0])
            ops.append(f"tensor slice {D} {b} {e} {cyc(SLICE_HOW)}")
            ops.append(f"tensor gather {D} {lst([rng.below(dims[0]) for _ in range(rng.range(0, 8))])} {cyc(GATHER_TYPES)}")
            # reshape of a larger shape: merge two adjacent axes / split off the first axis, one entry inferred
            if rank >= 2:
                k = rng.range(0, rank - 2)
                merged = dims[:k] + [dims[k] * dims[k + 1]] + dims[k + 2:]
                pos = rng.below(len(merged))
                merged[pos] = -1
                ops.append(f"tensor reshape {D} {lst(merged)} {cyc(STORAGES)}")
            flat = [dims[0], -1] if rng.chance(0.5) else [-1, dims[-1]]
            ops.append(f"tensor reshape {D} {lst(flat)} {cyc(STORAGES)}")
            if rank == 1:
                ops.append(f"tensor segment {D} {b} {e - b} {cyc(STORAGES)}")
            ops.append(f"tensor integral {D} {lst([rng.range(-99, 99) for _ in range(prod(dims))])}")
            ops.append(f"tensor removeif {D} {lst([rng.below(2) for _ in range(dims[0])])}")
    for _ in range(50 if tier == "quick" else 500):
        nb = rng.range(1, 4)
        blocks = [[rng.range(-50, 50) for _ in range(rng.range(0, 5))] for _ in range(nb)]
        ops.append(f"tensor stackvec {sum(len(b) for b in blocks)} {nb} " + " ".join(lst(b) for b in blocks))
    # matrix form of stack: gap-free layouts of 1..4 blocks (block-rows of equal height whose widths fill the columns)
    for _ in range(150 if tier == "quick" else 1500):
        ops.append(stackmat_op(rng))
    return ops


def compositions(rng, total, parts, allow_zero):
    """`parts` non-negative integers summing to `total` (positive unless allow_zero)"""
    lo = 0 if allow_zero else 1
    if total < lo * parts:
        return None
    cuts = sorted(rng.range(0, total - lo * parts) for _ in range(parts - 1))
    vals = [b - a + lo for a, b in zip([0] + cuts, cuts + [total - lo * parts])]
    return vals


def stackmat_op(rng):
    nb = rng.range(1, 4)
    # split the nb blocks into block-rows
    nrows = rng.range(1, nb)
    per_row = compositions(rng, nb, nrows, False)
    while True:
        rows = rng.range(0, 6) if rng.chance(0.15) else rng.range(nrows, 7)
        cols = rng.range(max(per_row), 7)
        heights = compositions(rng, rows, nrows, rng.chance(0.15))
        if heights is not None:
            break
    blocks = []
    for h, k in zip(heights, per_row):
        # widths: the last block of a block-row must be non-empty, earlier ones may (rarely) be empty
        while True:
            widths = compositions(rng, cols, k, rng.chance(0.1))
            if widths is not None and widths[-1] > 0:
                break
        for w in widths:
            blocks.append((h, w, [rng.range(-99, 99) for _ in range(h * w)]))
    return f"tensor stackmat {rows} {cols} {len(blocks)} " + " ".join(f"{h} {w} {lst(d)}" for h, w, d in blocks)


def nontrivial(op):
    t = Toks(op); t.s(); o = t.s()
    if o == "stackvec":
        return True
    if o == "stackmat":
        rows = t.int(); cols = t.int(); nb = t.int()
        return rows * cols > 1 and nb > 1
    dims = t.ints()
    return prod(dims) > 1 and any(d != 1 for d in dims)


def distribution(ops):
    d = {}
    for op in ops:
        t = op.split()
        k = f"{t[1]}/rank{t[2]}" if t[1] not in ("stackvec", "stackmat") else (t[1] if t[1] == "stackvec" else f"stackmat/{t[4]}blocks")
        d[k] = d.get(k, 0) + 1
    return d


def read_tensor(r):
    rank = r.int(); dims = [r.int() for _ in range(rank)]; n = r.int(); data = [r.int() for _ in range(n)]
    return dims, data


def oracle(op, res):
    """independent naive evaluation of the property statement on the implementation's answer"""
    t = Toks(op); t.s(); o = t.s()
    r = Toks(res)
    if r.s() != "ok":
        return f"implementation did not answer ok: {res[:80]}"
    if o == "stackvec":
        n = t.int(); nb = t.int(); blocks = [t.ints() for _ in range(nb)]
        got = r.ints()
        want = [x for b in blocks for x in b]
        return None if got == want and len(got) == n else f"stack != concatenation: {got} vs {want}"
    if o == "stackmat":
        rows = t.int(); cols = t.int(); nb = t.int()
        blocks = []
        for _ in range(nb):
            h = t.int(); w = t.int(); blocks.append((h, w, t.ints()))
        grows = r.int(); gcols = r.int(); got = r.ints()
        if (grows, gcols) != (rows, cols) or len(got) != rows * cols:
            return f"stack: result is {grows}x{gcols} with {len(got)} elements, expected {rows}x{cols}"
        # naive placement on a 2D grid: blocks row-major, left to right, next block-row once the columns are full;
        # every cell must be written exactly once (no gaps, no overlaps) and hold the block's element
        grid = [[None] * cols for _ in range(rows)]
        row0 = col0 = 0
        for h, w, d in blocks:
            for rr in range(h):
                for cc in range(w):
                    if row0 + rr >= rows or col0 + cc >= cols or grid[row0 + rr][col0 + cc] is not None:
                        return "stack: generated layout is not a tiling (generator bug)"
                    grid[row0 + rr][col0 + cc] = d[rr * w + cc]
            col0 += w
            if col0 == cols:
                row0 += h; col0 = 0
        want = [x for line in grid for x in line]
        if any(x is None for x in want):
            return "stack: generated layout has gaps (generator bug)"
        return None if got == want else f"stack: block elements not at (row0+r, col0+c): {got} vs {want}"
    dims = t.ints()
    n = prod(dims)
    if o == "offset":
        idx = t.ints(); off = r.int(); val = r.int()
        want = horner(dims, idx)
        if off != want or not (0 <= off < n):
            return f"offset {off} != row-major {want} (size {n})"
        return None if val == want % 100 else f"element {val} != buffer[{want}]"
    if o in ("sub", "subvec", "submat"):
        pre = t.ints()
        off0 = r.int(); alias = r.int(); sd, data = read_tensor(r)
        want0 = horner(dims, pre)
        rest = dims[len(pre):]
        if off0 != want0 or alias != want0:
            return f"view starts at {off0}/{alias}, full indexing says {want0}"
        if o == "subvec":
            if sd != [prod(rest)]:
                return f"vector view has dims {sd}, expected [{prod(rest)}]"
        elif sd != rest:
            return f"view dims {sd} != {rest}"
        want = [horner(dims, list(pre) + list(q)) % 100 for q in itertools.product(*[range(d) for d in rest])]
        if want0 + len(want) > n:
            return "view exceeds the buffer"
        return None if data == want else f"view elements differ from full indexing: {data[:8]} vs {want[:8]}"
    if o == "slice":
        b = t.int(); e = t.int()
        alias = r.int(); sd, data = read_tensor(r)
        if sd != [e - b] + dims[1:]:
            return f"slice dims {sd}"
        want = [horner(dims, [b + q[0]] + list(q[1:])) % 100 for q in itertools.product(*[range(d) for d in sd])]
        if alias != horner(dims, [b]) and len(want) > 0:
            return f"slice starts at {alias}"
        return None if data == want else "slice elements differ from full indexing"
    if o == "segment":
        b = t.int(); ln = t.int()
        alias = r.int(); sd, data = read_tensor(r)
        if sd != [ln] or (alias != b and ln > 0) or b + ln > n:
            return f"segment({b},{ln}) is {sd} at {alias}"
        return None if data == [(b + k) % 100 for k in range(ln)] else "segment elements differ from full indexing"
    if o == "reshape":
        sizes = t.ints()
        alias = r.int(); sd, data = read_tensor(r)
        if alias != 0 or len(sd) != len(sizes):
            return "reshape does not alias the buffer start / wrong rank"
        for a, b in zip(sizes, sd):
            if a != -1 and a != b:
                return f"reshape changed an explicit dimension: {sizes} -> {sd}"
        if prod(sd) != n:
            return f"reshape {sizes} -> {sd}: product != size {n}"
        return None if data == [k % 100 for k in range(n)] else "reshape changed the contents"
    if o == "gather":
        idx = t.ints(); sd, data = read_tensor(r)
        if sd != [len(idx)] + dims[1:]:
            return f"gather dims {sd}"
        want = [horner(dims, [idx[q[0]]] + list(q[1:])) % 100 for q in itertools.product(*[range(d) for d in sd])]
        return None if data == want else "gathered elements differ from full indexing"
    if o == "integral":
        src = t.ints(); sd, data = read_tensor(r)
        if sd != dims:
            return "integral dims"
        if n == 0:
            return None
        # naive prefix sums: out[idx] = sum of in[idx'] over idx' <= idx componentwise
        want = []
        for idx in itertools.product(*[range(d) for d in dims]):
            s = 0
            for q in itertools.product(*[range(i + 1) for i in idx]):
                s += src[horner(dims, q)]
            want.append(s)
        return None if data == want else f"summed-area table differs from naive prefix sums: {data[:6]} vs {want[:6]}"
    if o == "removeif":
        mask = t.ints(); kept = r.int(); data = r.ints()
        inner = prod(dims[1:])
        rows = [i for i in range(dims[0]) if not mask[i]]
        want = [(i * inner + j) % 100 for i in rows for j in range(inner)]
        return None if kept == len(rows) and data == want else "remove_if kept the wrong sub-tensors"
    if o == "convert":
        a = r.int(); s = r.int(); sd, data = read_tensor(r)
        ok = a == 1 and s == 1 and sd == dims and data == [k % 100 for k in range(n)]
        return None if ok else "storage conversion changed contents / aliasing"
    return f"unknown op {o}"


def classify(op, kind, detail):
    t = op.split()
    return f"{t[1]}" if len(t) > 1 else None
