"""C14: C++ -> Lean translator for the scalar code of src/dataset/stats.cpp (DESIGN.md §2.3.a).

Extracts, *by function name* from the current source text of the repository under check, and emits
lean/NanoVerif/Gen/ScalingGuards.lean (core Lean, self-contained, generic over the scalar):

  struct scalar_stats_t (include/nano/dataset/stats.h)         -> structure `Col` (one index of every attribute)
  scalar_stats_t::scalar_stats_t(dims)        (stats.cpp)      -> `initColumn`   (the `make_full_tensor` fill values)
  ::update(scalar_stats_t&, values)           (stats.cpp)      -> `updateColumn` (the body of the two loops, one value)
  ::done(scalar_stats_t&, enable_scaling)     (stats.cpp)      -> `doneColumn`   (the body of the loop: the `N > 1` split, the
                                                                  `std::max(…, epsilon)` guards, the enable mask)
  scalar_stats_t::scale / upscale (2-D)       (stats.cpp)      -> `scaleCell` / `upscaleCell` (the `switch`, element-wise)
  ::make_scaling                              (stats.cpp)      -> `makeScaling`  (the `switch`, element-wise (w, b))
  ::nan2zero                                  (stats.cpp)      -> `nan2zero`
  epsilon2<scalar_t>()  (include/nano/core/numeric.h)          -> `epsilon2` = 10^k, k evaluated from `roundpow10(std::sqrt(epsilon))`

The statement language that is understood: `const auto x = e;`, `lhs = e;`, `lhs += e;`, `lhs /= e;` with lhs an attribute at the loop
index (`stats.m_x(i)`), `auto& x = lhs;`, `if (c) {…} else {…}` (also the C++17 form `if (const auto N = e; c)`), `switch` over
`scaling_type` with `break` / `default`, `nan2zero(array)`, `std::max/min/sqrt/isfinite`, `static_cast<scalar_t>`, `+ - * /`, unary minus,
comparisons. Eigen's element-wise `.array()` expressions are read element-wise. Anything else raises vlib.Broken("translate", …).
"""
import math, os, re
from fractions import Fraction
import vlib

OUT = os.path.join(vlib.LEAN, "NanoVerif", "Gen", "ScalingGuards.lean")
CPP = "src/dataset/stats.cpp"
HDR = "include/nano/dataset/stats.h"
NUM = "include/nano/core/numeric.h"
ENUM = "include/nano/dataset/scaling.h"


class TranslateError(Exception):
    pass


def strip_comments(s):
    s = re.sub(r"/\*.*?\*/", " ", s, flags=re.S)
    return re.sub(r"//[^\n]*", " ", s)


def block_after(src, start):
    """text between the braces of the block whose `{` is at src[start]"""
    assert src[start] == "{"
    i = start + 1; depth = 1
    while depth:
        if i >= len(src):
            raise TranslateError("unbalanced braces")
        depth += (src[i] == "{") - (src[i] == "}")
        i += 1
    return src[start + 1:i - 1], i


def body_of(src, header_regex, what):
    m = re.search(header_regex + r"(?:[^{;]|\{\})*\{", src)
    if not m:
        raise TranslateError(f"definition of {what} not found")
    return block_after(src, m.end() - 1)[0]


# ---------------------------------------------------------------------------------------------------------------------
# expressions

TOK = re.compile(r"\s*(?:(0x[0-9a-fA-F]+|\d+\.\d*(?:[eE][-+]?\d+)?|\.\d+(?:[eE][-+]?\d+)?|\d+(?:[eE][-+]?\d+)?)"
                 r"|([A-Za-z_][A-Za-z_0-9]*(?:::[A-Za-z_][A-Za-z_0-9]*)*)"
                 r"|(<=|>=|==|!=|&&|\|\||[-+*/()<>,!;]))")


def tokenize(s):
    out = []; i = 0
    while i < len(s):
        if s[i:].strip() == "":
            break
        m = TOK.match(s, i)
        if not m:
            raise TranslateError("cannot tokenize at: " + s[i:i + 40].strip())
        if m.group(1):
            out.append(("num", m.group(1)))
        elif m.group(2):
            out.append(("id", m.group(2)))
        else:
            out.append(("op", m.group(3)))
        i = m.end()
    return out


class Lits:
    """the integer scalar literals that occur (they become `[OfNat α k]` instance arguments)"""
    def __init__(self):
        self.used = set()


def lean_number(text, lits):
    """a C++ literal: integer text (no dot) is a count (bare numeral), a floating literal an exact term over OfNat + Div"""
    if text.startswith("0x"):
        return str(int(text, 16))
    if re.fullmatch(r"\d+", text):
        return text
    q = Fraction(text)
    if q.denominator == 1:
        lits.used.add(q.numerator)
        return f"({q.numerator} : α)"
    if q.numerator >= 2 ** 53 or q.denominator >= 2 ** 53:
        raise TranslateError(f"literal {text} is not a quotient of small integers")
    lits.used.add(q.numerator); lits.used.add(q.denominator)
    return f"(({q.numerator} : α) / ({q.denominator} : α))"


class Parser:
    def __init__(self, toks, bind, lits):
        self.t = toks; self.i = 0; self.bind = bind; self.lits = lits

    def peek(self):
        return self.t[self.i] if self.i < len(self.t) else ("eof", "")

    def eat(self, v=None):
        k = self.peek()
        if v is not None and k[1] != v:
            raise TranslateError(f"expected {v}, got {k[1]!r}")
        if k[0] == "eof":
            raise TranslateError("unexpected end of expression")
        self.i += 1
        return k

    def cond(self):
        a = self.conj()
        while self.peek()[1] == "||":
            self.eat(); a = f"({a} ∨ {self.conj()})"
        return a

    def conj(self):
        a = self.cmp()
        while self.peek()[1] == "&&":
            self.eat(); a = f"({a} ∧ {self.cmp()})"
        return a

    def cmp(self):
        a = self.add()
        if self.peek()[1] in ("<=", ">=", "<", ">", "==", "!="):
            op = self.eat()[1]; b = self.add()
            lean = {"<=": "≤", ">=": "≥", "<": "<", ">": ">", "==": "=", "!=": "≠"}[op]
            return f"{a} {lean} {b}"
        return a

    def add(self):
        a = self.mul()
        while self.peek()[1] in ("+", "-"):
            op = self.eat()[1]; a = f"({a} {op} {self.mul()})"
        return a

    def mul(self):
        a = self.unary()
        while self.peek()[1] in ("*", "/"):
            op = self.eat()[1]; a = f"({a} {op} {self.unary()})"
        return a

    def unary(self):
        if self.peek()[1] == "-":
            self.eat(); return f"(-{self.unary()})"
        if self.peek()[1] == "+":
            self.eat(); return self.unary()
        if self.peek()[1] == "!":
            self.eat(); return f"(¬ {self.unary()})"
        return self.primary()

    def args(self):
        out = [self.cond()]
        while self.peek()[1] == ",":
            self.eat(); out.append(self.cond())
        self.eat(")")
        return out

    def primary(self):
        k = self.eat()
        if k[0] == "num":
            return lean_number(k[1], self.lits)
        if k[1] == "(":
            e = self.cond(); self.eat(")"); return f"({e})" if " " in e and not e.startswith("(") else e
        if k[0] == "id":
            name = k[1]
            if self.peek()[1] != "(":
                if name in self.bind:
                    return self.bind[name]
                raise TranslateError("unbound symbol " + name)
            self.eat("(")
            a = self.args()
            if name == "std::max" and len(a) == 2:
                return f"(gmax {a[0]} {a[1]})"
            if name == "std::min" and len(a) == 2:
                return f"(gmin {a[0]} {a[1]})"
            if name == "std::sqrt" and len(a) == 1:
                return f"(sqrt {a[0]})"
            if name == "std::isfinite" and len(a) == 1:
                return f"fin {a[0]} = true"
            if name == "SCAST" and len(a) == 1:
                return f"({a[0]} : α)"
            raise TranslateError("unbound call " + name)
        raise TranslateError(f"unexpected token {k[1]!r}")


def expr(text, bind, lits, what, cond=False):
    p = Parser(tokenize(text), bind, lits)
    e = p.cond()
    if p.peek()[0] != "eof":
        raise TranslateError(f"{what}: trailing tokens in `{text.strip()}`")
    return e


# ---------------------------------------------------------------------------------------------------------------------
# statements  ->  a Lean term of the state type, threading the state variable `s`

def split_top(body):
    """top-level statements of a block: (kind, text, …) with nested blocks kept as text"""
    out = []; i = 0; n = len(body)
    while i < n:
        if body[i].isspace():
            i += 1; continue
        m = re.match(r"(if|for|switch)\s*\(", body[i:])
        if m:
            kind = m.group(1)
            j = i + m.end(); depth = 1
            while depth:
                depth += (body[j] == "(") - (body[j] == ")"); j += 1
            head = body[i + m.end():j - 1]
            k = j
            while body[k].isspace():
                k += 1
            if body[k] != "{":
                raise TranslateError(f"`{kind}` without a braced block")
            blk, k = block_after(body, k)
            els = None
            if kind == "if":
                m2 = re.match(r"\s*else\s*", body[k:])
                if m2:
                    k2 = k + m2.end()
                    if body[k2] == "{":
                        els, k = block_after(body, k2)
                    elif body[k2:].startswith("if"):
                        raise TranslateError("`else if` chain is not translated (use nested blocks)")
                    else:
                        raise TranslateError("`else` without a braced block")
            out.append((kind, " ".join(head.split()), blk, els))
            i = k
            continue
        j = body.find(";", i)
        if j < 0:
            raise TranslateError("text after the last statement: " + " ".join(body[i:].split())[:80])
        # a `;` inside parentheses belongs to a for/if header and was handled above
        out.append(("stmt", " ".join(body[i:j].split())))
        i = j + 1
    return out


class Ctx:
    def __init__(self, fields, lits, attr_bind, sty="Col α"):
        self.fields = fields          # attribute name -> Lean field
        self.lits = lits
        self.bind = dict(attr_bind)   # C++ symbol -> Lean term
        self.sty = sty
        self.refs = {}                # `auto& value = values(i)` style references


def lhs_field(ctx, text):
    m = re.fullmatch(r"S_(\w+)", text)
    if m and m.group(1) in ctx.fields:
        return ctx.fields[m.group(1)]
    raise TranslateError(f"assignment to `{text}` is not to an attribute at the loop index")


def block(ctx, body, ind, what, masked_cond=None):
    """Lean term (multi-line) for the statement list `body`; the current state is the Lean variable `s`"""
    lines = []
    pad = " " * ind
    for st in split_top(body):
        if st[0] == "stmt":
            t = st[1]
            if t in ("break", "") or t.startswith("assert"):
                continue
            m = re.fullmatch(r"const auto (\w+) = (.*)", t)
            if m:
                e = expr(m.group(2), ctx.bind, ctx.lits, what)
                ctx.bind[m.group(1)] = m.group(1)
                lines.append(f"{pad}let {m.group(1)} := {e}")
                continue
            m = re.fullmatch(r"(\S+) (=|\+=|/=|-=|\*=) (.*)", t)
            if m:
                f = lhs_field(ctx, m.group(1))
                e = expr(m.group(3), ctx.bind, ctx.lits, what)
                if m.group(2) != "=":
                    e = f"(s.{f} {m.group(2)[0]} {e})"
                lines.append(f"{pad}let s : {ctx.sty} := {{ s with {f} := {e} }}")
                continue
            raise TranslateError(f"{what}: statement not understood: `{t}`")
        kind, head, blk, els = st
        if kind != "if":
            raise TranslateError(f"{what}: nested `{kind}` is not translated")
        m = re.fullmatch(r"const auto (\w+) = ([^;]*); (.*)", head)
        if m:
            e = expr(m.group(2), ctx.bind, ctx.lits, what)
            ctx.bind[m.group(1)] = m.group(1)
            lines.append(f"{pad}let {m.group(1)} := {e}")
            head = m.group(3)
        if masked_cond is not None and head == masked_cond[0]:
            c = masked_cond[1]
        else:
            c = expr(head, ctx.bind, ctx.lits, what, cond=True)
        saved = dict(ctx.bind)
        th = block(ctx, blk, ind + 4, what, masked_cond)
        ctx.bind = dict(saved)
        el = block(ctx, els, ind + 4, what, masked_cond) if els is not None else f"{pad}    s"
        ctx.bind = saved
        lines.append(f"{pad}let s : {ctx.sty} :=\n{pad}  if {c} then\n{th}\n{pad}  else\n{el}")
    lines.append(f"{pad}s")
    return "\n".join(lines)


# ---------------------------------------------------------------------------------------------------------------------
# the pieces

def attributes(hdr):
    body = body_of(hdr, r"struct\s+NANO_PUBLIC\s+scalar_stats_t\b", "struct scalar_stats_t")
    out = []
    for m in re.finditer(r"\b(indices_t|tensor1d_t)\s+m_(\w+)\s*;", body):
        out.append((m.group(2), "Nat" if m.group(1) == "indices_t" else "α"))
    if not out or out[0] != ("samples", "Nat"):
        raise TranslateError("scalar_stats_t: attributes not recognised")
    return out


def pre(text):
    """normalise the access paths: attribute at the loop index, casts, epsilon"""
    t = re.sub(r"static_cast<scalar_t>\s*\(", "SCAST(", text)
    t = re.sub(r"epsilon2<scalar_t>\(\)", "EPSILON2", t)
    t = re.sub(r"\bstats\.m_(\w+)\((?:i|column)\)", r"S_\1", t)
    return t


def gen_init(cpp, attrs, lits):
    m = re.search(r"scalar_stats_t::scalar_stats_t\s*\(const tensor_size_t dims\)\s*:(.*?)\{", cpp, re.S)
    if not m:
        raise TranslateError("constructor scalar_stats_t(dims) not found")
    inits = {}
    for a in re.finditer(r"m_(\w+)\(make_full_tensor<\w+>\(make_dims\(dims\),\s*(.*?)\)\)\s*(?:,|$)", " ".join(m.group(1).split())):
        inits[a.group(1)] = a.group(2).strip()
    bind = {"std::numeric_limits<scalar_t>::max": None}
    vals = []
    for name, ty in attrs:
        if name not in inits:
            raise TranslateError(f"constructor: attribute m_{name} has no make_full_tensor initialiser")
        v = inits[name]
        if v == "std::numeric_limits<scalar_t>::max()":
            vals.append("hi")
        elif v == "std::numeric_limits<scalar_t>::lowest()":
            vals.append("lo")
        else:
            vals.append(lean_number(v, lits))
    quote = "; ".join(f"m_{n} = {inits[n]}" for n, _ in attrs)
    return (f"/-- `scalar_stats_t::scalar_stats_t(dims)` ({CPP}), every component: `{quote}`;\n"
            f"    `hi`, `lo` = `std::numeric_limits<scalar_t>::max()`, `lowest()` -/\n"
            f"def initColumn (hi lo : α) : Col α :=\n  ⟨{', '.join(vals)}⟩\n")


def gen_update(cpp, fields, lits):
    body = body_of(cpp, r"void\s+update\s*\(\s*scalar_stats_t&\s*stats\s*,\s*const tensor2d_cmap_t&\s*values\s*\)", "::update(scalar_stats_t&, values)")
    body = re.sub(r"\bassert\s*\([^;]*\)\s*;", "", body)
    tops = split_top(body)
    if len(tops) != 1 or tops[0][0] != "for" or "sample" not in tops[0][1]:
        raise TranslateError("::update: expected one loop over the samples")
    inner = split_top(tops[0][2])
    if len(inner) != 1 or inner[0][0] != "for" or "column" not in inner[0][1]:
        raise TranslateError("::update: expected one inner loop over the columns")
    text = pre(inner[0][2])
    text = re.sub(r"\bvalues\(sample, column\)", "VALUE_IN", text)
    ctx = Ctx(fields, lits, {"S_" + k: "s." + v for k, v in fields.items()})
    ctx.bind["VALUE_IN"] = "x"
    term = block(ctx, text, 2, "::update")
    quote = " ".join(strip_ws(inner[0][2]).split())
    return (f"/-- body of the two loops of `::update(scalar_stats_t&, values)` ({CPP}) for one value `x = values(sample, column)`:\n"
            f"    `{quote}` -/\n"
            f"def updateColumn (fin : α → Bool) (s : Col α) (x : α) : Col α :=\n{term}\n")


def strip_ws(s):
    return " ".join(s.split())


MASK_TEXT = "i < enable_scaling.size() && enable_scaling(i) == 0x00"


def gen_done(cpp, fields, lits):
    body = body_of(cpp, r"void\s+done\s*\(\s*scalar_stats_t&\s*stats", "::done(scalar_stats_t&, enable_scaling)")
    tops = split_top(body)
    eps_ok = False
    loop = None
    for st in tops:
        if st[0] == "stmt" and re.fullmatch(r"const auto epsilon = epsilon2<scalar_t>\(\)", st[1]):
            eps_ok = True
        elif st[0] == "for" and loop is None and re.search(r"stats\.m_samples\.size\(\)", st[1]):
            loop = st
        else:
            raise TranslateError(f"::done: unexpected top-level statement `{st[1][:80]}`")
    if not eps_ok or loop is None:
        raise TranslateError("::done: `const auto epsilon = epsilon2<scalar_t>();` or the loop over the components is missing")
    text = pre(loop[2])
    ctx = Ctx(fields, lits, {"S_" + k: "s." + v for k, v in fields.items()})
    ctx.bind["epsilon"] = "epsilon"
    term = block(ctx, text, 2, "::done", masked_cond=(MASK_TEXT, "masked = true"))
    if "masked = true" not in term:
        raise TranslateError(f"::done: the enable-mask test `{MASK_TEXT}` was not found")
    quote = strip_ws(loop[2])
    return (f"/-- body of the loop of `::done(scalar_stats_t&, enable_scaling)` ({CPP}) for one component `i`;\n"
            f"    `epsilon` = `epsilon2<scalar_t>()`, `masked` = the value of `{MASK_TEXT}`:\n"
            f"    `{quote}` -/\n"
            f"def doneColumn (sqrt : α → α) (epsilon : α) (masked : Bool) (s : Col α) : Col α :=\n{term}\n")


def enum_modes(enum_src):
    body = body_of(enum_src, r"enum\s+class\s+scaling_type\b", "enum class scaling_type")
    names = []
    for part in body.split(","):
        p = part.strip()
        if not p:
            continue
        m = re.fullmatch(r"(\w+)(?:\s*=\s*(\d+))?", p)
        if not m:
            raise TranslateError("scaling_type: enumerator not understood: " + p)
        if m.group(2) is not None and int(m.group(2)) != len(names):
            raise TranslateError("scaling_type: explicit enumerator value out of sequence")
        names.append(m.group(1))
    return names


def switch_cases(body, what):
    """`switch (scaling) { case scaling_type::x: …; break; … default: … }` -> {name: text}, default text"""
    tops = [t for t in split_top(body) if not (t[0] == "stmt" and t[1].startswith("assert"))]
    sw = [t for t in tops if t[0] == "switch"]
    if len(sw) != 1 or sw[0][1] != "scaling":
        raise TranslateError(f"{what}: expected one `switch (scaling)`")
    text = sw[0][2]
    parts = re.split(r"\b(case\s+scaling_type::\w+\s*:|default\s*:)", text)
    if parts[0].strip():
        raise TranslateError(f"{what}: text before the first case label")
    cases = {}; default = None
    for lab, blk in zip(parts[1::2], parts[2::2]):
        blk = blk.strip()
        if lab.startswith("default"):
            default = blk
            continue
        name = re.search(r"scaling_type::(\w+)", lab).group(1)
        if not re.search(r"\bbreak\s*;\s*$", blk):
            raise TranslateError(f"{what}: case {name} does not end in `break;` (fall-through is not translated)")
        cases[name] = re.sub(r"\bbreak\s*;\s*$", "", blk).strip()
    return cases, default, [t for t in tops if t[0] != "switch"]


def elementwise(text):
    """Eigen element-wise expressions read per element: `m_x.array()` / `stats.m_x.array()` / `stats.m_x` -> S_x"""
    t = re.sub(r"\b(?:stats\.)?m_(\w+)\.array\(\)", r"S_\1", text)
    t = re.sub(r"\bstats\.m_(\w+)\b", r"S_\1", t)
    return t


def gen_scale(cpp, fields, lits, modes, which):
    """scalar_stats_t::scale / ::upscale (tensor2d_map_t): per case, the loop over the samples assigns `array = e;` then (scale) `nan2zero(array);`"""
    body = body_of(cpp, r"void\s+scalar_stats_t::" + which + r"\s*\(\s*(?:const\s+)?scaling_type\s+scaling\s*,\s*tensor2d_map_t\s+values\s*\)\s*const",
                   f"scalar_stats_t::{which}(scaling_type, tensor2d_map_t)")
    cases, default, _ = switch_cases(body, which)
    if default is None or "throw" not in default:
        raise TranslateError(f"{which}: the default case must throw")
    bind = {"S_" + k: "s." + v for k, v in fields.items()}
    bind["array"] = "x"
    arms = []; quotes = []
    for name in modes:
        if name not in cases:
            raise TranslateError(f"{which}: no case for scaling_type::{name}")
        blk = cases[name]
        e = "x"; nz = False
        if blk:
            tops = split_top(blk)
            if len(tops) != 1 or tops[0][0] != "for" or "values.size<0>()" not in tops[0][1]:
                raise TranslateError(f"{which}/{name}: expected one loop over the samples")
            for st in split_top(tops[0][2]):
                if st[0] != "stmt":
                    raise TranslateError(f"{which}/{name}: nested block")
                t = st[1]
                if t == "auto array = values.array(sample)":
                    continue
                if t == "nan2zero(array)":
                    nz = True
                    continue
                m = re.fullmatch(r"array = (.*)", t)
                if m and not nz:
                    b2 = dict(bind); b2["array"] = e
                    e = expr(elementwise(m.group(1)), b2, lits, f"{which}/{name}")
                    continue
                raise TranslateError(f"{which}/{name}: statement not understood: `{t}`")
        quotes.append(f"{name}: {strip_ws(blk) if blk else '(nothing)'}")
        arms.append(f"  | .{name} => " + (f"nan2zero fin {e}" if nz else e))
    lname = "scaleCell" if which == "scale" else "upscaleCell"
    finarg = "(fin : α → Bool) " if which == "scale" else ""
    qs = "\n    ".join(quotes)
    return (f"/-- `scalar_stats_t::{which}(scaling_type, tensor2d_map_t)` ({CPP}) on one element `x` of a sample whose component has the\n"
            f"    statistics `s` (Eigen's array expressions are element-wise); per case:\n    {qs} -/\n"
            f"def {lname} {finarg}(scaling : ScalingType) (s : Col α) (x : α) : α :=\n  match scaling with\n" + "\n".join(arms) + "\n")


def gen_make_scaling(cpp, fields, lits, modes):
    body = body_of(cpp, r"auto\s+make_scaling\s*\(\s*const\s+scalar_stats_t&\s*stats\s*,\s*const\s+scaling_type\s+scaling\s*\)", "::make_scaling")
    mw = re.search(r"auto w\s*=\s*make_full_tensor<scalar_t>\(make_dims\(stats\.m_min\.size\(\)\),\s*(.*?)\)\s*;", body)
    mb = re.search(r"auto b\s*=\s*make_full_tensor<scalar_t>\(make_dims\(stats\.m_min\.size\(\)\),\s*(.*?)\)\s*;", body)
    if not mw or not mb:
        raise TranslateError("make_scaling: initial (w, b) not found")
    w0 = lean_number(mw.group(1), lits); b0 = lean_number(mb.group(1), lits)
    mi = re.search(r"if\s*\(\s*stats\.m_min\.size\(\)\s*>\s*0\s*\)\s*\{", body)
    if not mi:
        raise TranslateError("make_scaling: the `stats.m_min.size() > 0` guard was not found")
    inner, _ = block_after(body, mi.end() - 1)
    cases, default, _ = switch_cases(inner, "make_scaling")
    bind = {"S_" + k: "s." + v for k, v in fields.items()}
    arms = []; quotes = []
    for name in modes:
        w, b = w0, b0
        blk = cases.get(name, "")
        for st in split_top(blk):
            if st[0] != "stmt":
                raise TranslateError(f"make_scaling/{name}: nested block")
            m = re.fullmatch(r"(w|b\.array\(\)|b|w\.array\(\)) = (.*)", st[1])
            if not m:
                raise TranslateError(f"make_scaling/{name}: statement not understood: `{st[1]}`")
            e = expr(elementwise(m.group(2)), bind, lits, f"make_scaling/{name}")
            if m.group(1).startswith("w"):
                w = e
            else:
                b = e
        quotes.append(f"{name}: {strip_ws(blk) if blk else '(w, b) stay (' + mw.group(1) + ', ' + mb.group(1) + ')'}")
        arms.append(f"  | .{name} => ({w}, {b})")
    qs = "\n    ".join(quotes)
    return (f"/-- `::make_scaling(stats, scaling)` ({CPP}), one component (for a non-empty `stats`): the pair `(w, b)` with\n"
            f"    `scale(x) = w·x + b` on finite values; per case:\n    {qs} -/\n"
            f"def makeScaling (scaling : ScalingType) (s : Col α) : α × α :=\n  match scaling with\n" + "\n".join(arms) + "\n")


def gen_nan2zero(cpp, lits):
    body = body_of(cpp, r"void\s+nan2zero\s*\(\s*tvalues&\s*values\s*\)", "::nan2zero")
    tops = split_top(body)
    if len(tops) != 1 or tops[0][0] != "for":
        raise TranslateError("nan2zero: expected one loop")
    inner = split_top(tops[0][2])
    ok = (len(inner) == 2 and inner[0] == ("stmt", "auto& value = values(i)") and inner[1][0] == "if"
          and inner[1][1] == "!std::isfinite(value)" and inner[1][3] is None)
    if not ok:
        raise TranslateError("nan2zero: body not understood: " + strip_ws(tops[0][2])[:120])
    st = split_top(inner[1][2])
    m = re.fullmatch(r"value = (.*)", st[0][1]) if len(st) == 1 and st[0][0] == "stmt" else None
    if not m:
        raise TranslateError("nan2zero: replacement not understood")
    z = lean_number(m.group(1), lits)
    return (f"/-- `::nan2zero` ({CPP}) on one value: `{strip_ws(tops[0][2])}` -/\n"
            f"def nan2zero (fin : α → Bool) (value : α) : α :=\n  if ¬ (fin value = true) then {z} else value\n")


def epsilon2_exponent(num):
    """`epsilon2<tscalar>() = roundpow10(std::sqrt(epsilon<tscalar>()))`, `roundpow10(v) = std::pow(tscalar(10), std::round(std::log10(v)))`,
    `epsilon<tscalar>() = std::numeric_limits<tscalar>::epsilon()` evaluated for `double`: the decimal exponent"""
    e2 = strip_ws(strip_comments(body_of(num, r"tscalar\s+epsilon2\s*\(\s*\)\s*noexcept", "epsilon2")))
    rp = strip_ws(strip_comments(body_of(num, r"tscalar\s+roundpow10\s*\(\s*tscalar\s+v\s*\)\s*noexcept", "roundpow10")))
    ep = strip_ws(strip_comments(body_of(num, r"tscalar\s+epsilon\s*\(\s*\)\s*noexcept", "epsilon")))
    if e2 != "return roundpow10(std::sqrt(epsilon<tscalar>()));":
        raise TranslateError("epsilon2: body changed: " + e2)
    if rp != "return std::pow(tscalar(10), std::round(std::log10(v)));":
        raise TranslateError("roundpow10: body changed: " + rp)
    if ep != "return std::numeric_limits<tscalar>::epsilon();":
        raise TranslateError("epsilon: body changed: " + ep)
    k = round(math.log10(math.sqrt(2.0 ** -52)))
    if k >= 0:
        raise TranslateError("epsilon2: non-negative decimal exponent")
    return k


HEADER = """-- GENERATED by tools/props/c14.py from src/dataset/stats.cpp, include/nano/dataset/stats.h, include/nano/dataset/scaling.h, include/nano/core/numeric.h — do not edit
/-!
  The scalar code of libnano's per-column statistics and (up-)scaling, re-translated from the C++ source text on every check
  (DESIGN.md §2.3.a). Core Lean only; self-contained (no import). Scalar-generic: proved over ordered fields; `Proofs/ScalingGen.lean`
  (`model_finalize_is_generated`, `model_push_is_generated`, `model_scale_is_generated`, …) ties the hand-written text of
  Model/Scaling.lean — which the driver runs at `Float` and which C09's iterator model builds on — to these definitions, for every
  scalar type.

  One index of every attribute of `scalar_stats_t` is a `Col α`; a statement `stats.m_x(i) = e;` is `{ s with x := e }` (compound
  assignments expanded), `const auto v = e;` is `let v := e`, `if`/`else` blocks thread the state, `std::max(a, b)` ↦ `gmax a b` =
  `if a < b then b else a` (libstdc++'s definition), `std::min(a, b)` ↦ `gmin a b` = `if b < a then b else a`, `std::sqrt` and
  `std::isfinite` are the parameters `sqrt`, `fin`, `static_cast<scalar_t>(N)` ↦ `(N : α)`, floating literals `1.0` ↦ `(1 : α)`.
-/
set_option linter.unusedVariables false
namespace NanoVerif.Gen.ScalingGuards
"""


def generate(repo):
    def rd(p):
        try:
            return open(os.path.join(repo, p)).read()
        except OSError as ex:
            raise TranslateError(f"cannot read {p}: {ex}")
    cpp = strip_comments(rd(CPP)); hdr = strip_comments(rd(HDR)); num = rd(NUM); enum_src = strip_comments(rd(ENUM))
    lits = Lits()
    attrs = attributes(hdr)
    fields = {n: n for n, _ in attrs}
    modes = enum_modes(enum_src)
    k = epsilon2_exponent(num)
    pieces = [gen_init(cpp, attrs, lits), gen_update(cpp, fields, lits), gen_done(cpp, fields, lits),
              gen_nan2zero(cpp, lits), gen_scale(cpp, fields, lits, modes, "scale"), gen_scale(cpp, fields, lits, modes, "upscale"),
              gen_make_scaling(cpp, fields, lits, modes)]
    out = [HEADER]
    out.append(f"/-- `enum class scaling_type` ({ENUM}) -/\ninductive ScalingType where\n" + "\n".join(f"  | {m}" for m in modes)
               + "\nderiving DecidableEq, Repr\n")
    out.append(f"/-- one index of every attribute of `struct scalar_stats_t` ({HDR}), in declaration order -/\nstructure Col (α : Type) where\n"
               + "\n".join(f"  {n} : {t}" for n, t in attrs) + "\n")
    out.append(f"/-- decimal exponent of `epsilon2<double>()` = `roundpow10(std::sqrt(std::numeric_limits<double>::epsilon()))` =\n"
               f"    `std::pow(10, std::round(std::log10(sqrt(2^-52))))` ({NUM}) -/\ndef epsilon2Exp10 : Int := {k}\n")
    out.append(f"section\nvariable {{α : Type}} [Div α] [OfNat α 1] [OfNat α {10 ** (-k)}]\n")
    out.append(f"/-- `epsilon2<scalar_t>()` as an exact quotient (at `Float`: the correctly rounded double 1e{k}) -/\n"
               f"def epsilon2 : α := (1 : α) / ({10 ** (-k)} : α)\n\nend\n")
    need = sorted(lits.used | {0, 1})
    ofn = " ".join(f"[OfNat α {n}]" for n in need)
    out.append(f"section\nvariable {{α : Type}} [Add α] [Sub α] [Mul α] [Div α] [Neg α] [LT α] [DecidableLT α] [NatCast α] {ofn}\n")
    out.append("/-- `std::max(a, b)`: `(a < b) ? b : a` -/\ndef gmax (a b : α) : α := if a < b then b else a\n")
    out.append("/-- `std::min(a, b)`: `(b < a) ? b : a` -/\ndef gmin (a b : α) : α := if b < a then b else a\n")
    out += pieces
    out.append("end\nend NanoVerif.Gen.ScalingGuards\n")
    return "\n".join(out)


def translate():
    try:
        text = generate(vlib.REPO)
    except TranslateError as ex:
        raise vlib.Broken("translate", f"c14_translate: {ex}")
    vlib.write_if_changed(OUT, text)
    return OUT


if __name__ == "__main__":
    import sys
    sys.stdout.write(generate(sys.argv[1] if len(sys.argv) > 1 else vlib.REPO))
