"""C05 — penalty / augmented-Lagrangian functions match their definitions; the AL solver converges feasibly (DESIGN.md §4 C05)."""
import math, os
from fractions import Fraction as Fr
import vlib
from vlib import Toks, lst, f2h, h2f
from props import c05_translate

ID = "C05"
LEVEL = "proof"
HARNESS = "c05"
LEAN_MODULES = ["NanoVerif.Props.C05"]
NS = "NanoVerif.Penalty."
OBLIGATIONS = [NS + t for t in [
    "linear_penalty_eq_def", "quadratic_penalty_eq_def", "al_eq_def", "al_none_of_size_mismatch",
    "linear_penalty_value_eq_header", "quadratic_penalty_value_eq_header",
    "penalty_eq_objective_on_feasible",
    "abs_subgradient", "hinge_subgradient", "sq_derivative", "hinge_sq_derivative", "al_term_derivative",
    "valid_eq_violation", "valid_eq_zero_iff", "vgrad_length_of_compatible",
    "criterion_ge_violation", "makeRo1_pos", "miu_nonneg_invariant", "al_best_violation_le_criterion",
    "al_converged_feasible", "al_converged_feasible_solver", "al_state_constraints_recomputed",
    "al_iteration_count", "al_returned_point", "al_penalty_schedule", "al_state_residuals",
    # the outer loop of the linear-penalty / quadratic-penalty solvers (Model/PenaltySolver.lean)
    "penSolve_fin", "pen_converged_stopping_test", "pen_converged_step_small", "pen_converged_not_feasible",
    "pen_penalty_schedule", "pen_state_constraints_recomputed", "pen_returned_point", "pen_iteration_count",
    "pen_start_points", "pen_status_meaning", "pen_inner_precision",
    "linear_penalty_solver_inner_objective", "quadratic_penalty_solver_inner_objective",
    "penLoop_fin", "penStep_run", "Sched.call", "lastValid_mem",
    # solver_state_t: Lagrangian gradient, KKT residuals, stored multipliers (Model/PenaltyState.lean)
    "lagrangian_grad_eq_def", "kkt3_eq_zero_iff", "kktAll_le_imp_eps_kkt", "al_returned_multipliers", "zero_multipliers_state",
    "foldl_axpy_spec", "assignMult_spec", "alLoop_multInv",
    # translation round (Proofs/PenaltyGen.lean): the model's definitions are the formulas regenerated from the C++ source
    "model_penaltyVgrad_is_generated", "model_linearOp_is_generated", "model_quadraticOp_is_generated",
    "model_alVgrad_eq_is_generated", "model_alVgrad_ineq_is_generated", "model_penStep_is_generated",
    "model_makeRo1_is_generated", "model_criterion_is_generated", "model_alInit_is_generated",
    "model_alConverged_is_generated", "model_alImproved_is_generated", "model_alStep_stop_is_generated",
    "model_alStep_updates_are_generated", "model_xConverged_is_generated",
]]
TRUSTED = [
    "Lean 4.33.0 kernel + the Mathlib modules imported by Proofs/Penalty.lean, Proofs/AugLag.lean, Proofs/PenaltySolver.lean, "
    "Proofs/PenaltyState.lean, "
    "Props/C05.lean",
    "axioms: at most propext, Classical.choice, Quot.sound (audited per theorem on every run)",
    "hand-written model NanoVerif/Model/Constraint.lean + Model/Penalty.lean + Model/PenaltySolver.lean + Model/PenaltyState.lean of constraint.cpp, "
    "function/penalty.cpp, augmented.cpp, solver/penalty.cpp, state.cpp (update_constraints, converged, kkt_optimality_test1/2), "
    "solver.cpp (done, more_precise); tied to the code by the correspondence run "
    "(harness/c05.cpp on the real library vs the compiled Lean driver at Float): penalties from the dumped evaluations "
    "value-exact, constraint kinds within rtol 1e-12 / atol 1e-11, the AL outer loop by oracle-replay of the "
    "augmented.outer / augmented.return / solver.done hooks, every decision and number value-exact; the outer loop of the two "
    "penalty solvers by oracle-replay of the penalty.outer / solver.done hooks (penalty parameter, decisions, starting points, "
    "returned point, the value the inner solver reports = the model's penalty function with that parameter: value-exact; the "
    "returned state's constraint values and feasibility residuals from the coefficients: rtol 1e-12 / atol 1e-11); for both solver "
    "families also value-exact: the point the inner solver is started at (first lsearch.begin / osga.iter record of each inner "
    "solve), the value the inner solver reports at its answer = the model's penalty / augmented-Lagrangian function with the "
    "iteration's parameters, and kkt_optimality_test3/4/5 of the returned state (the only window on m_meq, m_mineq, m_lgx) = "
    "the model's stored multipliers and Lagrangian gradient from the dumped gradients",
    "tools/props/c05.py generator + exact-rational (fractions.Fraction) oracle of the header formulas; harness/c05.cpp; "
    "g++/libstdc++/Eigen",
    "tools/props/c05_translate.py (with the expression parser of c01_translate.py): the translator of the per-constraint kernels of "
    "penalty.cpp (guards, values, gradient factors of the three do_vgrads), make_ro1, make_criterion, the decisions / ro / multiplier / "
    "penalty updates of augmented.cpp and solver/penalty.cpp and solver_t::more_precise into Gen/PenaltyKernels.lean, Gen/AugLagStep.lean "
    "(statement shapes matched in order, Eigen array statements read element by element: a.max(b) = std::max on coefficients); "
    "Proofs/PenaltyGen.lean proves the hand-written model equal to the generated text for every scalar type; what stays hand-written: the "
    "loop skeletons (iteration over the constraints, threading of fx / gx / multiplier cursors, best-state bookkeeping), the "
    "infinity norms and dot products (maxL, dot), nano::converged (Gen/DoneLogic.lean of C01 has its scalar form), state.cpp",
]
ASSUMPTIONS = [
    "exact arithmetic: the theorems are about an arbitrary linear ordered field, not binary64 (NaN/inf, rounding in the "
    "criterion are outside; the correspondence observes them only on the generated inputs)",
    "the objective and the functional constraints are oracles (value and gradient supplied); the inner solver of the "
    "augmented-Lagrangian method is an arbitrary function whose answers are solver_state_t objects of the constrained "
    "function (constraint values consistent with the point: the class invariant kept by update_constraints, checked on "
    "every logged answer within the tolerance of the constraint kinds)",
    "gradients are lists of the function's dimension (hypothesis of the *_eq_def theorems; guaranteed by "
    "function_t::constrain/compatible for the coefficient kinds: vgrad_length_of_compatible)",
    "the parameter domains registered by solver_augmented_lagrangian_t (gamma > 1, miu_max > 0) are hypotheses of the "
    "loop theorems; solver->more_precise only affects the oracle",
    "penalty solvers: the inner solver (with the objective) is an arbitrary function of the outer iteration and the loop state "
    "returning a point and the two validity flags (cstate.valid(), bstate.valid() after the update); penalty0 > 0, eta > 1, "
    "0 < epsilonK <= 1, epsilon0 > 0 (the registered domains) are hypotheses of the schedule theorems only; the inner "
    "precision epsilon0 * epsilonK^m is modelled and proved but not observed by any hook (model only); "
    "`converged` of the penalty solvers carries NO feasibility guarantee (pen_converged_not_feasible, replayed on the code: "
    "corpus) — the statement promises feasibility for the augmented-Lagrangian solver only",
]
RULE = ("pen eval: objectives (15 registered functions through the factory, random quadratics) x 0..8 constraints of the 11 "
        "kinds (plus deliberately incompatible ones) x x in [-5,5]^n x ro in [1e-3,1e6] x multipliers (zero, moderate, 1e6); "
        "a third of the cases use dyadic data with points exactly on constraint boundaries (h = 0, g = 0) or feasible; "
        "al solve: random convex QPs/LPs through make_function(program), quadratics/registered functions with "
        "ball/box/linear/quadratic constraints, eps in [1e-10,1e-4], random x0, default and varied tau/gamma/miu_max/"
        "lambda bounds/max_outer_iters; ps solve: both penalty solvers x quadratics/registered functions/QPs x 0..8 constraints of "
        "the 11 kinds (box, ball, linear, quadratic, functional; feasible sets built around a point, 1/8 empty feasible sets, 1/8 "
        "unconstrained) x eps in [1e-10,1e-4] x random x0 (4%: the objective overflows at x0, the inner solver fails) x the "
        "registered defaults or eta in (1,1e3], epsilon0 in [1e-10,1e-2], epsilonK in [0.1,1], penalty0 in [1e-3,1e3], "
        "max_outer_iters in {10,11,20,100}, max_evals in {50..5000}; a pen case is non-trivial when it has >= 1 equality, >= 1 "
        "violated and >= 1 satisfied inequality; an al / ps case when it has >= 1 constraint; distinct by op text")
FLAVOUR = {"quick": "plain", "thorough": "asan"}


def translate():
    """Gen/PenaltyKernels.lean (the per-constraint kernels of src/function/penalty.cpp) and Gen/AugLagStep.lean (the scalar logic of the
    outer loops of src/solver/augmented.cpp, src/solver/penalty.cpp, solver_t::more_precise) from the source of the tree under check"""
    c05_translate.T.translate()      # the shared fragment Gen/DoneLogic.lean (solver_t::done, nano::converged) of the same tree, as C01 / C02 do
    return c05_translate.translate()


HARNESS_TIMEOUT = 1500
RTOL = 1e-12   # tolerant sections only (Eigen reductions); everything else is compared by value, exactly
ATOL = 1e-11

SMOOTH_IDS = ["sphere", "trid", "rosenbrock", "cauchy", "exponential", "zakharov", "chung-reynolds", "axis-ellipsoid",
              "schumer-steiglitz", "styblinski-tang", "dixon-price", "sargan", "rotated-ellipsoid", "qing"]
NONSMOOTH_IDS = ["maxq"]
EQ_KINDS = {"const", "balleq", "lineq", "quadeq", "feq"}
KINDS = ["const", "min", "max", "balleq", "ballin", "lineq", "linin", "quadeq", "quadin", "feq", "fin"]


# ---------------------------------------------------------------------------------------------------------
# op text

def H(x):
    return f2h(float(x))


def FL(xs):
    return lst([float(v) for v in xs], f2h)


def cons_text(c):
    k = c["kind"]
    if k in ("const", "min", "max"):
        return f"{k} {H(c['value'])} {c['dim']}"
    if k in ("balleq", "ballin"):
        return f"{k} {FL(c['origin'])} {H(c['radius'])}"
    if k in ("lineq", "linin"):
        return f"{k} {FL(c['q'])} {H(c['r'])}"
    if k in ("quadeq", "quadin"):
        return f"{k} {c['rows']} {c['cols']} {FL(c['P'])} {FL(c['q'])} {H(c['r'])}"
    f = c["f"]
    if f["kind"] == "Q":
        return f"{k} Q {f['rows']} {f['cols']} {FL(f['P'])} {FL(f['q'])} {H(f['r'])}"
    if f["kind"] == "N":
        return f"{k} N {f['size']} {H(f['r'])}"
    if f["kind"] == "P":
        return f"{k} P {f['size']} {H(f['r'])}"
    return f"{k} S {f['id']} {f['size']} {H(f['r'])}"


def obj_text(o):
    if o["kind"] == "S":
        return f"S {o['id']}"
    if o["kind"] in ("Q", "QP"):
        return f"{o['kind']} {FL(o['Q'])} {FL(o['c'])}"
    return f"LP {FL(o['c'])}"


def problem_text(n, obj, cons):
    return f"{n} {obj_text(obj)} {len(cons)}" + "".join(" " + cons_text(c) for c in cons)


# ---------------------------------------------------------------------------------------------------------
# parsing (mirrors harness/c05.cpp)

def parse_functional(t):
    kind = t.s()
    if kind == "Q":
        rows = t.int(); cols = t.int(); P = t.fs(); q = t.fs(); r = t.f()
        return dict(kind="Q", rows=rows, cols=cols, P=P, q=q, r=r, size=len(q))
    if kind == "N":
        size = t.int(); r = t.f()
        return dict(kind="N", size=size, r=r)
    if kind == "P":
        size = t.int(); r = t.f()
        return dict(kind="P", size=size, r=r)
    ident = t.s(); size = t.int(); r = t.f()
    return dict(kind="S", id=ident, size=size, r=r)


def parse_constraint(t):
    k = t.s()
    if k in ("const", "min", "max"):
        v = t.f(); d = t.int()
        return dict(kind=k, value=v, dim=d)
    if k in ("balleq", "ballin"):
        o = t.fs(); r = t.f()
        return dict(kind=k, origin=o, radius=r)
    if k in ("lineq", "linin"):
        q = t.fs(); r = t.f()
        return dict(kind=k, q=q, r=r)
    if k in ("quadeq", "quadin"):
        rows = t.int(); cols = t.int(); P = t.fs(); q = t.fs(); r = t.f()
        return dict(kind=k, rows=rows, cols=cols, P=P, q=q, r=r)
    return dict(kind=k, f=parse_functional(t))


def parse_problem(t):
    n = t.int()
    ok = t.s()
    if ok == "S":
        obj = dict(kind="S", id=t.s())
    elif ok in ("Q", "QP"):
        Q = t.fs(); c = t.fs()
        obj = dict(kind=ok, Q=Q, c=c)
    else:
        obj = dict(kind="LP", c=t.fs())
    m = t.int()
    cons = [parse_constraint(t) for _ in range(m)]
    return n, obj, cons


def compatible(c, n):
    """the documented contract of function_t::constrain (constraint.h / function.h): sizes must match the function,
    a ball needs a positive radius, a box constraint a dimension inside the function"""
    k = c["kind"]
    if k in ("const", "min", "max"):
        return 0 <= c["dim"] < n
    if k in ("balleq", "ballin"):
        return len(c["origin"]) == n and c["radius"] > 0.0
    if k in ("lineq", "linin"):
        return len(c["q"]) == n
    if k in ("quadeq", "quadin"):
        return c["rows"] == n and c["cols"] == n and len(c["q"]) == n
    return c["f"]["size"] == n


def is_eq(c):
    return c["kind"] in EQ_KINDS


# ---------------------------------------------------------------------------------------------------------
# exact evaluation of the constraint kinds (rational arithmetic on the doubles of the op)

def frs(xs):
    return [Fr(v) for v in xs]


def quad_exact(P, q, r, x, n):
    """1/2 x.P.x + q.x + r, its gradient 1/2 (P + P') x + q (the derivative of the value for ANY square P, symmetric or not),
    and the sums of the absolute values of the terms"""
    P = frs(P); q = frs(q); r = Fr(r)
    Px = [sum(P[i * n + j] * x[j] for j in range(n)) for i in range(n)]
    v = Fr(1, 2) * sum(x[i] * Px[i] for i in range(n)) + sum(q[i] * x[i] for i in range(n)) + r
    a = Fr(1, 2) * sum(abs(x[i] * P[i * n + j] * x[j]) for i in range(n) for j in range(n)) + \
        sum(abs(q[i] * x[i]) for i in range(n)) + abs(r)
    PTx = [sum(P[j * n + i] * x[j] for j in range(n)) for i in range(n)]
    g = [Fr(1, 2) * (Px[i] + PTx[i]) + q[i] for i in range(n)]
    ga = [Fr(1, 2) * sum(abs(P[i * n + j] * x[j]) + abs(P[j * n + i] * x[j]) for j in range(n)) + abs(q[i]) for i in range(n)]
    return v, g, a, ga


def functional_exact(f, x, n):
    """(value, gradient, abs-sum, gradient abs-sums) or None when the oracle has no independent formula"""
    if f["kind"] == "Q":
        return quad_exact(f["P"], f["q"], f["r"], x, n)
    r = Fr(f["r"])
    if f["kind"] == "N":
        v = sum(abs(xi) for xi in x) - r
        g = [Fr((xi > 0) - (xi < 0)) for xi in x]
        return v, g, sum(abs(xi) for xi in x) + abs(r), [Fr(1)] * n
    if f["kind"] == "P":
        # a NESTED penalty: the quadratic penalty (c = 2) of the sphere function constrained by x_0 <= 1/4, shifted by r - the
        # constraint's function itself evaluates a penalty function (seeded change C05-g2: a shared scratch buffer)
        h = max(Fr(0), x[0] - Fr(1, 4))
        v = sum(xi * xi for xi in x) + 2 * h * h - r
        g = [2 * xi for xi in x]; g[0] = g[0] + 4 * h
        return v, g, sum(xi * xi for xi in x) + 2 * h * h + abs(r), [abs(2 * x[i]) + (4 * h if i == 0 else 0) for i in range(n)]
    if f["id"] == "sphere":
        return sum(xi * xi for xi in x) - r, [2 * xi for xi in x], sum(xi * xi for xi in x) + abs(r), [abs(2 * xi) for xi in x]
    if f["id"] == "trid":
        v = sum((xi - 1) ** 2 for xi in x) - sum(x[i] * x[i - 1] for i in range(1, n)) - r
        a = sum((xi - 1) ** 2 for xi in x) + sum(abs(x[i] * x[i - 1]) for i in range(1, n)) + abs(r)
        g = [2 * (x[i] - 1) - (x[i - 1] if i > 0 else 0) - (x[i + 1] if i + 1 < n else 0) for i in range(n)]
        ga = [abs(2 * (x[i] - 1)) + (abs(x[i - 1]) if i > 0 else 0) + (abs(x[i + 1]) if i + 1 < n else 0) for i in range(n)]
        return v, g, a, ga
    return None


def constraint_exact(c, x, n):
    """value, gradient, condition (sum of |terms|) of the constraint function as defined in constraint.h"""
    k = c["kind"]
    if k in ("const", "max"):
        d = c["dim"]; v = x[d] - Fr(c["value"])
        return v, [Fr(1) if i == d else Fr(0) for i in range(n)], abs(x[d]) + abs(Fr(c["value"])), [Fr(0)] * n
    if k == "min":
        d = c["dim"]; v = Fr(c["value"]) - x[d]
        return v, [Fr(-1) if i == d else Fr(0) for i in range(n)], abs(x[d]) + abs(Fr(c["value"])), [Fr(0)] * n
    if k in ("balleq", "ballin"):
        o = frs(c["origin"]); r = Fr(c["radius"])
        v = sum((x[i] - o[i]) ** 2 for i in range(n)) - r * r
        return v, [2 * (x[i] - o[i]) for i in range(n)], sum((x[i] - o[i]) ** 2 for i in range(n)) + r * r, \
            [2 * (abs(x[i]) + abs(o[i])) for i in range(n)]
    if k in ("lineq", "linin"):
        q = frs(c["q"]); r = Fr(c["r"])
        v = sum(q[i] * x[i] for i in range(n)) + r
        return v, q, sum(abs(q[i] * x[i]) for i in range(n)) + abs(r), [Fr(0)] * n
    if k in ("quadeq", "quadin"):
        return quad_exact(c["P"], c["q"], c["r"], x, n)
    return functional_exact(c["f"], x, n)


# ---------------------------------------------------------------------------------------------------------
# generator

def dyadic(rng, lo, hi, den=4):
    return rng.range(lo * den, hi * den) / den


class G:
    def __init__(self, rng, exact):
        self.rng = rng
        self.exact = exact      # dyadic data: every evaluation is exact in binary64

    def coef(self, s=2.0):
        return dyadic(self.rng, -int(s), int(s)) if self.exact else self.rng.uniform(-s, s)

    def point(self, n, s=5.0):
        return [dyadic(self.rng, -int(s), int(s)) if self.exact else self.rng.uniform(-s, s) for _ in range(n)]

    def sym(self, n, s=2.0, psd=False):
        if psd:
            m = [[self.coef(1.0) for _ in range(n)] for _ in range(n)]
            P = [[sum(m[k][i] * m[k][j] for k in range(n)) for j in range(n)] for i in range(n)]
            for i in range(n):
                P[i][i] += 0.5
        else:
            P = [[0.0] * n for _ in range(n)]
            for i in range(n):
                for j in range(i, n):
                    P[i][j] = P[j][i] = self.coef(s)
        return [P[i][j] for i in range(n) for j in range(n)]

    def nonsym(self, n, s=2.0, psd=False):
        """a square matrix with the symmetric part of `sym` plus a random skew-symmetric part (quadratic_t accepts any square P:
        value and convexity only depend on the symmetric part, the gradient must be that of the symmetric part)"""
        P = self.sym(n, s, psd)
        for i in range(n):
            for j in range(i + 1, n):
                k = self.coef(s)
                P[i * n + j] += k
                P[j * n + i] -= k
        return P


def evalf(c, x, n):
    """float evaluation used by the generator only (to place boundaries / choose feasible shifts)"""
    r = constraint_exact(c, frs(x), n)
    return None if r is None else r[0]


def gen_constraint(g, n, x, mode, kinds=KINDS):
    """mode: 'any' | 'boundary' (value exactly 0 at x, needs exact data) | 'feasible' (h = 0 / g <= 0 at x)"""
    rng = g.rng
    k = rng.choice(kinds)
    c = dict(kind=k)
    if k in ("const", "min", "max"):
        d = rng.below(n)
        c.update(dim=d, value=g.coef(5.0))
        if mode in ("boundary", "feasible") or rng.chance(0.1):
            c["value"] = x[d]
            if mode == "feasible" and k != "const" and rng.chance(0.6):
                c["value"] = x[d] + (1.5 if k == "max" else -1.5)
    elif k in ("balleq", "ballin"):
        if mode in ("boundary", "feasible") and g.exact:
            pyth = rng.choice([(3.0, 4.0, 5.0), (0.0, 5.0, 5.0), (6.0, 8.0, 10.0), (2.5, 6.0, 6.5), (0.75, 1.0, 1.25)])
            d = [0.0] * n
            if n == 1:
                d[0] = pyth[2]
            else:
                j1 = rng.below(n); j2 = (j1 + 1 + rng.below(n - 1)) % n
                d[j1] = pyth[0]; d[j2] = pyth[1]
            rad = pyth[2]
            c.update(origin=[x[i] - d[i] for i in range(n)], radius=rad)
            if mode == "feasible" and k == "ballin" and rng.chance(0.6):
                c["radius"] = rad + 2.0
        else:
            c.update(origin=g.point(n, 3.0), radius=abs(g.coef(4.0)) + 0.25)
            if mode == "feasible":
                k = c["kind"] = "ballin"
                c["origin"] = [x[i] + 0.25 for i in range(n)]
                c["radius"] = float(n) + 1.0
    elif k in ("lineq", "linin"):
        c.update(q=[g.coef() for _ in range(n)], r=g.coef(4.0))
        if mode in ("boundary", "feasible"):
            v = evalf(dict(kind=k, q=c["q"], r=0.0), x, n)
            c["r"] = float(-v)
            if mode == "feasible" and k == "linin" and rng.chance(0.6):
                c["r"] = float(-v) - 1.25
    elif k in ("quadeq", "quadin"):
        psd = (k == "quadin" and rng.chance(0.5))
        c.update(rows=n, cols=n, P=(g.nonsym(n, 1.0, psd) if rng.chance(0.5) else g.sym(n, 1.0, psd)), q=[g.coef() for _ in range(n)],
                 r=g.coef(4.0))
        if mode in ("boundary", "feasible"):
            v = evalf(dict(kind=k, rows=n, cols=n, P=c["P"], q=c["q"], r=0.0), x, n)
            c["r"] = float(-v)
            if mode == "feasible" and k == "quadin" and rng.chance(0.6):
                c["r"] = float(-v) - 2.0
    else:
        fk = rng.choice(["Q", "N", "S", "S", "P"])
        if fk == "P":
            f = dict(kind="P", size=n, r=abs(g.coef(8.0)))
        elif fk == "Q":
            f = dict(kind="Q", rows=n, cols=n, P=g.sym(n, 1.0), q=[g.coef() for _ in range(n)], r=g.coef(4.0), size=n)
        elif fk == "N":
            f = dict(kind="N", size=n, r=abs(g.coef(8.0)))
        else:
            ident = rng.choice(["sphere", "trid"] + (SMOOTH_IDS if n >= 2 else []))
            f = dict(kind="S", id=ident, size=n, r=abs(g.coef(8.0)) * (1 + rng.below(10)))
        if mode in ("boundary", "feasible"):
            probe = dict(f); probe["r"] = 0.0
            v = functional_exact(probe, frs(x), n)
            if v is None:
                probe = f = dict(kind="N", size=n, r=0.0)
                v = functional_exact(probe, frs(x), n)
            f["r"] = float(v[0])
            if mode == "feasible" and k == "fin" and rng.chance(0.6):
                f["r"] = float(v[0]) + 1.5
        c["f"] = f
    return c


def spoil(g, n, c):
    """make a constraint incompatible with an n-dimensional function (function_t::constrain must refuse it)"""
    k = c["kind"]
    c = dict(c)
    if k in ("const", "min", "max"):
        c["dim"] = n + g.rng.below(2)
    elif k in ("balleq", "ballin"):
        if g.rng.chance(0.5):
            c["radius"] = -abs(c["radius"]) if g.rng.chance(0.5) else 0.0
        else:
            c["origin"] = c["origin"] + [0.5]
    elif k in ("lineq", "linin"):
        c["q"] = c["q"][:-1] if n > 1 and g.rng.chance(0.5) else c["q"] + [1.0]
    elif k in ("quadeq", "quadin"):
        if g.rng.chance(0.5):
            c["q"] = c["q"] + [1.0]
        else:
            c["rows"] = n + 1; c["P"] = c["P"] + [0.0] * n
    else:
        f = dict(c["f"])
        if f["kind"] == "Q":
            f["rows"] = f["cols"] = n + 1; f["P"] = [0.0] * ((n + 1) ** 2); f["q"] = f["q"] + [0.0]; f["size"] = n + 1
        else:
            f["size"] = n + 1
        c["f"] = f
    return c


def gen_objective(g, n):
    rng = g.rng
    if n >= 2 and rng.chance(0.6):
        return dict(kind="S", id=rng.choice(SMOOTH_IDS + NONSMOOTH_IDS))
    return dict(kind="Q", Q=g.sym(n, 2.0, psd=rng.chance(0.5)), c=[g.coef() for _ in range(n)])


def gen_pen(rng, big=False):
    exact = rng.chance(0.35)
    g = G(rng, exact)
    n = rng.range(1, 8) if not big else rng.range(9, 24)
    x = g.point(n)
    style = rng.choice(["any", "any", "any", "boundary", "feasible"]) if exact else rng.choice(["any", "any", "any", "feasible"])
    m = rng.range(0, 8)
    cons = []
    for _ in range(m):
        mode = style if style == "any" or rng.chance(0.8) else "any"
        if style == "feasible":
            mode = "feasible"
        c = gen_constraint(g, n, x, mode)
        if style != "feasible" and rng.chance(0.08):
            c = spoil(g, n, c)
        cons.append(c)
    if style == "feasible" and not exact:
        # without exact data an equality cannot be met: keep inequalities only
        cons = [c for c in cons if not is_eq(c)]
    acc = [c for c in cons if compatible(c, n)]
    neq = sum(1 for c in acc if is_eq(c)); nin = len(acc) - neq
    pick = rng.below(10)
    ro = [1e-3, 1.0, 1e6][pick] if pick < 3 else 10.0 ** rng.uniform(-3.0, 6.0)
    if exact:
        ro = rng.choice([0.125, 0.5, 1.0, 2.0, 8.0, 1024.0])
    mstyle = "zero" if style == "feasible" and rng.chance(0.8) else rng.choice(["zero", "mod", "mod", "large"])
    if mstyle == "zero":
        lam = [0.0] * neq; miu = [0.0] * nin
    elif mstyle == "mod":
        lam = [g.coef(8.0) for _ in range(neq)]; miu = [abs(g.coef(8.0)) for _ in range(nin)]
    else:
        lam = [g.coef(2.0) * 1e6 for _ in range(neq)]; miu = [abs(g.coef(2.0)) * 1e6 for _ in range(nin)]
    obj = gen_objective(g, n)
    return f"pen eval {problem_text(n, obj, cons)} {FL(x)} {H(ro)} {FL(lam)} {FL(miu)}"


def gen_al(rng, tier):
    g = G(rng, rng.chance(0.15))
    kind = rng.choice(["qp", "qp", "lp", "ballbox", "ballbox", "mixed"])
    n = rng.range(1, 6)
    xs = g.point(n, 2.0)            # a point the feasible set is built around
    cons = []
    if kind in ("qp", "lp"):
        p = rng.range(0, max(0, n - 1)); m = rng.range(0 if p > 0 else 1, 5)
        for _ in range(p):
            q = [g.coef() for _ in range(n)]
            cons.append(dict(kind="lineq", q=q, r=float(-evalf(dict(kind="lineq", q=q, r=0.0), xs, n))))
        for _ in range(m):
            q = [g.coef() for _ in range(n)]
            slack = 0.0 if rng.chance(0.4) else abs(g.coef(2.0))
            cons.append(dict(kind="linin", q=q, r=float(-evalf(dict(kind="linin", q=q, r=0.0), xs, n)) - slack))
        if kind == "lp" or rng.chance(0.3):
            # a box (as linear inequalities) keeps the problem bounded
            for i in range(n):
                e = [1.0 if j == i else 0.0 for j in range(n)]
                cons.append(dict(kind="linin", q=e, r=-(xs[i] + 2.0)))
                cons.append(dict(kind="linin", q=[-v for v in e], r=xs[i] - 3.0))
        via_program = rng.chance(0.7)
        if kind == "lp":
            obj = dict(kind="LP", c=[g.coef() for _ in range(n)])
            if not via_program:
                obj = dict(kind="Q", Q=[0.0] * (n * n), c=obj["c"])
        else:
            obj = dict(kind="QP" if via_program else "Q", Q=g.sym(n, 1.0, psd=True), c=[g.coef() for _ in range(n)])
    else:
        obj = dict(kind="Q", Q=g.sym(n, 1.0, psd=True), c=[g.coef(3.0) for _ in range(n)])
        if n >= 2 and rng.chance(0.3):
            obj = dict(kind="S", id=rng.choice(["sphere", "trid", "rosenbrock", "axis-ellipsoid", "rotated-ellipsoid", "sargan"]))
        if rng.chance(0.7):
            cons.append(dict(kind="ballin" if rng.chance(0.8) else "balleq", origin=[v + g.coef(0.5) for v in xs],
                             radius=abs(g.coef(2.0)) + 0.75))
        for i in range(n):
            if rng.chance(0.5):
                cons.append(dict(kind="min", value=xs[i] - abs(g.coef(2.0)) - 0.25, dim=i))
            if rng.chance(0.5):
                cons.append(dict(kind="max", value=xs[i] + abs(g.coef(2.0)) + 0.25, dim=i))
        if kind == "mixed":
            for _ in range(rng.range(1, 3)):
                c = gen_constraint(g, n, xs, "feasible", kinds=["const", "lineq", "linin", "quadin", "quadin"])
                if c["kind"] == "quadin":
                    c["P"] = g.nonsym(n, 1.0, psd=True) if rng.chance(0.5) else g.sym(n, 1.0, psd=True)
                    c["r"] = float(-evalf(dict(kind="quadin", rows=n, cols=n, P=c["P"], q=c["q"], r=0.0), xs, n)) - abs(g.coef(2.0))
                cons.append(c)
        if rng.chance(0.05):
            cons.append(spoil(g, n, dict(kind="linin", q=[1.0] * n, r=0.0)))
    # at most one equality per free dimension keeps the equalities consistent around xs
    x0 = list(xs) if rng.chance(0.1) else g.point(n)
    eps = 10.0 ** rng.uniform(-10.0, -4.0)
    if rng.chance(0.1):
        eps = rng.choice([1e-10, 1e-4])
    max_evals, max_outers, tau, gamma, miu_max, lmin, lmax = 1000, 100, 0.5, 10.0, 1e20, -1e20, 1e20
    if rng.chance(0.35):
        max_evals = rng.choice([50, 200, 1000, 5000])
        max_outers = rng.choice([10, 15, 30, 100])
        tau = rng.choice([0.1, 0.25, 0.5, 0.9])
        gamma = rng.choice([1.5, 2.0, 10.0, 100.0])
        miu_max = rng.choice([0.5, 10.0, 1e3, 1e20])
        b = rng.choice([0.5, 10.0, 1e3, 1e20])
        lmin, lmax = -b, b
    return (f"al solve {problem_text(n, obj, cons)} {FL(x0)} {H(eps)} {max_evals} {max_outers} {H(tau)} {H(gamma)} "
            f"{H(miu_max)} {H(lmin)} {H(lmax)}")


PS_CORE_KINDS = ["const", "lineq", "linin", "quadin", "quadin"]


def gen_ps_problem(rng, g):
    """a constrained problem for the penalty solvers: feasible set built around a point xs (so that it is non-empty), all 11
    constraint kinds, 0..8 constraints; now and then an empty feasible set (the solvers must still stop and report honestly)"""
    n = rng.range(1, 5)
    xs = g.point(n, 2.0)
    cons = []
    style = rng.choice(["none", "box", "ball", "linear", "mixed", "mixed", "functional", "infeasible"])
    obj = dict(kind="Q", Q=g.sym(n, 1.0, psd=True), c=[g.coef(3.0) for _ in range(n)])
    if n >= 2 and rng.chance(0.3):
        obj = dict(kind="S", id=rng.choice(["sphere", "trid", "rosenbrock", "axis-ellipsoid", "rotated-ellipsoid", "sargan",
                                            "chung-reynolds", "zakharov"]))
    if style == "none":
        pass
    elif style == "box":
        for i in range(n):
            if rng.chance(0.7):
                cons.append(dict(kind="min", value=xs[i] - abs(g.coef(2.0)), dim=i))
            if rng.chance(0.7):
                cons.append(dict(kind="max", value=xs[i] + abs(g.coef(2.0)), dim=i))
    elif style == "ball":
        cons.append(dict(kind="ballin" if rng.chance(0.7) else "balleq", origin=[v + g.coef(0.5) for v in xs],
                         radius=abs(g.coef(2.0)) + 0.75))
        if rng.chance(0.5):
            i = rng.below(n)
            cons.append(dict(kind="min", value=xs[i] - abs(g.coef(2.0)) - 0.25, dim=i))
    elif style == "linear":
        p = rng.range(0, max(0, n - 1)); m = rng.range(0 if p > 0 else 1, 5)
        for _ in range(p):
            q = [g.coef() for _ in range(n)]
            cons.append(dict(kind="lineq", q=q, r=float(-evalf(dict(kind="lineq", q=q, r=0.0), xs, n))))
        for _ in range(m):
            q = [g.coef() for _ in range(n)]
            slack = 0.0 if rng.chance(0.4) else abs(g.coef(2.0))
            cons.append(dict(kind="linin", q=q, r=float(-evalf(dict(kind="linin", q=q, r=0.0), xs, n)) - slack))
        if rng.chance(0.4):
            obj = dict(kind="QP" if rng.chance(0.5) else "Q", Q=g.sym(n, 1.0, psd=True), c=[g.coef() for _ in range(n)])
    elif style in ("mixed", "functional"):
        kinds = PS_CORE_KINDS + ["min", "max", "ballin", "quadeq", "balleq"]
        if style == "functional":
            kinds = kinds + ["fin", "fin", "fin", "feq"]
        for _ in range(rng.range(1, 8)):
            c = gen_constraint(g, n, xs, "feasible" if g.exact or rng.chance(0.8) else "any", kinds=kinds)
            if c["kind"] == "quadin" and rng.chance(0.7):
                c["P"] = g.nonsym(n, 1.0, psd=True) if rng.chance(0.5) else g.sym(n, 1.0, psd=True)
                c["r"] = float(-evalf(dict(kind="quadin", rows=n, cols=n, P=c["P"], q=c["q"], r=0.0), xs, n)) - abs(g.coef(2.0))
            cons.append(c)
        if rng.chance(0.05):
            cons.append(spoil(g, n, dict(kind="linin", q=[1.0] * n, r=0.0)))
    else:
        # x_i <= a and x_i >= a + gap: no feasible point
        i = rng.below(n); a = g.coef(2.0); gap = abs(g.coef(2.0)) + 0.25
        cons.append(dict(kind="max", value=a, dim=i))
        cons.append(dict(kind="min", value=a + gap, dim=i))
        if rng.chance(0.5):
            cons.append(dict(kind="ballin", origin=list(xs), radius=1.0))
    return n, obj, cons, xs


def gen_ps(rng, tier):
    g = G(rng, rng.chance(0.2))
    n, obj, cons, xs = gen_ps_problem(rng, g)
    which = rng.choice(["lin", "quad", "quad"])
    x0 = list(xs) if rng.chance(0.1) else g.point(n)
    if rng.chance(0.04):
        # exp(1 + |x|^2 / n) overflows (or nearly) at the start: the inner solver fails (`!iter_ok`: the penalty grows, bstate stays)
        n = max(n, 2)
        obj = dict(kind="S", id="exponential")
        cons = [c for c in cons if c["kind"] in ("min", "max") and c["dim"] < n][:2]
        x0 = [rng.choice([-1.0, 1.0]) * rng.uniform(24.0, 34.0) for _ in range(n)]
    eps = 10.0 ** rng.uniform(-10.0, -4.0)
    if rng.chance(0.1):
        eps = rng.choice([1e-10, 1e-4])
    # the registered defaults (penalty.cpp:11-14, 67, 86) …
    max_evals, eta, eps0, epsK, penalty0, max_outers = 1000, 5.0, (1e-8 if which == "lin" else 1e-6), 0.5, 10.0, 20
    if rng.chance(0.6):
        # … and the registered domains, ends included
        max_evals = rng.choice([50, 200, 1000, 5000])
        eta = rng.choice([1.0 + 2.0 ** -20, 1.01, 1.5, 2.0, 5.0, 10.0, 100.0, 1e3])
        eps0 = rng.choice([1e-10, 1e-8, 1e-6, 1e-4, 1e-2])
        epsK = rng.choice([0.1, 0.5, 0.9, 1.0])
        penalty0 = rng.choice([1e-3, 0.1, 1.0, 10.0, 1e3]) if rng.chance(0.7) else 10.0 ** rng.uniform(-3.0, 3.0)
        max_outers = rng.choice([10, 11, 20, 100])
    return (f"ps solve {which} {problem_text(n, obj, cons)} {FL(x0)} {H(eps)} {max_evals} {H(eta)} {H(eps0)} {H(epsK)} "
            f"{H(penalty0)} {max_outers}")


def gen(rng, tier):
    ops = []
    cp = os.path.join(vlib.VERIF, "corpus", "C05", "ops.txt")
    if os.path.exists(cp):
        ops += [l.strip() for l in open(cp) if l.strip() and not l.startswith("#")]
    npen, nal, nbig = (4000, 800, 50) if tier == "quick" else (24000, 5000, 400)
    nps = 1500 if tier == "quick" else 6000
    r1 = rng.fork()
    for _ in range(npen):
        ops.append(gen_pen(r1))
    for _ in range(nbig):
        ops.append(gen_pen(r1, big=True))
    r2 = rng.fork()
    for _ in range(nal):
        ops.append(gen_al(r2, tier))
    r3 = rng.fork()
    for _ in range(nps):
        ops.append(gen_ps(r3, tier))
    return ops


# ---------------------------------------------------------------------------------------------------------
# evidence helpers

def nontrivial(op):
    t = Toks(op)
    fam = t.s(); t.s()
    if fam == "ps":
        t.s()
    try:
        n, obj, cons = parse_problem(t)
    except Exception:
        return False
    acc = [c for c in cons if compatible(c, n)]
    if fam in ("al", "ps"):
        return len(acc) >= 1
    x = frs(t.fs())
    eq = viol = sat = 0
    for c in acc:
        if is_eq(c):
            eq += 1
            continue
        r = constraint_exact(c, x, n)
        if r is None:
            continue
        if r[0] > 0:
            viol += 1
        else:
            sat += 1
    return eq >= 1 and viol >= 1 and sat >= 1


def distribution(ops):
    d = {}
    for op in ops:
        t = Toks(op)
        fam = t.s(); t.s()
        if fam == "ps":
            fam = "ps-" + t.s()
        try:
            n, obj, cons = parse_problem(t)
        except Exception:
            d["unparsed"] = d.get("unparsed", 0) + 1
            continue
        keys = [f"{fam}/obj={obj['kind']}", f"{fam}/ncons={min(len(cons), 9)}", f"{fam}/n={min(n, 9)}"]
        keys += [f"{fam}/kind={c['kind']}" for c in cons]
        keys += [f"{fam}/incompatible" for c in cons if not compatible(c, n)]
        for k in keys:
            d[k] = d.get(k, 0) + 1
    return d


def classify(op, kind, detail):
    t = op.split()
    fam = t[0] if t else "?"
    if kind == "oracle":
        head = detail.split(":")[0][:60]
        return f"{fam}:{head}"
    return f"{fam}:{kind}"


# ---------------------------------------------------------------------------------------------------------
# shrinking: drop one constraint (and its multiplier) at a time

def shrink_candidates(op):
    t = Toks(op)
    fam = t.s(); name = t.s()
    head = f"{fam} {name}"
    if fam == "ps":
        head += " " + t.s()
    try:
        n, obj, cons = parse_problem(t)
        if fam == "pen":
            x = t.fs(); ro = t.f(); lam = t.fs(); miu = t.fs()
        else:
            tail = " ".join(t.rest())
    except Exception:
        return
    for k in range(len(cons)):
        rest = cons[:k] + cons[k + 1:]
        if obj["kind"] in ("QP", "LP") and not rest:
            pass
        if fam == "pen":
            l2, m2 = list(lam), list(miu)
            if compatible(cons[k], n):
                before = [c for c in cons[:k] if compatible(c, n)]
                if is_eq(cons[k]):
                    del l2[sum(1 for c in before if is_eq(c))]
                else:
                    del m2[sum(1 for c in before if not is_eq(c))]
            yield f"pen eval {problem_text(n, obj, rest)} {FL(x)} {H(ro)} {FL(l2)} {FL(m2)}"
        else:
            yield f"{head} {problem_text(n, obj, rest)} {tail}"


# ---------------------------------------------------------------------------------------------------------
# comparison of the implementation's and the model's result lines

def same_value(a, b):
    if a == b:
        return True
    if vlib.is_hexf(a) and vlib.is_hexf(b):
        x, y = h2f(a), h2f(b)
        return x == y or (x != x and y != y)
    return False


def compare(aug, impl, model):
    a = impl.split()
    b = model.split()
    if "!" in a:
        a = a[:a.index("!")]
    if "!" in b:
        b = b[:b.index("!")]
    if len(a) != len(b):
        return False
    tolerant = False
    for x, y in zip(a, b):
        if x == "~" or y == "~":
            if x != y:
                return False
            tolerant = True
            continue
        if same_value(x, y):
            continue
        if tolerant and vlib.is_hexf(x) and vlib.is_hexf(y) and vlib.close(h2f(x), h2f(y), RTOL, ATOL):
            continue
        return False
    return True


# ---------------------------------------------------------------------------------------------------------
# property oracle: an independent evaluation of the property statement on the implementation's answer

STATS = {}   # counters of the branches the oracle went through (debugging aid, printed by nobody in a normal run)


def near(got, want, scale, what, rel=1e-12):
    """|got - want| <= rel * scale (+ a denormal floor); `want`/`scale` exact rationals"""
    if got != got or math.isinf(got):
        return f"{what}: non-finite value {got}"
    tol = Fr(rel) * scale + Fr(1, 10 ** 300)
    if abs(Fr(got) - want) > tol:
        return f"{what}: got {got!r}, the definition gives {float(want)!r} (|diff| {float(abs(Fr(got) - want)):.3e} > tol {float(tol):.3e})"
    return None


def read_vg(r):
    v = r.f(); g = r.fs(); v0 = r.f()
    return v, g, v0


def oracle_pen(t, r, dump):
    n, obj, cons = parse_problem(t)
    x = frs(t.fs()); ro = Fr(t.f()); lam = frs(t.fs()); miu = frs(t.fs())
    if r.s() != "ok":
        return "implementation did not answer ok"
    accepted = r.ints()
    want_acc = [1 if compatible(c, n) else 0 for c in cons]
    if accepted != want_acc:
        return f"constrain: accepted {accepted}, the contract says {want_acc}"
    lin = read_vg(r); quad = read_vg(r); al = read_vg(r)
    if r.s() != "~":
        return "malformed result"
    fx = r.f(); gf = r.fs(); k = r.int()
    acc = [c for c in cons if compatible(c, n)]
    if k != len(acc) or len(gf) != n:
        return "constraint count / gradient size"
    evals = []
    for c in acc:
        e = r.int(); fc = r.f(); gc = r.fs(); valid = r.f()
        if e != (1 if is_eq(c) else 0):
            return f"is_equality: {c['kind']} reported as {e}"
        if len(gc) != n:
            return f"constraint gradient size: {c['kind']}"
        ex = constraint_exact(c, x, n)
        if ex is not None:
            v, g, a, ga = ex
            why = near(fc, v, a + 1, f"constraint value: {c['kind']}")
            if why:
                return why
            for i in range(n):
                why = near(gc[i], g[i], ga[i] + abs(g[i]) + 1, f"constraint gradient: {c['kind']}[{i}]")
                if why:
                    return why
        want_valid = abs(fc) if is_eq(c) else max(fc, 0.0)
        if not (valid == want_valid):
            return f"valid: {c['kind']} gives {valid!r}, |h| / max(g,0) of its value is {want_valid!r}"
        evals.append((is_eq(c), fc, gc))
    neq = sum(1 for e in evals if e[0])
    if len(lam) != neq or len(miu) != len(evals) - neq:
        return "multiplier sizes"
    F = Fr
    fxr = F(fx) if fx == fx and not math.isinf(fx) else None
    if fxr is None:
        return None  # the objective itself is not finite here: nothing to compare
    H_ = [(F(fc), frs(gc)) for (e, fc, gc) in evals if e]
    G_ = [(F(fc), frs(gc)) for (e, fc, gc) in evals if not e]
    gfr = frs(gf)

    def check(name, got, value, vscale, grad, gscale, glo=None, ghi=None):
        v, g, v0 = got
        why = near(v, value, vscale, f"{name} value")
        if why:
            return why
        if not (v0 == v or (v0 != v0 and v != v)):
            return f"{name} value-only call: {v0!r} differs from the value returned with the gradient {v!r}"
        if len(g) != n:
            return f"{name} gradient size"
        for i in range(n):
            if glo is not None and glo[i] != ghi[i]:
                # a kink: every sub-gradient between the two one-sided choices is admissible
                lo, hi = min(glo[i], ghi[i]), max(glo[i], ghi[i])
                tol = Fr(1e-12) * gscale[i]
                if not (lo - tol <= Fr(g[i]) <= hi + tol):
                    return f"{name} gradient[{i}]: {g[i]!r} outside the sub-differential [{float(lo)!r}, {float(hi)!r}]"
            else:
                why = near(g[i], grad[i], gscale[i], f"{name} gradient[{i}]")
                if why:
                    return why
        return None

    # linear penalty: f + c sum |h_j| + c sum max(0, g_i)
    value = fxr + ro * sum(abs(h) for h, _ in H_) + ro * sum(max(F(0), gv) for gv, _ in G_)
    vscale = abs(fxr) + abs(ro) * (sum(abs(h) for h, _ in H_) + sum(abs(gv) for gv, _ in G_)) + 1
    glo, ghi, gscale = [], [], []
    for i in range(n):
        lo = hi = gfr[i]
        sc = abs(gfr[i]) + 1
        for h, gh in H_:
            s_lo, s_hi = (1, 1) if h > 0 else ((-1, -1) if h < 0 else (-1, 1))
            a, b = ro * s_lo * gh[i], ro * s_hi * gh[i]
            lo += min(a, b); hi += max(a, b); sc += abs(ro * gh[i])
        for gv, gg in G_:
            s_lo, s_hi = (1, 1) if gv > 0 else ((0, 0) if gv < 0 else (0, 1))
            a, b = ro * s_lo * gg[i], ro * s_hi * gg[i]
            lo += min(a, b); hi += max(a, b); sc += abs(ro * gg[i])
        glo.append(lo); ghi.append(hi); gscale.append(sc)
    why = check("linear penalty", lin, value, vscale, glo, gscale, glo, ghi)
    if why:
        return why
    # quadratic penalty: f + c sum h_j^2 + c sum max(0, g_i)^2
    value = fxr + ro * sum(h * h for h, _ in H_) + ro * sum(max(F(0), gv) ** 2 for gv, _ in G_)
    vscale = abs(fxr) + abs(ro) * (sum(h * h for h, _ in H_) + sum(gv * gv for gv, _ in G_)) + 1
    grad, gscale = [], []
    for i in range(n):
        grad.append(gfr[i] + 2 * ro * sum(h * gh[i] for h, gh in H_) + 2 * ro * sum(max(F(0), gv) * gg[i] for gv, gg in G_))
        gscale.append(abs(gfr[i]) + 2 * abs(ro) * (sum(abs(h * gh[i]) for h, gh in H_) + sum(abs(gv * gg[i]) for gv, gg in G_)) + 1)
    why = check("quadratic penalty", quad, value, vscale, grad, gscale)
    if why:
        return why
    # augmented lagrangian: f + ro/2 sum (h_j + lambda_j/ro)^2 + ro/2 sum max(0, g_i + miu_i/ro)^2
    te = [h + l / ro for (h, _), l in zip(H_, lam)]
    ti = [max(F(0), gv + m / ro) for (gv, _), m in zip(G_, miu)]
    tia = [abs(gv) + abs(m / ro) for (gv, _), m in zip(G_, miu)]
    tea = [abs(h) + abs(l / ro) for (h, _), l in zip(H_, lam)]
    value = fxr + ro / 2 * sum(v * v for v in te) + ro / 2 * sum(v * v for v in ti)
    vscale = abs(fxr) + abs(ro) / 2 * (sum(v * v for v in tea) + sum(v * v for v in tia)) + 1
    grad, gscale = [], []
    for i in range(n):
        grad.append(gfr[i] + ro * sum(v * gh[i] for v, (_, gh) in zip(te, H_)) + ro * sum(v * gg[i] for v, (_, gg) in zip(ti, G_)))
        gscale.append(abs(gfr[i]) + abs(ro) * (sum(abs(v * gh[i]) for v, (_, gh) in zip(tea, H_)) +
                                                sum(abs(v * gg[i]) for v, (_, gg) in zip(tia, G_))) + 1)
    why = check("augmented lagrangian", al, value, vscale, grad, gscale)
    if why:
        return why
    STATS["pen"] = STATS.get("pen", 0) + 1
    if any(h == 0 for h, _ in H_) or any(gv == 0 for gv, _ in G_):
        STATS["pen/on-boundary"] = STATS.get("pen/on-boundary", 0) + 1
    # feasible point: the penalties coincide with the objective
    if all(h == 0 for h, _ in H_) and all(gv <= 0 for gv, _ in G_):
        STATS["pen/feasible"] = STATS.get("pen/feasible", 0) + 1
        if evals:
            STATS["pen/feasible-constrained"] = STATS.get("pen/feasible-constrained", 0) + 1
        if lin[0] != fx:
            return f"feasible point: linear penalty {lin[0]!r} differs from the objective {fx!r}"
        if quad[0] != fx or any(a != b for a, b in zip(quad[1], gf)):
            return f"feasible point: quadratic penalty (value {quad[0]!r}) differs from the objective {fx!r} or its gradient"
        if all(l == 0 for l in lam) and all(m == 0 for m in miu):
            if al[0] != fx or any(a != b for a, b in zip(al[1], gf)):
                return f"feasible point, zero multipliers: augmented lagrangian (value {al[0]!r}) differs from the objective {fx!r} or its gradient"
    return None


def oracle_al(t, r, answers):
    n, obj, cons = parse_problem(t)
    x0 = t.fs()
    if r.s() != "ok":
        return "implementation did not answer ok"
    status = r.int(); nrec = r.int()
    acc = [c for c in cons if compatible(c, n)]
    neq = sum(1 for c in acc if is_eq(c)); nin = len(acc) - neq
    last = None
    mults = []
    obs = []
    for _ in range(nrec):
        outer = r.int(); iter_ok = r.int(); crit = r.s(); conv = r.int(); xconv = r.int(); ro = r.f()
        lam = r.fs(); miu = r.fs(); old = r.f(); bx = r.fs(); bceq = r.fs(); bcineq = r.fs()
        sx = None
        if r.t[r.i] == "-":
            r.s()
        else:
            sx = r.fs()
        cfx = r.s()
        obs.append(dict(ro=ro, lam=lam, miu=miu, bx=bx, sx=sx, cfx=(h2f(cfx) if cfx != "-" else None)))
        if len(lam) != neq or len(miu) != nin or len(bceq) != neq or len(bcineq) != nin:
            return "trace: vector sizes differ from the numbers of equalities / inequalities"
        if any(m < 0 for m in miu):
            return f"multiplier estimate: miu has a negative entry at outer iteration {outer}"
        if not (ro > 0):
            return f"penalty parameter: ro = {ro!r} at outer iteration {outer}"
        last = (iter_ok, crit, conv)
        mults.append((lam, miu))
    x = r.fs(); ceq = r.fs(); cineq = r.fs(); r.f()
    kkt345 = [r.s(), r.s(), r.s()]
    while r.s() != "!":
        pass
    eps = r.f(); kkt1 = r.f(); kkt2 = r.f(); valid = r.int(); fx = r.f()
    hre = r.fs(); gre = r.fs()
    if len(x) != n or len(ceq) != neq or len(cineq) != nin or len(hre) != neq or len(gre) != nin:
        return "returned state: sizes"
    if status == 1 and not (last and last[2] == 1):
        return "status: converged reported although the last outer iteration did not converge"
    # the constraint values stored in the returned state equal those recomputed from the problem
    xe = frs(x) if all(v == v and not math.isinf(v) for v in x) else None
    hs, gs = [], []
    if xe is not None:
        for c in acc:
            v, _, a, _ = constraint_exact(c, xe, n)
            (hs if is_eq(c) else gs).append((v, a, c["kind"]))
        for stored, harness, (v, a, kind) in list(zip(ceq, hre, hs)) + list(zip(cineq, gre, gs)):
            why = near(stored, v, a + 1, f"stored constraint value: {kind} in the returned state")
            if why:
                return why
            why = near(harness, v, a + 1, f"harness recomputation: {kind}", rel=1e-13)
            if why:
                return why
    # the same class invariant on every (valid) state the inner solver returned: their constraint values drive the
    # convergence criterion
    if answers is not None:
        a = Toks(answers)
        a.f(); a.f(); a.fs(); a.fs()
        for k in range(a.int()):
            iter_ok = a.int(); a.int(); cx = a.fs(); cceq = a.fs(); ccineq = a.fs(); a.int(); has_obj = a.int(); fcx = a.f()
            o = obs[k]
            # the inner solver is started where the best state is
            if o["sx"] is not None:
                if not same_vec(o["sx"], o["bx"]):
                    return f"starting point: the inner solver of outer iteration {k} was not started at the best state's point"
                STATS["al/start-observed"] = STATS.get("al/start-observed", 0) + 1
            # … and minimises the augmented Lagrangian of the documented formula with this iteration's ro, lambda, miu
            if has_obj and iter_ok and o["cfx"] is not None and finite(fcx) and finite(o["ro"]) and \
                    all(finite(v) for v in cceq + ccineq + o["lam"] + o["miu"]):
                ro_ = Fr(o["ro"])
                te = [Fr(h) + Fr(l) / ro_ for h, l in zip(cceq, o["lam"])]
                ti = [max(Fr(0), Fr(g) + Fr(m) / ro_) for g, m in zip(ccineq, o["miu"])]
                tea = [abs(Fr(h)) + abs(Fr(l) / ro_) for h, l in zip(cceq, o["lam"])]
                tia = [abs(Fr(g)) + abs(Fr(m) / ro_) for g, m in zip(ccineq, o["miu"])]
                want = Fr(fcx) + ro_ / 2 * (sum(v * v for v in te) + sum(v * v for v in ti))
                scale = abs(Fr(fcx)) + ro_ / 2 * (sum(v * v for v in tea) + sum(v * v for v in tia)) + 1
                why = near(o["cfx"], want, scale, f"inner objective: value reported by the inner solver at outer iteration {k} vs the "
                           f"augmented Lagrangian with this iteration's ro, lambda, miu")
                if why:
                    return why
                STATS["al/objective-observed"] = STATS.get("al/objective-observed", 0) + 1
            if not iter_ok or not all(v == v and not math.isinf(v) for v in cx):
                continue
            ce = frs(cx)
            ie = ii = 0
            for c in acc:
                v, _, aa, _ = constraint_exact(c, ce, n)
                if is_eq(c):
                    stored = cceq[ie]; ie += 1
                else:
                    stored = ccineq[ii]; ii += 1
                why = near(stored, v, aa + 1, f"stored constraint value: {c['kind']} in the state of outer iteration {k}")
                if why:
                    return why
    # the feasibility KKT residuals are derived from the stored values
    want1 = max([0.0] + [max(v, 0.0) for v in cineq])
    want2 = max([0.0] + [abs(v) for v in ceq])
    if valid and (kkt1 != want1 or kkt2 != want2):
        return f"kkt residuals: ({kkt1!r}, {kkt2!r}) differ from those of the stored constraint values ({want1!r}, {want2!r})"
    # the multipliers stored in the returned state (seen through test3, test4, test5): those of the inequalities are non-negative;
    # complementarity and the Lagrangian gradient are those of the multiplier estimates of one of the outer iterations whose answer
    # is the returned point (zero multipliers when the starting point is returned)
    if valid and xe is not None and answers is not None and "-" not in kkt345:
        t3, t4, t5 = (h2f(v) for v in kkt345)
        if t3 != 0.0:
            return f"kkt residuals: test3 = {t3!r}: the returned state stores a negative multiplier for an inequality"
        gxr, grads = returned_gradients(answers, "al")
        a = Toks(answers)
        a.f(); a.f(); a.fs(); a.fs()
        cands = [([0.0] * neq, [0.0] * nin)] if x == x0 else []
        for k in range(a.int()):
            iter_ok = a.int(); a.int(); cx = a.fs(); a.fs(); a.fs(); a.int(); a.int(); a.f()
            if iter_ok and cx == x:
                cands.append(mults[k])
        ok = False
        detail = ""
        for lam, miu in cands:
            w4 = max([Fr(0)] + [abs(Fr(m) * Fr(g)) for m, g in zip(miu, cineq)])
            lg = [Fr(v) for v in gxr]; sc = [abs(Fr(v)) for v in gxr]
            ie = ii = 0
            for e, gc in grads:
                if e:
                    m = Fr(lam[ie]); ie += 1
                else:
                    m = Fr(miu[ii]); ii += 1
                for i in range(n):
                    lg[i] += m * Fr(gc[i]); sc[i] += abs(m * Fr(gc[i]))
            w5 = max([Fr(0)] + [abs(v) for v in lg])
            tol5 = Fr(1e-12) * (max([Fr(0)] + sc) + 1)
            if abs(Fr(t4) - w4) <= Fr(1e-12) * (w4 + Fr(1, 10 ** 300)) and abs(Fr(t5) - w5) <= tol5:
                ok = True
                break
            detail = f"(test4, test5) = ({t4!r}, {t5!r}), e.g. ({float(w4)!r}, {float(w5)!r}) expected"
        if cands and not ok:
            return f"kkt residuals: complementarity / Lagrangian gradient of the returned state match no logged multiplier estimate: {detail}"
        if not cands:
            return "returned point: neither x0 nor the answer of a valid outer iteration"
        STATS["al/kkt345"] = STATS.get("al/kkt345", 0) + 1
    STATS[f"al/status={status}"] = STATS.get(f"al/status={status}", 0) + 1
    if status == 1:
        if xe is None:
            return "converged: reported at a non-finite point"
        for (v, a, kind) in hs:
            if abs(v) > Fr(eps) + Fr(1e-12) * (a + 1):
                return f"converged: infeasible: |h| = {float(abs(v))!r} > epsilon = {eps!r} for {kind} at the returned point"
        for (v, a, kind) in gs:
            if v > Fr(eps) + Fr(1e-12) * (a + 1):
                return f"converged: infeasible: max(0,g) = {float(v)!r} > epsilon = {eps!r} for {kind} at the returned point"
        if kkt1 > eps or kkt2 > eps:
            return f"converged: infeasible: feasibility residuals ({kkt1!r}, {kkt2!r}) > epsilon = {eps!r}"
    return None


def finite(v):
    return v == v and not math.isinf(v)


def linf(xs):
    return max([Fr(0)] + [abs(v) for v in xs])


def returned_gradients(answers, fam="ps"):
    """(objective gradient, [(is_eq, constraint gradient)]) of the returned state, dumped by the harness after the records"""
    a = Toks(answers)
    if fam == "ps":
        for _ in range(a.int()):
            a.int(); a.f()
        for _ in range(a.int()):
            a.int(); a.int(); a.int(); a.fs(); a.f(); a.f()
            for _ in range(a.int()):
                a.int(); a.f()
    else:
        a.f(); a.f(); a.fs(); a.fs()
        for _ in range(a.int()):
            a.int(); a.int(); a.fs(); a.fs(); a.fs(); a.int(); a.int(); a.f()
    a.int()
    gx = a.fs()
    grads = [(a.int(), a.fs()) for _ in range(a.int())]
    return gx, grads


def oracle_ps(t, r, answers):
    """the clauses of the statement that concern the two penalty solvers (anchor src/solver/penalty.cpp) and what their
    documentation promises, evaluated independently on the implementation's answer: the inner solver is given the linear /
    quadratic penalty function of the documented formula with the penalty parameter penalty0 * eta^k, started where the
    previous outer iteration ended; the solver stops exactly when the iterate moved by less than epsilon (relative to
    max(1, |x|_inf)) or the state became invalid, within max_outer_iters; the returned state is the last valid answer and
    its stored constraint values / feasibility residuals are those of the problem at the returned point"""
    which = t.s()
    n, obj, cons = parse_problem(t)
    x0 = t.fs(); eps = t.f(); t.int(); eta = t.f(); t.f(); t.f(); penalty0 = t.f(); max_outers = t.int()
    if r.s() != "ok":
        return "implementation did not answer ok"
    status = r.int(); nrec = r.int()
    acc = [c for c in cons if compatible(c, n)]
    neq = sum(1 for c in acc if is_eq(c)); nin = len(acc) - neq
    recs = []
    for _ in range(nrec):
        penalty = r.f(); iter_ok = r.int(); xconv = r.s(); dconv = r.s(); bx = r.fs()
        sx = None
        if r.t[r.i] == "-":
            r.s()
        else:
            sx = r.fs()
        cfx = r.s()
        recs.append(dict(penalty=penalty, iter_ok=iter_ok, bx=bx, sx=sx, cfx=(h2f(cfx) if cfx != "-" else None),
                         dconv=(int(dconv) if dconv != "-" else None)))
    x = r.fs()
    kkt345 = [r.s(), r.s(), r.s()]
    if r.s() != "~":
        return "malformed result"
    ceq = r.fs(); cineq = r.fs(); kkt1 = r.f(); kkt2 = r.f()
    if r.s() != "!":
        return "malformed result"
    leps = r.f(); valid = r.int(); fx = r.f(); has_re = r.int(); hre = r.fs(); gre = r.fs()
    for rec in recs:
        rec["outer"] = r.int(); rec["eps"] = r.f(); rec["xconv"] = r.int(); rec["cx"] = r.fs()
    if len(x) != n or len(ceq) != neq or len(cineq) != nin:
        return "returned state: sizes"
    if status not in (0, 1, 2):
        return f"status: {status} is none of max_iters / converged / failed"
    # -- the budget and the schedule of the penalty parameter
    if nrec > max_outers:
        return f"outer iterations: {nrec} > max_outer_iters = {max_outers}"
    if nrec == 0:
        return "outer iterations: none"
    for k, rec in enumerate(recs):
        if rec["outer"] != k:
            return f"outer iterations: record {k} carries the index {rec['outer']}"
        if rec["eps"] != eps:
            return f"epsilon: the loop uses {rec['eps']!r}, the parameter is {eps!r}"
        want = Fr(penalty0) * Fr(eta) ** k
        if finite(rec["penalty"]):
            why = near(rec["penalty"], want, want, f"penalty schedule: outer iteration {k} (penalty0 * eta^{k})", rel=1e-12)
            if why:
                return why
        elif want < Fr(2) ** 1023:
            return f"penalty schedule: non-finite penalty at outer iteration {k}, penalty0 * eta^k = {float(want)!r}"
        if not rec["penalty"] > 0:
            return f"penalty schedule: non-positive penalty at outer iteration {k}"
        if k > 0 and not rec["penalty"] >= recs[k - 1]["penalty"]:
            return f"penalty schedule: decreasing at outer iteration {k}"
    # -- the starting points: x0, then the last valid answer
    cur = x0
    for k, rec in enumerate(recs):
        if not same_vec(rec["bx"], cur):
            return f"starting point: outer iteration {k} starts from a point that is not the last valid answer (or x0)"
        if rec["sx"] is not None and not same_vec(rec["sx"], cur):
            return f"starting point: the inner solver of outer iteration {k} was not started at the last valid answer (or x0)"
        if rec["sx"] is not None:
            STATS["ps/start-observed"] = STATS.get("ps/start-observed", 0) + 1
        if rec["iter_ok"]:
            cur = rec["cx"]
    if not same_vec(x, cur):
        return "returned point: not the last valid answer of the inner solver (or x0)"
    # -- the stopping rule, recomputed in exact arithmetic from the logged points; decided only outside the rounding margin
    stops = []
    for k, rec in enumerate(recs):
        if not rec["iter_ok"]:
            if rec["cfx"] is not None:
                return "malformed result"
            stops.append(None)
            continue
        if not all(finite(v) for v in rec["cx"]) or len(rec["cx"]) != n:
            return f"inner answer: reported valid with a non-finite point at outer iteration {k}"
        bxe = frs(rec["bx"]); cxe = frs(rec["cx"])
        dx = linf([a - b for a, b in zip(cxe, bxe)])
        thr = Fr(eps) * max(Fr(1), linf(bxe))
        margin = Fr(1e-12) * (thr + linf(bxe) * Fr(2) ** -50)
        verdict = True if dx < thr - margin else (False if dx > thr + margin else None)
        if verdict is not None and (bool(rec["xconv"]) != verdict or bool(rec["dconv"]) != verdict):
            return (f"stopping test: |x_new - x_old|_inf = {float(dx)!r} vs epsilon * max(1, |x_old|_inf) = {float(thr)!r} at outer "
                    f"iteration {k}, the loop decided {rec['dconv']} (hook: {rec['xconv']})")
        stops.append(verdict)
    last = recs[-1]
    for k, rec in enumerate(recs[:-1]):
        if stops[k] is True:
            return f"stopping rule: the test held at outer iteration {k} but the loop went on"
    if status == 1:
        if not last["iter_ok"] or stops[-1] is False:
            return "status: converged reported although the stopping test does not hold at the last outer iteration"
    elif stops[-1] is True:
        return f"status: the stopping test holds at the last outer iteration but the status is {status}"
    if status == 0 and nrec != max_outers:
        return f"status: max_iters reported after {nrec} of {max_outers} outer iterations"
    if status == 2 and (not last["iter_ok"] or valid):
        return "status: failed reported with a valid returned state"
    if status == 0 and last["iter_ok"] and not valid:
        return "status: max_iters reported with an invalid returned state"
    # -- the inner solver was given the documented penalty function with the penalty parameter of its iteration
    if answers is not None:
        a = Toks(answers)
        for _ in range(a.int()):
            a.int(); a.f()
        if a.int() != nrec:
            return "malformed answers"
        for k, rec in enumerate(recs):
            a.int(); a.int(); a.int(); a.fs(); cfx = a.f(); fcx = a.f()
            dumps = [(a.int(), a.f()) for _ in range(a.int())]
            if not rec["iter_ok"] or not finite(fcx) or not finite(rec["penalty"]):
                continue
            if not (cfx == rec["cfx"]):
                return "malformed answers"
            c = Fr(rec["penalty"])
            hs = [Fr(v) for e, v in dumps if e]; gs = [max(Fr(0), Fr(v)) for e, v in dumps if not e]
            if which == "lin":
                pen = c * (sum(abs(h) for h in hs) + sum(gs))
            else:
                pen = c * (sum(h * h for h in hs) + sum(gv * gv for gv in gs))
            why = near(cfx, Fr(fcx) + pen, abs(Fr(fcx)) + pen + 1,
                       f"inner objective: value reported by the inner solver at outer iteration {k} vs the "
                       f"{'linear' if which == 'lin' else 'quadratic'} penalty with penalty0 * eta^k")
            if why:
                return why
    # -- the constraint values stored in the returned state equal those recomputed from the problem
    if not all(finite(v) for v in x):
        if status == 1:
            return "converged: reported at a non-finite point"
        return None
    xe = frs(x)
    ie = ii = 0
    for c in acc:
        ex = constraint_exact(c, xe, n)
        if is_eq(c):
            stored = ceq[ie]; harness = hre[ie] if has_re else None; ie += 1
        else:
            stored = cineq[ii]; harness = gre[ii] if has_re else None; ii += 1
        if ex is None:
            continue
        v, _, a_, _ = ex
        why = near(stored, v, a_ + 1, f"stored constraint value: {c['kind']} in the returned state")
        if why:
            return why
        if harness is not None:
            why = near(harness, v, a_ + 1, f"harness recomputation: {c['kind']}", rel=1e-13)
            if why:
                return why
    want1 = max([0.0] + [max(v, 0.0) for v in cineq])
    want2 = max([0.0] + [abs(v) for v in ceq])
    if valid and (kkt1 != want1 or kkt2 != want2):
        return f"kkt residuals: ({kkt1!r}, {kkt2!r}) differ from those of the stored constraint values ({want1!r}, {want2!r})"
    # the penalty solvers estimate no multipliers: the returned state carries zero multipliers, so that the dual-feasibility and the
    # complementarity residuals vanish and the Lagrangian gradient is the objective's gradient at the returned point
    if valid and answers is not None:
        if "-" in kkt345:
            return "malformed result"
        t3, t4, t5 = (h2f(v) for v in kkt345)
        gxr = returned_gradients(answers)[0]
        want5 = max([0.0] + [abs(v) for v in gxr])
        if t3 != 0.0 or t4 != 0.0 or t5 != want5:
            return (f"kkt residuals: (test3, test4, test5) = ({t3!r}, {t4!r}, {t5!r}) of the returned state, zero multipliers give "
                    f"(0, 0, {want5!r})")
    STATS[f"ps/status={status}"] = STATS.get(f"ps/status={status}", 0) + 1
    if any(not rec["iter_ok"] for rec in recs):
        STATS["ps/inner-failed"] = STATS.get("ps/inner-failed", 0) + 1
    if status == 1 and max(want1, want2) > eps:
        # NOT a violation of the statement (it promises feasibility for the augmented-Lagrangian solver only): counted
        STATS["ps/converged-infeasible"] = STATS.get("ps/converged-infeasible", 0) + 1
    return None


def same_vec(a, b):
    return len(a) == len(b) and all(u == v or (u != u and v != v) for u, v in zip(a, b))


def oracle(aug, res):
    op = aug.split(" | ")[0]
    t = Toks(op)
    fam = t.s(); t.s()
    if res.startswith("throw") or res.startswith("bad-op"):
        return f"implementation did not answer ok: {res[:120]}"
    r = Toks(res)
    if fam == "pen":
        return oracle_pen(t, r, None)
    parts = aug.split(" | ")
    if fam == "ps":
        return oracle_ps(t, r, parts[1] if len(parts) > 1 else None)
    return oracle_al(t, r, parts[1] if len(parts) > 1 else None)
