"""C16 — histories of operations on owners + views of the three tensor storages: naive python semantics (generator state and
independent oracle). Every element of every allocation is a numbered CELL with a value; a tensor object is a list of cells
plus its dims; two objects alias exactly where they share cells. No offset arithmetic takes part in the evaluation of the
contents (offsets only appear where the op itself names one — `raw` — and to report where a map points)."""
from vlib import Toks, lst

OWN, MAP, CMAP = 0, 1, 2


def prod(xs):
    p = 1
    for x in xs:
        p *= x
    return p


class Invalid(Exception):
    """the history uses something the C++ program may not use (released memory, moved-from contents, deleted overload)"""


class Sim:
    def __init__(self, rank, K):
        self.rank, self.K = rank, K
        self.val = {}          # cell -> value (None = uninitialised)
        self.cells_of = {}     # allocation -> its cells, in address order
        self.alive = {}        # allocation -> still allocated
        self.ncell = 0
        self.nalloc = 0
        self.kept = set()      # allocations that survived a same-count resize / owner = owner / expression assignment
        self.objs = [self.default(i // K) for i in range(3 * K)]

    # -- objects -------------------------------------------------------------------------------------------------------
    def default(self, kind):
        return dict(kind=kind, dims=[0] * self.rank, alloc=None, off=0, cells=[], moved=False)

    def alloc(self, values):
        if not values:
            return None, []
        a = self.nalloc; self.nalloc += 1
        cells = list(range(self.ncell, self.ncell + len(values))); self.ncell += len(values)
        for c, v in zip(cells, values):
            self.val[c] = v
        self.cells_of[a] = cells; self.alive[a] = True
        return a, cells

    def free(self, a):
        if a is not None:
            self.alive[a] = False

    def usable(self, x):
        """the object may be read / viewed: its memory is allocated and (owner) it is not in a moved-from state"""
        return not x["moved"] and (x["alloc"] is None or self.alive[x["alloc"]])

    def initialised(self, x):
        return all(self.val[c] is not None for c in x["cells"])

    def values(self, x):
        return [self.val[c] for c in x["cells"]]

    def cur_len(self, x):
        """elements of the allocation an OWNER currently holds"""
        return len(self.cells_of[x["alloc"]]) if x["alloc"] is not None else 0

    def need(self, cond, why):
        if not cond:
            raise Invalid(why)

    def destroy(self, o):
        x = self.objs[o]
        if x["kind"] == OWN:
            self.free(x["alloc"])
        self.objs[o] = self.default(x["kind"])

    def own_fresh(self, values, dims):
        a, cells = self.alloc(values)
        return dict(kind=OWN, dims=list(dims), alloc=a, off=0, cells=cells, moved=False)

    def construct(self, o, v):
        """objs[o].emplace(v): the previous object of the slot is destroyed first, then the constructor reads `v`"""
        kind = self.objs[o]["kind"]
        old = self.objs[o]
        if kind == OWN:
            self.need(v["alloc"] is None or v["alloc"] != old["alloc"] or not v["cells"], "constructor argument views the destroyed object")
            vals = self.values(v)
            self.destroy(o)
            self.objs[o] = self.own_fresh(vals, v["dims"])
        else:
            self.need(not (kind == MAP and v["kind"] == CMAP), "mutable map of constant data")
            self.objs[o] = dict(kind=kind, dims=list(v["dims"]), alloc=v["alloc"], off=v["off"], cells=list(v["cells"]), moved=False)

    def view(self, x, asconst, off_cells, ncells, dims):
        kind = CMAP if (asconst or x["kind"] == CMAP) else MAP
        if x["alloc"] is None:
            self.need(ncells == 0 and off_cells == 0, "view of nothing")
            return dict(kind=kind, dims=dims, alloc=None, off=0, cells=[], moved=False)
        base = self.cells_of[x["alloc"]]
        start = x["off"] + off_cells
        self.need(start + ncells <= len(base), "view leaves the allocation")
        return dict(kind=kind, dims=dims, alloc=x["alloc"], off=start, cells=base[start:start + ncells], moved=False)

    # -- operations (return the list of tokens a `q` prints, else None) -------------------------------------------------
    def apply(self, t):
        op = t.s()
        if op == "drop":
            self.destroy(t.int())
        elif op == "new":
            o = t.int(); dims = t.ints()
            self.need(self.objs[o]["kind"] == OWN and len(dims) == self.rank, "new")
            self.destroy(o)
            self.objs[o] = self.own_fresh([None] * prod(dims), dims)
        elif op == "fill":
            o = t.int(); vals = t.ints(); x = self.objs[o]
            self.need(x["kind"] != CMAP and self.usable(x) and len(vals) == len(x["cells"]) == prod(x["dims"]), "fill")
            for c, v in zip(x["cells"], vals):
                self.val[c] = v
        elif op in ("ctor", "mctor"):
            o = t.int(); s = t.int(); x = self.objs[o]; y = self.objs[s]
            self.need(self.usable(y), "source not usable")
            if op == "mctor" and x["kind"] == OWN and y["kind"] == OWN:
                self.need(o != s, "self")
                self.destroy(o)
                self.objs[o] = dict(y, dims=list(y["dims"]), cells=list(y["cells"]))
                # the moved-from owner: as coded it keeps its dims and holds no memory; nothing is promised about it
                self.objs[s] = dict(kind=OWN, dims=list(y["dims"]), alloc=None, off=0, cells=[], moved=True)
            else:
                self.need(not (x["kind"] == OWN and o == s), "self")
                self.construct(o, y)
        elif op == "assignpre":
            # OUTSIDE the contract (`assert(size() == other.size())` of the map assignment violated with a bigger source in
            # another allocation; asserts are compiled out): as coded, the first size() elements of the source are copied
            o = t.int(); s = t.int(); x = self.objs[o]; y = self.objs[s]
            self.need(x["kind"] == MAP and self.usable(x) and self.usable(y) and len(x["cells"]) < len(y["cells"]), "assignpre")
            self.need(x["alloc"] != y["alloc"], "assignpre inside one allocation")
            for c, v in zip(x["cells"], self.values(y)):
                self.val[c] = v
        elif op == "assignid":
            # owning = other where the model's answer to "did the tensor move to another allocation" does not depend on the
            # allocator: a view as source (always a fresh allocation, made BEFORE the old one is released), or an owning
            # source with the same element count (allocation kept)
            o, s = int(t.t[t.i]), int(t.t[t.i + 1]); x = self.objs[o]; y = self.objs[s]
            self.need(x["kind"] == OWN and not x["moved"], "assignid destination")
            self.need(y["kind"] != OWN or self.cur_len(x) == len(y["cells"]), "assignid source")
            before = x["alloc"]
            self.apply(Toks("assign " + " ".join(t.t[t.i:t.i + 2]))); t.i += 2
            return ("flag", 0 if self.objs[o]["alloc"] == before else 1)
        elif op in ("assign", "massign"):
            o = t.int(); s = t.int(); x = self.objs[o]; y = self.objs[s]
            self.need(self.usable(y), "source not usable")
            self.need(x["alloc"] is None or self.alive[x["alloc"]], "destination released")
            if x["kind"] == OWN:
                if y["kind"] == OWN and op == "massign":
                    # exchange of the allocations; the moved-from source keeps its own dims
                    xa = x["alloc"]
                    self.objs[o] = dict(kind=OWN, dims=list(y["dims"]), alloc=y["alloc"], off=0, cells=list(y["cells"]), moved=False)
                    if o != s:
                        self.objs[s] = dict(kind=OWN, dims=list(y["dims"]), alloc=xa, off=0,
                                            cells=list(self.cells_of[xa]) if xa is not None else [], moved=True)
                elif y["kind"] == OWN:
                    vals = self.values(y)
                    if self.cur_len(x) == len(vals):
                        # same element count: the allocation is kept (views of it stay valid and see the new values)
                        self.kept.add(x["alloc"])
                        cells = self.cells_of[x["alloc"]] if x["alloc"] is not None else []
                        for c, v in zip(cells, vals):
                            self.val[c] = v
                        self.objs[o] = dict(kind=OWN, dims=list(y["dims"]), alloc=x["alloc"], off=0, cells=list(cells), moved=False)
                    else:
                        self.free(x["alloc"])
                        self.objs[o] = self.own_fresh(vals, y["dims"])
                else:
                    # owner = view: always a fresh allocation; the viewed elements are read BEFORE the old one is released
                    vals = self.values(y)
                    new = self.own_fresh(vals, y["dims"])
                    self.free(x["alloc"])
                    self.objs[o] = new
            elif x["kind"] == MAP:
                self.need(not x["moved"] and len(x["cells"]) == len(y["cells"]), "map = other of another size")
                if x["alloc"] is not None and x["alloc"] == y["alloc"] and x["cells"] and y["cells"]:
                    # overlapping source: only the direction an ascending element-wise copy handles is generated
                    lo, hi = y["off"], y["off"] + len(y["cells"])
                    self.need(not (lo < x["off"] < hi), "overlap in the unsupported direction")
                vals = self.values(y)
                for c, v in zip(x["cells"], vals):
                    self.val[c] = v
            else:
                self.need(op == "massign" and y["kind"] == CMAP, "assignment to a constant map")
                self.objs[o] = dict(y, dims=list(y["dims"]), cells=list(y["cells"]))
        elif op == "resize":
            o = t.int(); dims = t.ints(); x = self.objs[o]
            self.need(x["kind"] == OWN and len(dims) == self.rank, "resize")
            self.need(x["alloc"] is None or self.alive[x["alloc"]], "destination released")
            n = prod(dims)
            if self.cur_len(x) == n:
                self.kept.add(x["alloc"])
                cells = self.cells_of[x["alloc"]] if x["alloc"] is not None else []
                self.objs[o] = dict(kind=OWN, dims=list(dims), alloc=x["alloc"], off=0, cells=list(cells), moved=False)
            else:
                self.free(x["alloc"])
                self.objs[o] = self.own_fresh([None] * n, dims)
        elif op == "expr":
            o = t.int(); dims = t.ints(); vals = t.ints(); x = self.objs[o]
            self.need(self.rank <= 2 and len(dims) == self.rank and len(vals) == prod(dims) and x["kind"] != CMAP, "expr")
            self.need(x["alloc"] is None or self.alive[x["alloc"]], "destination released")
            if x["kind"] == OWN:
                # the tensor takes the expression's dims (allocation kept when the count is unchanged) and its elements
                if self.cur_len(x) == len(vals):
                    self.kept.add(x["alloc"])
                    cells = self.cells_of[x["alloc"]] if x["alloc"] is not None else []
                    self.objs[o] = dict(kind=OWN, dims=list(dims), alloc=x["alloc"], off=0, cells=list(cells), moved=False)
                else:
                    self.free(x["alloc"])
                    self.objs[o] = self.own_fresh([None] * len(vals), dims)
                x = self.objs[o]
            else:
                self.need(not x["moved"] and (dims == x["dims"] if self.rank == 2 else len(vals) == len(x["cells"])), "expr into a map")
            for c, v in zip(x["cells"], vals):
                self.val[c] = v
        elif op == "slice":
            o = t.int(); s = t.int(); c = t.int(); b = t.int(); e = t.int(); y = self.objs[s]
            self.need(self.usable(y) and 0 <= b <= e <= y["dims"][0], "slice")
            self.need(not (self.objs[o]["kind"] == OWN and o == s), "self")
            inner = prod(y["dims"][1:])
            self.construct(o, self.view(y, c != 0, b * inner, (e - b) * inner, [e - b] + y["dims"][1:]))
        elif op == "reshape":
            o = t.int(); s = t.int(); c = t.int(); sizes = t.ints(); y = self.objs[s]
            self.need(self.usable(y) and len(sizes) == self.rank, "reshape")
            self.need(not (self.objs[o]["kind"] == OWN and o == s), "self")
            n = len(y["cells"])
            self.need(sum(1 for z in sizes if z == -1) <= 1 and all(z >= -1 for z in sizes), "reshape sizes")
            if -1 in sizes:
                others = prod([z for z in sizes if z != -1])
                self.need(others != 0 and n % others == 0, "reshape inference")
                dims = [n // others if z == -1 else z for z in sizes]
            else:
                dims = list(sizes)
            self.need(prod(dims) == n, "reshape total")
            self.construct(o, self.view(y, c != 0, 0, n, dims))
        elif op == "raw":
            o = t.int(); s = t.int(); off = t.int(); dims = t.ints(); y = self.objs[s]
            self.need(self.usable(y) and len(dims) == self.rank and self.objs[o]["kind"] != OWN, "raw")
            self.construct(o, self.view(y, self.objs[o]["kind"] == CMAP, off, prod(dims), list(dims)))
        elif op == "q":
            o = t.int(); mode = t.int(); x = self.objs[o]
            return self.expect(o, x, mode)
        else:
            raise Invalid("op " + op)
        return None

    def expect(self, o, x, mode):
        """(dims, pointer info or None = nothing promised, elements or None)"""
        self.need(x["alloc"] is None or self.alive[x["alloc"]], "query of released memory")
        info = None
        if not x["moved"]:
            if x["kind"] == OWN:
                info = ["n"] if not x["cells"] else ["p"]
            elif not x["cells"]:
                info = ["z"]
            else:
                holders = [j for j in range(self.K) if self.objs[j]["alloc"] == x["alloc"]]
                if holders and not self.objs[holders[0]]["moved"]:
                    info = [str(holders[0]), str(x["off"])]
        elems = None
        if mode != 0:
            self.need(not x["moved"] and self.initialised(x), "query of unspecified contents")
            elems = self.values(x)
        # a map that is only valid because an operation with an unchanged element count kept the allocation (as coded:
        # Eigen's DenseStorage::resize); the property statement promises nothing about it
        ascoded = x["kind"] != OWN and x["alloc"] is not None and x["alloc"] in self.kept
        return (list(x["dims"]), info, elems, ascoded)


def parse_head(t):
    rank = t.int(); ty = t.s(); K = t.int(); n = t.int()
    return rank, ty, K, n


def replay(op):
    """run the naive semantics over a history line; yields for every `q` what is expected"""
    t = Toks(op); t.s(); t.s()
    rank, ty, K, n = parse_head(t)
    sim = Sim(rank, K)
    out = []
    for _ in range(n):
        r = sim.apply(t)
        if r is not None:
            out.append(r)
    if not t.done():
        raise Invalid("trailing tokens")
    return out


def oracle(op, res):
    try:
        want = replay(op)
    except Invalid as ex:
        return f"generated history is not a valid program ({ex}) (generator bug)"
    r = Toks(res)
    if r.s() != "ok":
        return f"implementation did not answer ok: {res[:80]}"
    t = Toks(op); t.s(); t.s(); parse_head(t)
    modes = []
    toks = t.rest()
    # the modes of the queries, in order
    tt = Toks(" ".join(toks))
    while not tt.done():
        w = tt.s()
        if w == "q":
            o = tt.int(); modes.append((o, tt.int()))
        elif w in ("new", "resize", "fill"):
            tt.int(); tt.ints()
        elif w == "expr":
            tt.int(); tt.ints(); tt.ints()
        elif w == "drop":
            tt.int()
        elif w == "assignid":
            o = tt.int(); tt.int(); modes.append((o, -1))
        elif w in ("ctor", "mctor", "assign", "massign", "assignpre"):
            tt.int(); tt.int()
        elif w == "slice":
            for _ in range(5): tt.int()
        elif w == "reshape":
            for _ in range(3): tt.int()
            tt.ints()
        elif w == "raw":
            for _ in range(3): tt.int()
            tt.ints()
    if len(modes) != len(want):
        return "query count (generator bug)"
    for qi, ((o, mode), w4) in enumerate(zip(modes, want)):
        if mode == -1:
            # whether the assignment re-allocated: as-coded behaviour, nothing promised by the property (the model is compared)
            try:
                r.int()
            except (IndexError, ValueError):
                return f"query {qi} (slot {o}): truncated answer"
            continue
        dims, info, elems, ascoded = w4
        note = (" [as-coded: this map is only valid because an operation with an unchanged element count keeps the allocation]"
                if ascoded else "")
        try:
            gd = r.ints()
            ginfo = None
            if mode != 2:
                w = r.s()
                ginfo = [w] if w in ("n", "p", "z") else [w, r.s()]
            gel = r.ints() if mode != 0 else None
        except (IndexError, ValueError):
            return f"query {qi} (slot {o}): truncated answer"
        if gd != dims:
            return f"query {qi} (slot {o}): dims {gd}, expected {dims}" + note
        if mode != 0 and gel != elems:
            bad = [k for k in range(min(len(gel), len(elems))) if gel[k] != elems[k]][:1]
            return (f"query {qi} (slot {o}): contents differ from what the conversions / aliasing imply"
                    + (f", first at element {bad[0]}: {gel[bad[0]]} vs {elems[bad[0]]}" if bad else f" ({len(gel)} vs {len(elems)} elements)")
                    + note)
        if mode != 2 and info is not None and ginfo != info:
            return f"query {qi} (slot {o}): points at {ginfo}, expected {info}" + note
    return None if r.done() else "trailing output"


# ---- generator -----------------------------------------------------------------------------------------------------------
class Gen:
    def __init__(self, rng, rank, ty, K):
        self.rng, self.rank, self.ty, self.K = rng, rank, ty, K
        self.sim = Sim(rank, K)
        self.ops = []
        self.counter = 1

    def emit(self, text):
        """append the op if the naive semantics accepts it"""
        import copy
        saved = copy.deepcopy(self.sim.__dict__)
        try:
            self.sim.apply(Toks(text))
        except Invalid:
            self.sim.__dict__.update(saved)
            return False
        self.ops.append(text)
        return True

    def dims(self, maxsize=48):
        r = self.rng
        while True:
            d = [(0 if r.chance(0.08) else r.range(1, 4 if self.rank > 2 else 7)) for _ in range(self.rank)]
            if prod(d) <= maxsize:
                return d

    def fresh_values(self, n):
        v = list(range(self.counter, self.counter + n)); self.counter += n
        return v

    def fill(self, o):
        x = self.sim.objs[o]
        return self.emit(f"fill {o} {lst(self.fresh_values(len(x['cells'])))}")

    def query(self, o):
        x = self.sim.objs[o]
        if x["alloc"] is not None and not self.sim.alive[x["alloc"]]:
            return
        if x["moved"] or not self.sim.initialised(x):
            self.emit(f"q {o} 0")
        else:
            holders = [j for j in range(self.K) if self.sim.objs[j]["alloc"] == x["alloc"]]
            swapped = any(self.sim.objs[j]["moved"] and self.sim.objs[j]["alloc"] is not None for j in range(self.K))
            unsure = x["kind"] != OWN and x["cells"] and (not holders or swapped)
            self.emit(f"q {o} {2 if unsure else 1}")

    def query_all(self):
        for o in range(3 * self.K):
            self.query(o)

    def same_size_dims(self, n):
        """other dims with the same number of elements"""
        r = self.rng
        if n == 0:
            d = self.dims(); d[r.below(self.rank)] = 0
            return d
        d = [1] * self.rank
        m = n
        for k in range(self.rank - 1):
            divs = [q for q in range(1, m + 1) if m % q == 0]
            d[k] = r.choice(divs); m //= d[k]
        d[self.rank - 1] = m
        return r.shuffle(d)

    def random_step(self):
        r = self.rng; K = self.K; sim = self.sim
        owners = list(range(K)); maps = list(range(K, 2 * K)); cmaps = list(range(2 * K, 3 * K))
        anyslot = list(range(3 * K))
        usable = [i for i in anyslot if sim.usable(sim.objs[i])]
        kind = r.below(100)
        o = r.choice(anyslot)
        s = r.choice(usable) if usable else 0
        full = [i for i in usable if sim.objs[i]["cells"]]
        if full and r.chance(0.85):
            s = r.choice(full)
        y = sim.objs[s]
        if kind < 10:
            o = r.choice(owners)
            if self.emit(f"new {o} {lst(self.dims())}"):
                self.fill(o)
                return True
        elif kind < 20:
            return self.emit(f"{'mctor' if r.chance(0.3) else 'ctor'} {o} {s}")
        elif kind < 38:
            # assignments; for a mapped destination pick a source of the same size where possible
            if sim.objs[o]["kind"] == MAP:
                n = len(sim.objs[o]["cells"])
                cands = [i for i in usable if len(sim.objs[i]["cells"]) == n]
                if cands:
                    s = r.choice(cands)
            if sim.objs[o]["kind"] == OWN and r.chance(0.5) and self.emit(f"assignid {o} {s}"):
                return True
            return self.emit(f"{'massign' if r.chance(0.3) else 'assign'} {o} {s}")
        elif kind < 46:
            o = r.choice(owners)
            x = sim.objs[o]
            d = self.same_size_dims(sim.cur_len(x)) if r.chance(0.5) else self.dims()
            if self.emit(f"resize {o} {lst(d)}"):
                if not sim.initialised(sim.objs[o]):
                    self.fill(o)
                return True
        elif kind < 62:
            d0 = y["dims"][0]
            b = r.range(0, d0); e = r.range(b, d0)
            if d0 > 0 and r.chance(0.7):
                b = r.range(0, d0 - 1); e = r.range(b + 1, d0)
            return self.emit(f"slice {o} {s} {r.below(2)} {b} {e}")
        elif kind < 70:
            n = len(y["cells"])
            d = self.same_size_dims(n)
            if r.chance(0.4):
                pos = r.below(self.rank)
                if prod(d[:pos] + d[pos + 1:]) != 0:
                    d[pos] = -1
            return self.emit(f"reshape {o} {s} {r.below(2)} {lst(d)}")
        elif kind < 78:
            o = r.choice(maps + cmaps)
            if y["alloc"] is not None:
                total = len(sim.cells_of[y["alloc"]]) - y["off"]
                off = r.range(0, total)
                d = self.same_size_dims(r.range(0, total - off))
                if prod(d) <= total - off:
                    return self.emit(f"raw {o} {s} {off} {lst(d)}")
        elif kind < 90:
            cands = [i for i in usable if sim.objs[i]["kind"] != CMAP and sim.objs[i]["cells"]]
            if cands:
                return self.fill(r.choice(cands))
        elif kind < 94:
            return self.emit(f"drop {o}")
        elif self.rank <= 2:
            o = r.choice(owners + maps)
            x = sim.objs[o]
            if x["kind"] == OWN:
                d = self.same_size_dims(sim.cur_len(x)) if r.chance(0.4) else self.dims()
            else:
                d = list(x["dims"])
            return self.emit(f"expr {o} {lst(d)} {lst(self.fresh_values(prod(d)))}")
        return False

    def line(self):
        return f"tensor hist {self.rank} {self.ty} {self.K} {len(self.ops)} " + " ".join(self.ops)


def random_history(rng, rank, ty):
    g = Gen(rng, rank, ty, rng.range(2, 3))
    g.emit(f"new 0 {lst(g.dims())}"); g.fill(0)
    steps = rng.range(4, 18)
    done = 0; tries = 0
    while done < steps and tries < 200:
        tries += 1
        if g.random_step():
            done += 1
            if rng.chance(0.4):
                g.query(rng.below(3 * g.K))
    g.query_all()
    return g.line()


def scenario(rng, rank, ty, which):
    """directed histories: one storage fact each, on a random shape"""
    g = Gen(rng, rank, ty, 2)
    K = 2; O0, O1, M0, M1, C0, C1 = 0, 1, 2, 3, 4, 5
    r = rng
    d = g.dims()
    while prod(d) == 0 and r.chance(0.7):
        d = g.dims()
    g.emit(f"new {O0} {lst(d)}"); g.fill(O0)
    b = r.range(0, d[0]); e = r.range(b, d[0])
    if d[0] > 0 and r.chance(0.8):
        b = r.range(0, d[0] - 1); e = r.range(b + 1, d[0])
    inner = prod(d[1:])
    if which == 0:
        # t = t.slice(b, e) through a map / a constant map of the destination itself
        via = r.choice([M0, C0])
        g.emit(f"slice {via} {O0} {r.below(2) if via == C0 else 0} {b} {e}")
        g.emit(f"{'assignid' if r.chance(0.5) else 'assign'} {O0} {via}")
        g.emit(f"q {O0} 1")
    elif which == 1:
        # map not starting at the owner's first element = tensor of equal size; the rest of the owner is untouched
        g.emit(f"slice {M0} {O0} 0 {b} {e}")
        g.emit(f"new {O1} {lst(g.same_size_dims((e - b) * inner))}"); g.fill(O1)
        g.emit(f"{'massign' if r.chance(0.3) else 'assign'} {M0} {O1}")
        g.emit(f"q {O0} 1"); g.emit(f"q {M0} 1"); g.emit(f"q {O1} 1")
        # the copy is independent of its source
        g.fill(O1); g.emit(f"q {O0} 1")
    elif which == 2:
        # resize to the same element count keeps allocation and contents: an existing map still aliases the owner
        g.emit(f"ctor {M0} {O0}"); g.emit(f"ctor {C0} {M0}")
        g.emit(f"resize {O0} {lst(g.same_size_dims(prod(d)))}")
        g.emit(f"q {O0} 1"); g.emit(f"q {M0} 1"); g.emit(f"q {C0} 1")
        g.fill(M0); g.emit(f"q {O0} 1"); g.emit(f"q {C0} 1")
    elif which == 3:
        # owner = owner of the same element count keeps the allocation (maps see the new values); other counts re-allocate
        g.emit(f"ctor {M0} {O0}")
        same = r.chance(0.6)
        g.emit(f"new {O1} {lst(g.same_size_dims(prod(d)) if same else g.dims())}"); g.fill(O1)
        g.emit(f"{'assignid' if same and r.chance(0.5) else 'assign'} {O0} {O1}")
        g.emit(f"q {O0} 1"); g.emit(f"q {O1} 1"); g.query(M0)
        g.fill(O0); g.emit(f"q {O1} 1")
    elif which == 4:
        # copies are independent: copy-construct from owner / map / constant map, write the copy, write the source
        g.emit(f"slice {C0} {O0} 1 {b} {e}")
        src = r.choice([O0, C0])
        g.emit(f"ctor {O1} {src}")
        g.emit(f"q {O1} 1")
        g.fill(O1); g.emit(f"q {O0} 1")
        g.fill(O0); g.emit(f"q {O1} 1"); g.emit(f"q {C0} 1")
    elif which == 5:
        # move construction / move assignment transfer the allocation: maps of the source now alias the destination
        g.emit(f"slice {M0} {O0} 0 {b} {e}")
        if r.chance(0.5):
            g.emit(f"mctor {O1} {O0}")
        else:
            g.emit(f"new {O1} {lst(g.dims())}"); g.fill(O1)
            g.emit(f"massign {O1} {O0}")
        g.emit(f"q {O1} 1"); g.emit(f"q {O0} 0"); g.query(M0)
        g.fill(M0); g.emit(f"q {O1} 1")
    elif which == 6:
        # overlapping map = map inside one owner, destination before the source (ascending copy): elements before
        if d[0] >= 2:
            ln = r.range(1, d[0] - 1); sb = r.range(1, d[0] - ln); db = r.range(0, sb)
            g.emit(f"slice {M0} {O0} 0 {db} {db + ln}")
            g.emit(f"slice {M1} {O0} 0 {sb} {sb + ln}")
            g.emit(f"{'massign' if r.chance(0.3) else 'assign'} {M0} {M1}")
        g.emit(f"q {O0} 1")
    elif which == 7:
        # raw maps at an offset inside the owner, of another shape; assigned from a constant map of another owner
        n = prod(d)
        off = r.range(0, n); m = r.range(0, n - off)
        dd = g.same_size_dims(m)
        g.emit(f"raw {M0} {O0} {off} {lst(dd)}")
        g.emit(f"new {O1} {lst(g.same_size_dims(m))}"); g.fill(O1)
        g.emit(f"ctor {C1} {O1}")
        g.emit(f"assign {M0} {C1}")
        g.emit(f"q {O0} 1"); g.emit(f"q {M0} 1")
    elif which == 8:
        # expression assigned to an owner (any previous size) and to a map at an offset; maps of a kept allocation stay valid
        g.emit(f"slice {M0} {O0} 0 {b} {e}")
        if rank <= 2:
            dd = g.same_size_dims(prod(d)) if r.chance(0.5) else g.dims()
            g.emit(f"expr {M0} {lst([e - b] + d[1:])} {lst(g.fresh_values((e - b) * inner))}")
            g.emit(f"q {O0} 1")
            g.emit(f"expr {O0} {lst(dd)} {lst(g.fresh_values(prod(dd)))}")
            g.emit(f"q {O0} 1"); g.query(M0)
    elif which == 9:
        # outside the contract, as coded: map = bigger tensor copies the first size() elements (release build)
        g.emit(f"slice {M0} {O0} 0 {b} {e}")
        g.emit(f"new {O1} {lst(g.same_size_dims((e - b) * inner + r.range(1, 5)))}"); g.fill(O1)
        g.emit(f"assignpre {M0} {O1}")
        g.emit(f"q {O0} 1"); g.emit(f"q {M0} 1"); g.emit(f"q {O1} 1")
    g.query_all()
    return g.line()


NSCEN = 10


def shrink(op):
    """smaller valid histories: one op removed"""
    t = Toks(op); t.s(); t.s()
    rank, ty, K, n = parse_head(t)
    words = t.rest()
    # split into ops
    ops = []
    tt = Toks(" ".join(words))
    while not tt.done():
        start = tt.i
        w = tt.s()
        if w in ("q", "ctor", "mctor", "assign", "massign", "assignpre", "assignid"):
            tt.int(); tt.int()
        elif w in ("new", "resize", "fill"):
            tt.int(); tt.ints()
        elif w == "expr":
            tt.int(); tt.ints(); tt.ints()
        elif w == "drop":
            tt.int()
        elif w == "slice":
            for _ in range(5): tt.int()
        elif w in ("reshape", "raw"):
            for _ in range(3): tt.int()
            tt.ints()
        ops.append(" ".join(tt.t[start:tt.i]))
    for k in range(len(ops)):
        cand = ops[:k] + ops[k + 1:]
        line = f"tensor hist {rank} {ty} {K} {len(cand)} " + " ".join(cand)
        try:
            replay(line)
        except Invalid:
            continue
        yield line
