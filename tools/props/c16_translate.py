"""C16: C++ -> Lean translator for the integer code of the tensor addressing (DESIGN.md §2.3.a).

Extracts, *by function name* from the current source text of the repository under check, and emits

  lean/NanoVerif/Gen/TensorIndex.lean   (generic over the integer scalar `α`: runs at `Nat` next to the model, at `Int` = tensor_size_t)
    detail::product<idim, trank>                     (dims.h)  -> `product`        (base case + step of the template recursion)
    detail::get_index<idim>, both overloads          (dims.h)  -> `getIndex`, `getIndexAssert`
    detail::get_index0<idim>, both overloads         (dims.h)  -> `getIndex0`, `getIndex0Assert`
    detail::get_dims0<idim, trank, trankx>, dims0    (dims.h)  -> `getDims0`, `dims0` (explicit positions, `size_t` arithmetic over `Nat`)
    size / index / index0 (start of the recursion)   (dims.h)  -> `size`, `index`, `index0`
  lean/NanoVerif/Gen/TensorGuards.lean  (over `Int`: tensor_size_t is the signed Eigen::Index)
    tensor_range_t::begin/end/size/valid, ctor, make_range  (range.h)   -> `rangeBegin` … `rangeValid`, `makeRange`
    tensor_t::tslice: assert, first dimension, offset       (tensor.h)  -> `sliceAssert`, `sliceDim0`, `sliceOffsetIndex`
    tensor_t::tvector / tmatrix / ttensor (composition)     (tensor.h)  -> `viewOffset`, `ttensorDims`, `tvectorSize`
    tensor_t::slice(range)                                  (tensor.h)  -> `sliceRangeBegin`, `sliceRangeEnd`
    tensor_t::treshape: loop body + final assert            (tensor.h)  -> `reshapeDimAssert`, `reshapeIsWildcard`, `reshapeInferred`,
                                                                           `reshapeFinalAssert`, `reshapeLoop`, `reshape`
    arange: assert, length, last value                      (tensor.h)  -> `arangeAssert`, `arangeSize`, `arangeLast`
  lean/NanoVerif/Gen/TensorIntegral.lean (generic over the scalar; uses the model's `rows` / `zipAdd` / `size` as the meaning of
                                          `.tensor(i0)` / `.vector(i0) +=`)
    integral_t<1>::get, integral_t<trank>::get, integral    (integral.h) -> `integral1`, `integralRows`, `integralData`, `integralGuard`
  lean/NanoVerif/Gen/TensorAlgorithm.lean
    detail::copy, detail::size, remove_if (both loops)      (algorithm.h) -> `copyRow`, `removeIfSkip`, `removeIfLoop`, `removeIf`

How the template recursion is read: inside `f<idim, …>` the expression `std::get<idim>(dims)` is the head `d` of the list of the
dimensions from position `idim` on, a call `g<idim + 1[, trank]>(dims[, pack...])` is `g` on its tail `ds`, `if constexpr (idim == trank)`
is the empty list; the parameter pack `indices...` is the tail `is` of the list of indices. Every other use of `idim` / `trank` /
`std::get` raises. The expression language is that of tools/props/c14_translate.py (its tokenizer and parser are imported); `/` on
tensor_size_t is `Int.tdiv` (C++ truncates). Locals and parameters are renamed (`i`, `d`, …), so whitespace, comments and renamed
parameters do not change the generated text. Anything else raises vlib.Broken("translate", …).
"""
import os, re
import vlib
from props.c14_translate import TranslateError, strip_comments, block_after, tokenize, Parser, Lits

OUT_INDEX = os.path.join(vlib.LEAN, "NanoVerif", "Gen", "TensorIndex.lean")
OUT_GUARDS = os.path.join(vlib.LEAN, "NanoVerif", "Gen", "TensorGuards.lean")
DIMS = "include/nano/tensor/dims.h"
RANGE = "include/nano/tensor/range.h"
TENSOR = "include/nano/tensor/tensor.h"

ID = r"[A-Za-z_][A-Za-z_0-9]*"


class IntParser(Parser):
    """c14's expression parser with tensor_size_t semantics: `a / b` truncates toward zero"""
    def mul(self):
        a = self.unary()
        while self.peek()[1] in ("*", "/"):
            op = self.eat()[1]; b = self.unary()
            a = f"({a} * {b})" if op == "*" else f"(Int.tdiv {a} {b})"
        return a


def expr(text, bind, what, cond=False, cls=Parser, nums=None):
    toks = tokenize(text)
    for k, v in toks:
        if k == "num":
            if not re.fullmatch(r"\d+", v):
                raise TranslateError(f"{what}: non-integer literal {v}")
            if nums is not None:
                nums.add(int(v))
    p = cls(toks, bind, Lits())
    try:
        e = p.cond()
    except TranslateError as ex:
        raise TranslateError(f"{what}: {ex} in `{squeeze(text)}`")
    if p.peek()[0] != "eof":
        raise TranslateError(f"{what}: trailing tokens in `{text.strip()}`")
    if cond:
        return f"decide ({e})"
    if any(s in e for s in ("∧", "∨", "¬", "≤", "≥", " < ", " > ", " = ", "≠")):
        raise TranslateError(f"{what}: `{text.strip()}` is a condition where a value is expected")
    return e


def squeeze(s):
    return re.sub(r"\s+", " ", s).strip()


def statements(body, what):
    """top-level `;`-terminated statements of a block without nested blocks"""
    if "{" in body or "}" in body:
        raise TranslateError(f"{what}: nested block not understood")
    out = [squeeze(s) for s in body.split(";")]
    if out and out[-1] == "":
        out.pop()
    if any(s == "" for s in out):
        raise TranslateError(f"{what}: empty statement")
    return out


def overloads(src, name, what):
    """[(template parameter text, parameter text, body)] of every `template <…> … name(…) {…}` at namespace level"""
    out = []
    for m in re.finditer(r"template\s*<([^<>]*)>\s*(?:inline\s+|static\s+)?(?:[\w:]+(?:<[^<>]*>)?[&\s]+)" + name + r"\s*\(", src):
        depth = 1; i = m.end()
        while depth:
            if i >= len(src):
                raise TranslateError(f"{what}: unbalanced parentheses")
            depth += (src[i] == "(") - (src[i] == ")")
            i += 1
        params = src[m.end():i - 1]
        mm = re.compile(r"\s*(?:const\s*)?\{").match(src, i)
        if not mm:
            continue
        body = block_after(src, mm.end() - 1)[0]
        out.append((squeeze(m.group(1)), squeeze(params), body))
    if not out:
        raise TranslateError(f"definition of {what} not found")
    return out


def split_params(params):
    out = []; depth = 0; cur = ""
    for ch in params:
        depth += (ch in "<(") - (ch in ">)")
        if ch == "," and depth == 0:
            out.append(cur.strip()); cur = ""
        else:
            cur += ch
    if cur.strip():
        out.append(cur.strip())
    return out


def param_name(p, what):
    m = re.fullmatch(r"(?:const\s+)?[\w:]+(?:<[^<>]*>)?(?:\s*\.\.\.)?\s*[&]?\s*(" + ID + r")?", p)
    if not m:
        raise TranslateError(f"{what}: parameter `{p}` not understood")
    return m.group(1)


# ---------------------------------------------------------------------------------------------------------------------
# dims.h: the template recursions

def tparams(t, what):
    """names of the template parameters: (index parameter, rank parameter, has pack)"""
    ps = [squeeze(x) for x in t.split(",")]
    if len(ps) < 2 or not re.fullmatch(r"size_t " + ID, ps[0]) or not re.fullmatch(r"size_t " + ID, ps[1]):
        raise TranslateError(f"{what}: template head `{t}` not understood")
    idim = ps[0].split()[1]; trank = ps[1].split()[1]
    pack = None
    if len(ps) == 3:
        m = re.fullmatch(r"class\s*\.\.\.\s*(" + ID + ")", ps[2])
        if not m:
            raise TranslateError(f"{what}: template head `{t}` not understood")
        pack = m.group(1)
    elif len(ps) != 2:
        raise TranslateError(f"{what}: template head `{t}` not understood")
    return idim, trank, pack


def rec_subst(text, idim, trank, dims, pack, calls, what):
    """replace the recursion idioms by placeholder identifiers; what is left must not mention idim / trank / std::get"""
    text = re.sub(r"std::get\s*<\s*" + idim + r"\s*>\s*\(\s*" + dims + r"\s*\)", " HEAD__ ", text)
    for cname, (ph, with_pack) in calls.items():
        tail = r"\s*,\s*" + pack + r"\s*\.\.\.\s*" if (with_pack and pack) else ""
        text = re.sub(r"\b" + cname + r"\s*<\s*" + idim + r"\s*\+\s*1\s*(?:,\s*" + trank + r"\s*)?>\s*\(\s*" + dims + r"\s*" + tail + r"\)",
                      f" {ph} ", text)
    for bad in (idim, trank, "std::get"):
        if re.search(r"\b" + re.escape(bad) + r"\b", text):
            raise TranslateError(f"{what}: use of `{bad}` outside the recursion scheme in `{squeeze(text)}`")
    if "..." in text:
        raise TranslateError(f"{what}: parameter pack outside the recursion scheme in `{squeeze(text)}`")
    return text


def gen_product(src, nums):
    ov = overloads(src, "product", "detail::product")
    if len(ov) != 1:
        raise TranslateError("detail::product: one definition expected")
    t, params, body = ov[0]
    idim, trank, pack = tparams(t, "detail::product")
    ps = split_params(params)
    if pack or len(ps) != 1:
        raise TranslateError("detail::product: parameter list not understood")
    dims = param_name(ps[0], "detail::product")
    m = re.fullmatch(r"\s*if\s+constexpr\s*\(\s*" + idim + r"\s*==\s*" + trank + r"\s*\)\s*\{\s*return([^;{}]*);\s*\}\s*else\s*\{\s*return([^;{}]*);\s*\}\s*",
                     body)
    if not m:
        raise TranslateError("detail::product: body is not `if constexpr (idim == trank) { return e; } else { return e; }`")
    calls = {"product": ("REC__", False)}
    e0 = expr(rec_subst(m.group(1), idim, trank, dims, None, calls, "detail::product"), {}, "detail::product", cls=IntParser, nums=nums)
    e1 = expr(rec_subst(m.group(2), idim, trank, dims, None, calls, "detail::product"), {"HEAD__": "d", "REC__": "(product ds)"},
              "detail::product", cls=IntParser, nums=nums)
    return (f"/-- `detail::product<idim, trank>(dims)` ({DIMS}); the argument is the list of the dimensions from position `idim` on -/\n"
            f"def product : List α → α\n  | [] => {e0}\n  | d :: ds => {e1}\n")


def gen_get_index(src, cname, lname, nums):
    """both overloads of get_index / get_index0: value and the conjunction of the asserts along the recursion"""
    what = "detail::" + cname
    base = step = None
    for t, params, body in overloads(src, cname, what):
        idim, trank, pack = tparams(t, what)
        ps = split_params(params)
        if pack:
            if step:
                raise TranslateError(f"{what}: two variadic overloads")
            step = (idim, trank, pack, ps, body)
        else:
            if base:
                raise TranslateError(f"{what}: two non-variadic overloads")
            base = (idim, trank, ps, body)
    if not base or not step:
        raise TranslateError(f"{what}: a non-variadic (base case) and a variadic (step) overload expected")
    # base case
    idim, trank, ps, body = base
    st = statements(body, what)
    if len(st) != 1 or not st[0].startswith("return "):
        raise TranslateError(f"{what}: base case is not a single return")
    names = [param_name(p, what) for p in ps]
    if len(ps) == 1:
        base_pat = "[]"; bind = {}
    elif len(ps) == 2 and names[1]:
        base_pat = "[i]"; bind = {names[1]: "i"}
    else:
        raise TranslateError(f"{what}: base case takes `{', '.join(ps)}`")
    for n in (idim, trank):
        if re.search(r"\b" + n + r"\b", st[0]):
            raise TranslateError(f"{what}: base case uses `{n}`")
    b0 = expr(st[0][len("return "):], bind, what, cls=IntParser, nums=nums)
    # step
    idim, trank, pack, ps, body = step
    names = [param_name(p, what) for p in ps]
    if len(ps) != 3 or not all(names) or not re.match(pack + r"\s*\.\.\.", ps[2]):
        raise TranslateError(f"{what}: step takes `{', '.join(ps)}`")
    dims, index, indices = names
    st = statements(body, what)
    asserts = [s for s in st if s.startswith("assert(")]
    rets = [s for s in st if s.startswith("return ")]
    if len(rets) != 1 or st[-1] != rets[0] or len(asserts) + 1 != len(st):
        raise TranslateError(f"{what}: step is not `assert(…)* return e`")
    calls = {"product": ("PROD__", False), cname: ("REC__", True)}
    bind = {index: "i", "HEAD__": "d", "PROD__": "(product ds)", "REC__": "r"}
    e1 = expr(rec_subst(rets[0][len("return "):], idim, trank, dims, indices, calls, what), bind, what, cls=IntParser, nums=nums)
    conds = []
    for a in asserts:
        if not a.endswith(")"):
            raise TranslateError(f"{what}: `{a}` not understood")
        conds.append(expr(rec_subst(a[len("assert("):-1], idim, trank, dims, indices, calls, what),
                          {index: "i", "HEAD__": "d", "PROD__": "(product ds)"}, what, cond=True, cls=IntParser, nums=nums))
    guard = " && ".join(conds + [f"{lname}Assert ds is"]) if conds else f"{lname}Assert ds is"
    if base_pat == "[]":
        nocompile = "  | [], _ :: _ => none\n"; nocompile_b = "  | [], _ :: _ => false\n"
        comment = "more indices than dimensions do not compile (`std::get` past the end)"
    else:
        nocompile = "  | _, _ => none\n"; nocompile_b = "  | _, _ => false\n"
        comment = "no index, or more indices than dimensions, does not compile"
    return (f"/-- `{what}<idim>(dims, indices...)` ({DIMS}): first argument = the dimensions from position `idim` on; `none`: {comment} -/\n"
            f"def {lname} : List α → List α → Option α\n"
            f"  | _, {base_pat} => some ({b0})\n"
            f"  | d :: ds, i :: is => ({lname} ds is).map fun r => {e1}\n" + nocompile +
            f"\n/-- the `assert`s `{what}` passes on its way down (the base case has none) -/\n"
            f"def {lname}Assert : List α → List α → Bool\n"
            f"  | _, {base_pat.replace('i', '_')} => true\n"
            f"  | d :: ds, i :: is => {guard}\n" + nocompile_b)


def gen_dims0(src, nums):
    """detail::get_dims0<idim, trank, trankx> (copies position by position, explicit index arithmetic) and dims0"""
    what = "detail::get_dims0"
    ov = overloads(src, "get_dims0", what)
    if len(ov) != 1:
        raise TranslateError(f"{what}: one definition expected")
    t, params, body = ov[0]
    ps = [squeeze(x) for x in t.split(",")]
    if len(ps) != 3 or not all(re.fullmatch(r"size_t " + ID, x) for x in ps):
        raise TranslateError(f"{what}: template head `{t}` not understood")
    idim, trank, trankx = [x.split()[1] for x in ps]
    pr = split_params(params)
    if len(pr) != 2:
        raise TranslateError(f"{what}: parameter list not understood")
    dims, dimsx = [param_name(x, what) for x in pr]
    m = re.fullmatch(r"\s*if\s+constexpr\s*\(\s*" + idim + r"\s*<\s*" + trank + r"\s*\)\s*\{([^{}]*)\}\s*", body)
    if not m:
        raise TranslateError(f"{what}: body is not `if constexpr (idim < trank) {{ … }}`")
    st = [x for x in statements(m.group(1), what) if not x.startswith("static_assert(")]
    if len(st) != 2:
        raise TranslateError(f"{what}: `std::get<e>(dimsx) = std::get<e>(dims); get_dims0<idim + 1>(dims, dimsx);` expected")
    m1 = re.fullmatch(r"std::get\s*<([^<>]*)>\s*\(\s*" + dimsx + r"\s*\) = std::get\s*<([^<>]*)>\s*\(\s*" + dims + r"\s*\)", st[0])
    m2 = re.fullmatch(r"get_dims0\s*<\s*" + idim + r"\s*\+\s*1\s*>\s*\(\s*" + dims + r"\s*,\s*" + dimsx + r"\s*\)", st[1])
    if not m1 or not m2:
        raise TranslateError(f"{what}: `{st[0]}; {st[1]}` not understood")
    bind = {idim: "idim", trank: "trank", trankx: "trankx"}
    dst = expr(m1.group(1), bind, what, nums=nums); srcpos = expr(m1.group(2), bind, what, nums=nums)
    out = (f"/-- `{what}<idim, trank, trankx>(dims, dimsx)` ({DIMS}): positions are explicit here (`size_t` arithmetic; the `static_assert`\n"
           f"    keeps `{squeeze(m1.group(1))}` from wrapping: read over `Nat`); `std::get<k>(dims)` is `dims[k]` (in range: `idim < trank`) -/\n"
           f"def getDims0 (trank trankx : Nat) (dims : List α) (idim : Nat) (dimsx : List α) : List α :=\n"
           f"  if idim < trank then\n"
           f"    getDims0 trank trankx dims (idim + 1) (dimsx.set {dst} (dims.getD {srcpos} 0))\n"
           f"  else dimsx\ntermination_by trank - idim\n\n")
    # dims0
    what = "dims0"
    ms = list(re.finditer(r"template\s*<\s*size_t\s+(" + ID + r")\s*,\s*class\s*\.\.\.\s*(" + ID + r")\s*,\s*size_t\s+(" + ID + r")\s*=([^<>]*)>\s*"
                          r"tensor_dims_t\s*<\s*(" + ID + r")\s*>\s*dims0\s*\(([^()]*)\)\s*\{", src))
    if len(ms) != 1:
        raise TranslateError("dims0: definition not found / template head not understood")
    m = ms[0]
    trank, pack, trankx, default, rt, params = m.groups()
    if rt != trankx:
        raise TranslateError("dims0: result type is not tensor_dims_t<trankx>")
    pr = split_params(params)
    dims = param_name(pr[0], what)
    npack = r"sizeof\s*\.\.\.\s*\(\s*" + pack + r"\s*\)"
    bind = {trank: "trank", "NPACK__": "k"}
    e_x = expr(re.sub(npack, " NPACK__ ", default), bind, what, nums=nums)
    st = [x for x in statements(block_after(src, m.end() - 1)[0], what) if not x.startswith("static_assert(")]
    if len(st) != 4:
        raise TranslateError("dims0: `tensor_dims_t<trankx> dimsx; dimsx.fill(e); detail::get_dims0<e>(dims, dimsx); return dimsx;` expected")
    m0 = re.fullmatch(r"tensor_dims_t\s*<\s*" + trankx + r"\s*>\s*(" + ID + r")", st[0])
    if not m0:
        raise TranslateError(f"dims0: `{st[0]}` not understood")
    dx = m0.group(1)
    m1 = re.fullmatch(dx + r"\.fill\((.*)\)", st[1])
    m2 = re.fullmatch(r"(?:detail::)?get_dims0\s*<([^<>]*)>\s*\(\s*" + dims + r"\s*,\s*" + dx + r"\s*\)", st[2])
    if not m1 or not m2 or st[3] != "return " + dx:
        raise TranslateError(f"dims0: `{st[1]}; {st[2]}; {st[3]}` not understood")
    bind2 = {trank: "trank", trankx: "trankx"}
    fill = expr(m1.group(1), {}, what, nums=nums); start = expr(m2.group(1), bind2, what, nums=nums)
    out += (f"/-- `nano::dims0(dims, indices...)` ({DIMS}) with `k` = the number of indices: `trank` = the rank, `trankx` = the default template\n"
            f"    argument `{squeeze(default)}` -/\n"
            f"def dims0 (dims : List α) (k : Nat) : List α :=\n"
            f"  let trank := dims.length\n  let trankx := {e_x}\n"
            f"  getDims0 trank trankx dims {start} (List.replicate trankx {fill})\n")
    return out


def gen_entry(src, cname, callee, lname, lcallee, with_indices):
    """`size` / `index` / `index0`: where the recursion starts"""
    ov = overloads(src, cname, cname)
    if len(ov) != 1:
        raise TranslateError(f"{cname}: one definition expected")
    t, params, body = ov[0]
    ps = split_params(params)
    dims = param_name(ps[0], cname)
    st = [s for s in statements(body, cname) if not s.startswith("static_assert(")]
    pack = param_name(ps[1], cname) if with_indices and len(ps) == 2 else None
    if with_indices and not pack:
        raise TranslateError(f"{cname}: parameter list not understood")
    tail = r"\s*,\s*" + pack + r"\s*\.\.\.\s*" if with_indices else r"\s*"
    if len(st) != 1 or not re.fullmatch(r"return (?:detail::)?" + callee + r"\s*<\s*0\s*>\s*\(\s*" + dims + r"\s*" + tail + r"\)", st[0]):
        raise TranslateError(f"{cname}: body is not `return detail::{callee}<0>({dims}{', indices...' if with_indices else ''})`")
    if with_indices:
        return (f"/-- `nano::{cname}(dims, indices...)` ({DIMS}) -/\n"
                f"def {lname} (dims idx : List α) : Option α := {lcallee} dims idx\n")
    return f"/-- `nano::{cname}(dims)` ({DIMS}) -/\ndef {lname} (dims : List α) : α := {lcallee} dims\n"


HEADER_INDEX = f"""-- GENERATED by tools/props/c16.py (c16_translate.py) from {DIMS} — do not edit
/-
  The integer recursions of the tensor addressing, translated from the C++ templates: `f<idim>(dims, …)` becomes a function of the
  list of the dimensions from position `idim` on (`std::get<idim>(dims)` = head, `f<idim + 1>` = the function on the tail,
  `idim == trank` = empty list); a parameter pack is the list of the remaining indices. Generic over the integer type: at `Nat` the
  model's `size` / `index` are proved equal to these (NanoVerif/Proofs/TensorGenerated.lean), `Int` is `tensor_size_t`.
-/
set_option linter.unusedVariables false
namespace NanoVerif.Gen.TensorIndex
"""


def generate_index(repo):
    src = strip_comments(read(repo, DIMS))
    nums = set()
    pieces = [gen_product(src, nums), gen_get_index(src, "get_index", "getIndex", nums), gen_get_index(src, "get_index0", "getIndex0", nums),
              gen_entry(src, "size", "product", "size", "product", False), gen_entry(src, "index", "get_index", "index", "getIndex", True),
              gen_entry(src, "index0", "get_index0", "index0", "getIndex0", True), gen_dims0(src, nums)]
    ofn = " ".join(f"[OfNat α {n}]" for n in sorted(nums | {0, 1}))
    global INDEX_VARS
    INDEX_VARS = f"variable {{α : Type}} [Add α] [Sub α] [Mul α] [LE α] [LT α] [DecidableLE α] [DecidableLT α] [DecidableEq α] {ofn}"
    out = [HEADER_INDEX, f"section\n{INDEX_VARS}\n"]
    out += pieces
    out.append("end\nend NanoVerif.Gen.TensorIndex\n")
    return "\n".join(out)


# ---------------------------------------------------------------------------------------------------------------------
# range.h, tensor.h: guards

def read(repo, p):
    try:
        return open(os.path.join(repo, p)).read()
    except OSError as ex:
        raise TranslateError(f"cannot read {p}: {ex}")


def member_body(src, header_regex, what):
    """the body of the (only) definition whose head matches"""
    ms = list(re.finditer(header_regex + r"\s*(?:const\s*)?\{", src))
    if not ms:
        raise TranslateError(f"definition of {what} not found")
    bodies = {squeeze(block_after(src, m.end() - 1)[0]) for m in ms}
    if len(bodies) != 1:
        raise TranslateError(f"{what}: the overloads differ")
    return ms[0], bodies.pop()


def single_return(body, what):
    st = statements(body, what)
    if len(st) != 1 or not st[0].startswith("return "):
        raise TranslateError(f"{what}: body is not a single return")
    return st[0][len("return "):]


def gen_range(src):
    cls_m = re.search(r"class\s+tensor_range_t\s*\{", src)
    if not cls_m:
        raise TranslateError("class tensor_range_t not found")
    cls = block_after(src, cls_m.end() - 1)[0]
    m = re.search(r"tensor_range_t\s*\(\s*const\s+tensor_size_t\s+(" + ID + r")\s*,\s*const\s+tensor_size_t\s+(" + ID + r")\s*\)\s*:\s*(" + ID +
                  r")\s*\(\s*(" + ID + r")\s*\)\s*,\s*(" + ID + r")\s*\(\s*(" + ID + r")\s*\)\s*\{\s*\}", cls)
    if not m:
        raise TranslateError("tensor_range_t(begin, end): constructor not understood")
    a, b, f1, v1, f2, v2 = m.groups()
    fields = re.findall(r"tensor_size_t\s+(m_" + ID[1:] + r"|" + ID + r")\s*\{\s*0\s*\}\s*;", cls)
    if sorted(fields) != sorted([f1, f2]) or f1 == f2:
        raise TranslateError("tensor_range_t: attributes not understood")
    init = {f1: v1, f2: v2}
    names = {a: "b", b: "e"}
    if set(init.values()) != {a, b}:
        raise TranslateError("tensor_range_t(begin, end): initialisers not understood")
    bind = {f1: f"r.{'1' if init[f1] == a else '2'}", f2: f"r.{'1' if init[f2] == a else '2'}"}
    out = [f"/-- `tensor_range_t` ({RANGE}) as the pair of its constructor arguments `(begin, end)`; the attributes read "
           f"`{f1} = {names[init[f1]]}`, `{f2} = {names[init[f2]]}` -/\nabbrev Range := Int × Int\n"]
    for cname, lname, extra in (("begin", "rangeBegin", None), ("end", "rangeEnd", None), ("size", "rangeSize", None), ("valid", "rangeValid", "size")):
        head = r"\b(?:tensor_size_t|bool|auto)\s+" + cname + r"\s*\(\s*" + (r"const\s+tensor_size_t\s+(" + ID + r")\s*" if extra else "") + r"\)"
        mm, body = member_body(cls, head, "tensor_range_t::" + cname)
        bd = dict(bind)
        if extra:
            bd[mm.group(1)] = "n"
        e = expr(single_return(body, "tensor_range_t::" + cname), bd, "tensor_range_t::" + cname, cond=(cname == "valid"), cls=IntParser)
        if extra:
            out.append(f"/-- `tensor_range_t::{cname}(size)` -/\ndef {lname} (r : Range) (n : Int) : Bool := {e}\n")
        else:
            out.append(f"/-- `tensor_range_t::{cname}()` -/\ndef {lname} (r : Range) : Int := {e}\n")
    m = re.search(r"\bmake_range\s*\(\s*const\s+tensor_size_t\s+(" + ID + r")\s*,\s*const\s+tensor_size_t\s+(" + ID + r")\s*\)\s*\{", src)
    if not m:
        raise TranslateError("make_range not found")
    body = squeeze(block_after(src, m.end() - 1)[0])
    mm = re.fullmatch(r"return tensor_range_t\s*[\{\(]\s*(" + ID + r")\s*,\s*(" + ID + r")\s*[\}\)]\s*;", body)
    if not mm or {mm.group(1), mm.group(2)} != {m.group(1), m.group(2)}:
        raise TranslateError("make_range: body is not `return tensor_range_t{begin, end};`")
    nm = {m.group(1): "b", m.group(2): "e"}
    out.append(f"/-- `make_range(begin, end)` -/\ndef makeRange (b e : Int) : Range := ({nm[mm.group(1)]}, {nm[mm.group(2)]})\n")
    return "\n".join(out)


SIZE0 = r"this\s*->\s*template\s+size\s*<\s*0\s*>\s*\(\s*\)"


def gen_slice(src):
    m, body = member_body(src, r"\bauto\s+tslice\s*\(\s*tdata\s+(" + ID + r")\s*,\s*tensor_size_t\s+(" + ID + r")\s*,\s*tensor_size_t\s+(" + ID + r")\s*\)",
                          "tensor_t::tslice")
    ptr, b, e = m.groups()
    st = statements(body, "tensor_t::tslice")
    if len(st) != 4 or not st[0].startswith("assert(") or not st[0].endswith(")"):
        raise TranslateError("tensor_t::tslice: `assert; auto dimensions = dims(); dimensions[0] = e; return map_tensor(ptr + offset0(e), dimensions)` expected")
    bind = {b: "b", e: "e", "SIZE0__": "d"}
    a = expr(re.sub(SIZE0, " SIZE0__ ", st[0][len("assert("):-1]), bind, "tensor_t::tslice", cond=True, cls=IntParser)
    m1 = re.fullmatch(r"auto (" + ID + r") = dims\(\)", st[1])
    if not m1:
        raise TranslateError(f"tensor_t::tslice: `{st[1]}` not understood")
    dn = m1.group(1)
    m2 = re.fullmatch(re.escape(dn) + r"\s*\[\s*0\s*\] = (.*)", st[2])
    m3 = re.fullmatch(r"return map_tensor\(\s*" + ptr + r" \+ offset0\((.*)\)\s*,\s*" + re.escape(dn) + r"\s*\)", st[3])
    if not m2 or not m3:
        raise TranslateError(f"tensor_t::tslice: `{st[2]}; {st[3]}` not understood")
    d0 = expr(m2.group(1), bind, "tensor_t::tslice", cls=IntParser)
    off = expr(m3.group(1), bind, "tensor_t::tslice", cls=IntParser)
    out = [f"/-- the `assert` of `tensor_t::tslice(ptr, begin, end)` ({TENSOR}); `d` = `size<0>()` -/\ndef sliceAssert (b e d : Int) : Bool := {a}\n",
           f"/-- `dimensions[0]` of the slice -/\ndef sliceDim0 (b e : Int) : Int := {d0}\n",
           f"/-- the slice starts at `ptr + offset0(·)` of this leading index -/\ndef sliceOffsetIndex (b e : Int) : Int := {off}\n"]
    # slice(range)
    m, body = member_body(src, r"\bauto\s+slice\s*\(\s*const\s+tensor_range_t\s*&\s*(" + ID + r")\s*\)", "tensor_t::slice(range)")
    r = m.group(1)
    mm = re.fullmatch(r"return tslice\(\s*data\(\)\s*,\s*" + r + r"\.(begin|end)\(\)\s*,\s*" + r + r"\.(begin|end)\(\)\s*\)\s*;", body)
    if not mm:
        raise TranslateError("tensor_t::slice(range): body is not `return tslice(data(), range.begin(), range.end());`")
    cap = {"begin": "rangeBegin", "end": "rangeEnd"}
    out.append(f"/-- `tensor_t::slice(range)` = `tslice(data(), ·, ·)`: the two arguments -/\n"
               f"def sliceRangeBegin (r : Range) : Int := {cap[mm.group(1)]} r\ndef sliceRangeEnd (r : Range) : Int := {cap[mm.group(2)]} r\n")
    m, body = member_body(src, r"\bauto\s+slice\s*\(\s*const\s+tensor_size_t\s+(" + ID + r")\s*,\s*const\s+tensor_size_t\s+(" + ID + r")\s*\)",
                          "tensor_t::slice(begin, end)")
    if not re.fullmatch(r"return tslice\(\s*data\(\)\s*,\s*" + m.group(1) + r"\s*,\s*" + m.group(2) + r"\s*\)\s*;", body):
        raise TranslateError("tensor_t::slice(begin, end): body is not `return tslice(data(), begin, end);`")
    return "\n".join(out)


def gen_views(src):
    """tvector / tmatrix / ttensor: which offset and which dimensions the partial-index views are built from"""
    out = []
    pk = r"\s*(" + ID + r")\s*\.\.\.\s*"
    for cname in ("tvector", "tmatrix", "ttensor"):
        what = "tensor_t::" + cname
        m, body = member_body(src, r"\bauto\s+" + cname + r"\s*\(\s*tdata\s+(" + ID + r")\s*,\s*tindices\s*\.\.\.\s*(" + ID + r")\s*\)", what)
        ptr, idx = m.groups()
        st = [x for x in statements(body, what) if not x.startswith("static_assert(")]
        if len(st) != 1:
            raise TranslateError(f"{what}: a single return expected")
        off = ptr + r" \+ offset0\(\s*" + idx + r"\s*\.\.\.\s*\)"
        d0 = r"::nano::dims0\(\s*dims\(\)\s*,\s*" + idx + r"\s*\.\.\.\s*\)"
        if cname == "tvector":
            ok = re.fullmatch(r"return map_vector\(\s*" + off + r"\s*,\s*::nano::size\(\s*" + d0 + r"\s*\)\s*\)", st[0])
            shape = "the length `size (dims0 dims k)`"
        elif cname == "ttensor":
            ok = re.fullmatch(r"return map_tensor\(\s*" + off + r"\s*,\s*" + d0 + r"\s*\)", st[0])
            shape = "the dimensions `dims0 dims k`"
        else:
            ok = re.fullmatch(r"return map_matrix\(\s*" + off + r"\s*,\s*rows\(\)\s*,\s*cols\(\)\s*\)", st[0])
            shape = "`rows() x cols()` (the last two dimensions)"
        if not ok:
            raise TranslateError(f"{what}: `{st[0]}` is not the view at `ptr + offset0(indices...)` with {shape}")
    out.append(f"section\n{INDEX_VARS}\n\n"
               f"/-- `tensor_t::tvector / tmatrix / ttensor(ptr, indices...)` ({TENSOR}): all three start at `ptr + offset0(indices...)` -/\n"
               f"def viewOffset (dims idx : List α) : Option α := TensorIndex.index0 dims idx\n\n"
               f"/-- `ttensor`: the dimensions `::nano::dims0(dims(), indices...)`; `k` = the number of indices -/\n"
               f"def ttensorDims (dims : List α) (k : Nat) : List α := TensorIndex.dims0 dims k\n\n"
               f"/-- `tvector`: the length `::nano::size(::nano::dims0(dims(), indices...))` -/\n"
               f"def tvectorSize (dims : List α) (k : Nat) : α := TensorIndex.size (TensorIndex.dims0 dims k)\n\nend\n")
    return "\n".join(out)


def gen_reshape(src):
    what = "tensor_t::treshape"
    m = re.search(r"\bauto\s+treshape\s*\(\s*tdata\s+(" + ID + r")\s*,\s*tsizes\s*\.\.\.\s*(" + ID + r")\s*\)\s*const\s*\{", src)
    if not m:
        raise TranslateError(f"definition of {what} not found")
    ptr, sizes = m.groups()
    body = squeeze(block_after(src, m.end() - 1)[0])
    mm = re.fullmatch(r"auto (" + ID + r") = ::nano::make_dims\(\s*" + sizes + r"\s*\.\.\.\s*\)\s*; "
                      r"for \(auto\s*&\s*(" + ID + r") : (" + ID + r")\) \{ assert\((.*?)\); if \((.*?)\) \{ (" + ID + r") = ([^;{}]*); \} \} "
                      r"assert\((.*?)\); return map_tensor\(\s*" + ptr + r"\s*,\s*(" + ID + r")\s*\)\s*;", body)
    if not mm:
        raise TranslateError(f"{what}: `dimensions = make_dims(sizes...); for (auto& dim : dimensions) {{ assert(c); if (c) {{ dim = e; }} }} "
                             "assert(c); return map_tensor(ptr, dimensions);` expected")
    dn, dim, over, a1, c, lhs, val, a2, ret = mm.groups()
    if over != dn or ret != dn or lhs != dim:
        raise TranslateError(f"{what}: loop / assignment / result do not use `{dn}` and `{dim}` as expected")
    prod = r"::nano::size\(\s*" + dn + r"\s*\)"
    sub = lambda s: re.sub(r"\bsize\(\s*\)", " TOTAL__ ", re.sub(prod, " PROD__ ", s))
    bind = {dim: "dim", "TOTAL__": "total", "PROD__": "p"}
    for s in (a1, c):
        if re.search(prod, s) or re.search(r"\bsize\(", s):
            raise TranslateError(f"{what}: the per-entry conditions are expected to depend on the entry only")
    e_a1 = expr(a1, bind, what, cond=True, cls=IntParser)
    e_c = expr(c, bind, what, cond=True, cls=IntParser)
    e_val = expr(sub(val), bind, what, cls=IntParser)
    e_a2 = expr(sub(a2), bind, what, cond=True, cls=IntParser)
    divides_by_p = "Int.tdiv" in e_val
    if divides_by_p and not re.search(r"\(Int\.tdiv [^()]*(?:\([^()]*\))?[^()]* p\)$", e_val):
        raise TranslateError(f"{what}: the inferred entry divides by something else than the product of the entries")
    zero_guard = "if p = 0 then none else " if divides_by_p else ""
    return (f"/-- first `assert` of the loop of `{what}` ({TENSOR}) -/\ndef reshapeDimAssert (dim : Int) : Bool := {e_a1}\n\n"
            f"/-- the entry is to be inferred -/\ndef reshapeIsWildcard (dim : Int) : Bool := {e_c}\n\n"
            f"/-- the inferred entry; `total` = `size()`, `p` = `::nano::size(dimensions)` at that moment (C++ `/` truncates) -/\n"
            f"def reshapeInferred (total p : Int) : Int := {e_val}\n\n"
            f"/-- the `assert` after the loop -/\ndef reshapeFinalAssert (total p : Int) : Bool := {e_a2}\n\n"
            f"/-- `::nano::size(dimensions)` over `tensor_size_t` -/\ndef iprod (ds : List Int) : Int := TensorIndex.size ds\n\n"
            f"/-- the loop `for (auto& dim : dimensions)`: `pre` = the entries already visited (possibly replaced), then the entry and the\n"
            f"    entries still to come; `none` where the first assert fires" + (" or the C++ code divides by zero" if divides_by_p else "") + " -/\n"
            f"def reshapeLoop (total : Int) : List Int → List Int → Option (List Int)\n"
            f"  | pre, [] => some pre\n"
            f"  | pre, dim :: rest =>\n"
            f"    if reshapeDimAssert dim then\n"
            f"      if reshapeIsWildcard dim then\n"
            f"        let p := iprod (pre ++ dim :: rest)\n"
            f"        {zero_guard}reshapeLoop total (pre ++ [reshapeInferred total p]) rest\n"
            f"      else reshapeLoop total (pre ++ [dim]) rest\n"
            f"    else none\n\n"
            f"/-- `{what}(ptr, sizes...)`: the dimensions of the result, `none` where an assert fires -/\n"
            f"def reshape (total : Int) (sizes : List Int) : Option (List Int) :=\n"
            f"  match reshapeLoop total [] sizes with\n"
            f"  | none => none\n"
            f"  | some ds => if reshapeFinalAssert total (iprod ds) then some ds else none\n")


def gen_arange(src):
    m = re.search(r"\barange\s*\(\s*const\s+tensor_size_t\s+(" + ID + r")\s*,\s*const\s+tensor_size_t\s+(" + ID + r")\s*\)\s*\{", src)
    if not m:
        raise TranslateError("definition of arange not found")
    lo, hi = m.groups()
    st = statements(block_after(src, m.end() - 1)[0], "arange")
    if len(st) != 4:
        raise TranslateError("arange: `assert(c); indices_t v(e); v.lin_spaced(e, e); return v;` expected")
    m0 = re.fullmatch(r"assert\((.*)\)", st[0])
    m1 = re.fullmatch(r"indices_t (" + ID + r")\((.*)\)", st[1])
    if not m0 or not m1:
        raise TranslateError(f"arange: `{st[0]}; {st[1]}` not understood")
    v = m1.group(1)
    m2 = re.fullmatch(v + r"\.lin_spaced\((.*)\)", st[2])
    if not m2 or st[3] != "return " + v:
        raise TranslateError(f"arange: `{st[2]}; {st[3]}` not understood")
    args = split_params(m2.group(1))
    if len(args) != 2:
        raise TranslateError("arange: lin_spaced(min, max) expected")
    bind = {lo: "lo", hi: "hi"}
    return (f"/-- `arange(min, max)` ({TENSOR}): its assert, the length of the result, the two arguments of `lin_spaced` -/\n"
            f"def arangeAssert (lo hi : Int) : Bool := {expr(m0.group(1), bind, 'arange', cond=True, cls=IntParser)}\n"
            f"def arangeSize (lo hi : Int) : Int := {expr(m1.group(2), bind, 'arange', cls=IntParser)}\n"
            f"def arangeFirst (lo hi : Int) : Int := {expr(args[0], bind, 'arange', cls=IntParser)}\n"
            f"def arangeLast (lo hi : Int) : Int := {expr(args[1], bind, 'arange', cls=IntParser)}\n")


HEADER_GUARDS = f"""-- GENERATED by tools/props/c16.py (c16_translate.py) from {RANGE}, {TENSOR} — do not edit
import NanoVerif.Gen.TensorIndex
/-
  Guards (`assert`s), derived dimensions and offsets of the range / slice / reshape / arange code over `Int` (`tensor_size_t` is the
  signed `Eigen::Index`). `decide (…)` of the C++ condition; `a / b` is `Int.tdiv a b`.
-/
set_option linter.unusedVariables false
namespace NanoVerif.Gen.TensorGuards
open NanoVerif.Gen
"""


INDEX_VARS = None


def generate_guards(repo):
    if INDEX_VARS is None:
        generate_index(repo)
    rng = strip_comments(read(repo, RANGE)); ten = strip_comments(read(repo, TENSOR))
    return "\n".join([HEADER_GUARDS, gen_range(rng), gen_slice(ten), gen_views(ten), gen_reshape(ten), gen_arange(ten), "end NanoVerif.Gen.TensorGuards\n"])


# ---------------------------------------------------------------------------------------------------------------------
# integral.h: the summed-area recurrence

OUT_INTEGRAL = os.path.join(vlib.LEAN, "NanoVerif", "Gen", "TensorIntegral.lean")
INTEGRAL = "include/nano/tensor/integral.h"

HEADER_INTEGRAL = f"""-- GENERATED by tools/props/c16.py (c16_translate.py) from {INTEGRAL} — do not edit
import NanoVerif.Model.Tensor
/-
  The two loops of `integral_t<trank>::get` / `integral_t<1>::get` as recursions over the list of the first-axis sub-tensors
  (`itensor.tensor(i0)` = row `i0` of `rows (size inner-dims) size0 data`, the model's splitting; `a.vector(i0) += b` = `zipAdd`), the
  loop index kept explicit where the C++ code tests it. Generic over the scalar.
-/
set_option linter.unusedVariables false
namespace NanoVerif.Gen.TensorIntegral
open NanoVerif.Tensor

section
variable {{α : Type}} [Add α]
"""


def get_of(src, head_regex, what):
    m = re.search(head_regex + r"\s*\{", src)
    if not m:
        raise TranslateError(f"{what} not found")
    blk = block_after(src, m.end() - 1)[0]
    g = re.search(r"static\s+void\s+get\s*\(", blk)
    if not g:
        raise TranslateError(f"{what}::get not found")
    i = g.end(); depth = 1
    while depth:
        if i >= len(blk):
            raise TranslateError(f"{what}::get: unbalanced parentheses")
        depth += (blk[i] == "(") - (blk[i] == ")"); i += 1
    ps = split_params(blk[g.end():i - 1])
    if len(ps) != 2:
        raise TranslateError(f"{what}::get: two parameters expected")
    b = re.compile(r"\s*\{").match(blk, i)
    if not b:
        raise TranslateError(f"{what}::get: body not found")
    return param_name(ps[0], what), param_name(ps[1], what), squeeze(block_after(blk, b.end() - 1)[0])


def gen_integral(src):
    FOR = r"for \(tensor_size_t (" + ID + r") = (\d+), (" + ID + r") = {it}\.template size\s*<\s*0\s*>\s*\(\); (" + ID + r") < (" + ID + r"); \+\+(" + ID + r")\) \{{ (.*) \}}"
    # rank 1
    what = "integral_t<1>"
    it, ot, body = get_of(src, r"template\s*<\s*>\s*struct\s+integral_t\s*<\s*1\s*>", what)
    m = re.fullmatch(ot + r"\(0\) = ([^;]*); " + FOR.format(it=it), body)
    if not m:
        raise TranslateError(f"{what}::get: `o(0) = e; for (i0 = 1, size0 = i.size<0>(); i0 < size0; ++i0) {{ o(i0) = e; }}` expected")
    e0, i0, start, s0, a, b, c, inner = m.groups()
    if not (a == c == i0 and b == s0) or start != "1":
        raise TranslateError(f"{what}::get: the loop is not `i0 = 1 … i0 < size0; ++i0`")
    mm = re.fullmatch(ot + r"\(" + i0 + r"\) = ([^;{}]*);", inner)
    if not mm:
        raise TranslateError(f"{what}::get: loop body `{inner}` not understood")
    sub1 = lambda t: re.sub(ot + r"\(\s*" + i0 + r"\s*-\s*1\s*\)", " PREV__ ", re.sub(it + r"\(\s*" + i0 + r"\s*\)", " X__ ", t))
    e_step = expr(sub1(mm.group(1)), {"PREV__": "prev", "X__": "x"}, what)
    e_init = expr(re.sub(it + r"\(\s*0\s*\)", " X__ ", e0), {"X__": "x"}, what)
    out = [f"/-- the loop of `{what}::get` ({INTEGRAL}) from `i0 = 1` on: `prev` = `otensor(i0 - 1)`, `x` = `itensor(i0)` -/\n"
           f"def integral1Go : α → List α → List α\n  | _, [] => []\n  | prev, x :: xs => let o := {e_step}; o :: integral1Go o xs\n",
           f"/-- `{what}::get`: `otensor(0) = …`, then the loop (never called on an empty tensor: `integral` tests `size() > 0`) -/\n"
           f"def integral1 : List α → List α\n  | [] => []\n  | x :: xs => let o := {e_init}; o :: integral1Go o xs\n"]
    # rank n
    what = "integral_t<trank>"
    it, ot, body = get_of(src, r"template\s*<\s*size_t\s+trank\s*>\s*struct\s+integral_t", what)
    m = re.fullmatch(FOR.format(it=it), body)
    if not m:
        raise TranslateError(f"{what}::get: `for (i0 = 0, size0 = i.size<0>(); i0 < size0; ++i0) {{ … }}` expected")
    i0, start, s0, a, b, c, inner = m.groups()
    if not (a == c == i0 and b == s0):
        raise TranslateError(f"{what}::get: the loop is not `i0 < size0; ++i0`")
    mm = re.fullmatch(r"integral_t\s*<\s*trank - 1\s*>::get\(\s*" + it + r"\.tensor\(" + i0 + r"\)\s*,\s*" + ot + r"\.tensor\(" + i0 + r"\)\s*\); "
                      r"if \(([^{}]*)\) \{ " + ot + r"\.vector\(" + i0 + r"\) \+= " + ot + r"\.vector\(\s*" + i0 + r"\s*-\s*1\s*\); \}", inner)
    if not mm:
        raise TranslateError(f"{what}::get: loop body is not `integral_t<trank - 1>::get(i.tensor(i0), o.tensor(i0)); if (c) {{ o.vector(i0) += o.vector(i0 - 1); }}`")
    cnd = expr(mm.group(1), {i0: "i0"}, what, cond=True)
    out.append(f"/-- the loop of `{what}::get` from position `i0` on; `inner` = `integral_t<trank - 1>::get` on one sub-tensor, `prev` = row `i0 - 1` of\n"
               f"    the output (read only where the C++ condition holds) -/\n"
               f"def integralRows (inner : List α → List α) : Nat → List α → List (List α) → List (List α)\n"
               f"  | _, _, [] => []\n  | i0, prev, r :: rs =>\n    let o := inner r\n    let o := if {cnd} then zipAdd o prev else o\n"
               f"    o :: integralRows inner (i0 + 1) o rs\n")
    out.append(f"/-- `integral_t<trank>::get` on the row-major buffer of a tensor with dimensions `dims` (rank ≥ 1) -/\n"
               f"def integralData : List Nat → List α → List α\n  | [], xs => xs\n  | [_], xs => integral1 xs\n"
               f"  | d :: d2 :: ds, xs =>\n    (integralRows (integralData (d2 :: ds)) {start} [] (rows (size (d2 :: ds)) d xs)).flatten\n")
    # entry
    m = re.search(r"void\s+integral\s*\(\s*tensor_cmap_t\s*<[^<>]*>\s*(" + ID + r")\s*,\s*tensor_map_t\s*<[^<>]*>\s*(" + ID + r")\s*\)\s*\{", src)
    if not m:
        raise TranslateError("integral(cmap, map) not found")
    it, ot = m.groups()
    body = squeeze(block_after(src, m.end() - 1)[0])
    mm = re.fullmatch(r"assert\(" + it + r"\.dims\(\) == " + ot + r"\.dims\(\)\); if \(([^{}]*)\) \{ integral_t\s*<\s*trank\s*>::get\(\s*" + it + r"\s*,\s*" + ot + r"\s*\); \}", body)
    if not mm:
        raise TranslateError("integral(cmap, map): `assert(i.dims() == o.dims()); if (c) { integral_t<trank>::get(i, o); }` expected")
    g = expr(re.sub(it + r"\.size\(\)", " N__ ", mm.group(1)), {"N__": "n"}, "integral", cond=True)
    out.append(f"/-- the guard of `nano::integral`: `n` = `itensor.size()` -/\ndef integralGuard (n : Nat) : Bool := {g}\n")
    return "\n".join([HEADER_INTEGRAL] + out + ["end\nend NanoVerif.Gen.TensorIntegral\n"])


def generate_integral(repo):
    return gen_integral(strip_comments(read(repo, INTEGRAL)))


# ---------------------------------------------------------------------------------------------------------------------
# algorithm.h: remove_if

OUT_ALGO = os.path.join(vlib.LEAN, "NanoVerif", "Gen", "TensorAlgorithm.lean")
ALGO = "include/nano/tensor/algorithm.h"

HEADER_ALGO = f"""-- GENERATED by tools/props/c16.py (c16_translate.py) from {ALGO} — do not edit
/-
  `remove_if(op, tensors...)`: its two loops as recursions over the list `op(0), op(1), …, op(size - 1)` (the head of the list is the flag
  of the current position), each tensor of the pack as the list of its first-axis sub-tensors; `detail::copy` on such a list.
-/
set_option linter.unusedVariables false
namespace NanoVerif.Gen.TensorAlgorithm
"""


def gen_algorithm(src):
    # detail::copy
    what = "detail::copy"
    m = re.search(r"void\s+copy\s*\(\s*const\s+tensor_size_t\s+(" + ID + r")\s*,\s*const\s+tensor_size_t\s+(" + ID + r")\s*,\s*ttensor\s*&\s*(" + ID + r")\s*\)\s*\{", src)
    if not m:
        raise TranslateError(f"definition of {what} not found")
    p1, p2, tn = m.groups()
    body = squeeze(block_after(src, m.end() - 1)[0])
    mm = re.fullmatch(r"((?:assert\([^;]*\); )*)if constexpr \(ttensor::rank\(\) == 1U?\) \{ " + tn + r"\((" + ID + r")\) = " + tn + r"\((" + ID + r")\); \} "
                      r"else \{ " + tn + r"\.tensor\((" + ID + r")\) = " + tn + r"\.tensor\((" + ID + r")\); \}", body)
    if not mm:
        raise TranslateError(f"{what}: `assert…; if constexpr (rank() == 1) {{ t(a) = t(b); }} else {{ t.tensor(a) = t.tensor(b); }}` expected")
    _, d1, s1, d2, s2 = mm.groups()
    if (d1, s1) != (d2, s2) or {d1, s1} != {p1, p2}:
        raise TranslateError(f"{what}: the two branches do not copy the same pair of positions")
    nm = {p1: "a", p2: "b"}
    out = [HEADER_ALGO,
           f"/-- `{what}(a, b, tensor)` ({ALGO}) on the list of first-axis sub-tensors (release build: asserts compiled out; a position past\n"
           f"    the end leaves the list as it is) -/\n"
           f"def copyRow {{α : Type}} (a b : Nat) (rs : List (List α)) : List (List α) :=\n"
           f"  match rs[{nm[s1]}]? with\n  | some r => rs.set {nm[d1]} r\n  | none => rs\n"]
    # detail::size
    m = re.search(r"auto\s+size\s*\(\s*const\s+ttensor\s*&\s*(" + ID + r")\s*,\s*const\s+ttensors\s*&\s*\.\.\.\s*\)\s*\{", src)
    if not m or squeeze(block_after(src, m.end() - 1)[0]) != f"return {m.group(1)}.template size<0>();":
        raise TranslateError("detail::size: `return tensor.template size<0>();` of the first tensor expected")
    # remove_if
    what = "remove_if"
    m = re.search(r"auto\s+remove_if\s*\(\s*const\s+toperator\s*&\s*(" + ID + r")\s*,\s*ttensors\s*&&\s*\.\.\.\s*(" + ID + r")\s*\)[^{;]*\{", src)
    if not m:
        raise TranslateError(f"definition of {what} not found")
    op, ts = m.groups()
    body = squeeze(block_after(src, m.end() - 1)[0])
    mm = re.fullmatch(r"const auto (" + ID + r") = detail::size\(std::forward<ttensors>\(" + ts + r"\)\.\.\.\); auto (" + ID + r") = tensor_size_t\{(\d+)\}; "
                      r"for \(; (" + ID + r") < (" + ID + r") && ([^;]*); \+\+(" + ID + r")\) \{ \} "
                      r"for \(auto (" + ID + r") = (" + ID + r"); (" + ID + r") < (" + ID + r"); \+\+(" + ID + r")\) "
                      r"\{ if \(([^{}]*)\) \{ \(detail::copy\((" + ID + r"), (" + ID + r"), " + ts + r"\), \.\.\.\); \+\+(" + ID + r"); \} \} return (" + ID + r");", body)
    if not mm:
        raise TranslateError(f"{what}: the two loops are not in the expected form")
    (size, last, init, l1, sz1, c1, l2, curr, cinit, c2a, sz2, c2b, cnd, a, b, l3, ret) = mm.groups()
    if not (l1 == l2 == l3 == ret == cinit == last and sz1 == sz2 == size and c2a == c2b == curr and {a, b} <= {curr, last}):
        raise TranslateError(f"{what}: loop variables are not used as expected")
    e1 = expr(re.sub(op + r"\(\s*" + last + r"\s*\)", " M__ ", c1), {"M__": "(m = true)"}, what, cond=True)
    e2 = expr(re.sub(op + r"\(\s*" + curr + r"\s*\)", " M__ ", cnd), {"M__": "(m = true)"}, what, cond=True)
    nm = {curr: "curr", last: "last"}
    out.append(f"/-- first loop of `{what}`: `for (; last < size && …; ++last) {{}}`; returns `last` and the flags not yet visited -/\n"
               f"def removeIfSkip : List Bool → Nat → Nat × List Bool\n  | [], last => (last, [])\n"
               f"  | m :: ms, last => if {e1} then removeIfSkip ms (last + 1) else (last, m :: ms)\n")
    out.append(f"/-- second loop of `{what}`: `for (curr = last; curr < size; ++curr) if (…) {{ (detail::copy(…, tensors), ...); ++last; }}` -/\n"
               f"def removeIfLoop {{α : Type}} : List Bool → Nat → Nat → List (List (List α)) → Nat × List (List (List α))\n"
               f"  | [], _, last, ts => (last, ts)\n  | m :: ms, curr, last, ts =>\n"
               f"    if {e2} then removeIfLoop ms (curr + 1) (last + 1) (ts.map (copyRow {nm[a]} {nm[b]}))\n"
               f"    else removeIfLoop ms (curr + 1) last ts\n")
    out.append(f"/-- `{what}(op, tensors...)`: `mask[i] = op(i)` for `i < size` = the first dimension of the first tensor; returns the final `last` -/\n"
               f"def removeIf {{α : Type}} (mask : List Bool) (ts : List (List (List α))) : Nat × List (List (List α)) :=\n"
               f"  let r := removeIfSkip mask {init}\n  removeIfLoop r.2 r.1 r.1 ts\n")
    out.append("end NanoVerif.Gen.TensorAlgorithm\n")
    return "\n".join(out)


def generate_algorithm(repo):
    return gen_algorithm(strip_comments(read(repo, ALGO)))


def translate():
    try:
        a = generate_index(vlib.REPO)
        b = generate_guards(vlib.REPO)
        c = generate_integral(vlib.REPO)
        d = generate_algorithm(vlib.REPO)
    except TranslateError as ex:
        raise vlib.Broken("translate", f"c16_translate: {ex}")
    vlib.write_if_changed(OUT_INDEX, a)
    vlib.write_if_changed(OUT_GUARDS, b)
    vlib.write_if_changed(OUT_INTEGRAL, c)
    vlib.write_if_changed(OUT_ALGO, d)
    return [OUT_INDEX, OUT_GUARDS, OUT_INTEGRAL, OUT_ALGO]


if __name__ == "__main__":
    import sys
    repo = sys.argv[1] if len(sys.argv) > 1 else vlib.REPO
    sys.stdout.write(generate_index(repo)); sys.stdout.write(generate_guards(repo)); sys.stdout.write(generate_integral(repo)); sys.stdout.write(generate_algorithm(repo))
