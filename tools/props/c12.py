"""C12 — splitters and samplers return index sets with the promised set structure (DESIGN.md §4 C12)."""
import math, os, re
from fractions import Fraction
import vlib
from vlib import Toks, lst, f2h
from props import c12_translate

ID = "C12"
LEVEL = "proof"
HARNESS = "c12"
LEAN_MODULES = ["NanoVerif.Props.C12"]
NS = "NanoVerif.Split."
OBLIGATIONS = [NS + t for t in [
    "sortI_spec", "kfold_pair", "kfold_partition", "kfold_length",
    "random_pair", "random_train_size", "randomPerms_perm", "split_deterministic",
    "without_replacement_spec", "without_replacement_guard",
    "with_replacement_spec", "with_replacement_guard", "weighted_never_zero",
    "gboost_spec", "ball_inside",
    # gap-closing round: edge cases of sampling.cpp
    "without_full_is_sorted_input", "without_replacement_submultiset", "sampling_zero",
    # sample_from_ball with the rounding of the answer made explicit (Cauchy-Schwarz on lists)
    "dotL_sq_le", "sumSq_add_le", "ball_inside_rounded",
    # make_rng(seed) = minstd_rand, generate_canonical, libstdc++ discrete_distribution as coded
    "lcgSeed_range", "lcgNext_range", "canonNum_pos", "canonNum_lt", "lowerBound_spec", "lowerBound_all_false", "ddCp_get",
    "ddDraw_positive", "weighted_never_zero_model", "weighted_no_comparison_first_sample",
    # gboost::sampler_t as an object (count, weights, generator inside)
    "drawsG_length", "drawsG_forall", "sampler_count_le", "sampler_weights_formula", "sampler_off_spec", "sampler_subsample_spec",
    "sampler_bootstrap_spec", "sampler_weighted_spec", "sampler_mode_spec", "sampler_sample_frame", "sampler_run_spec",
    # splitters as objects: the parameters are the only state
    "Splitter.fresh_ok", "splitter_set_spec", "splitter_seed_restore", "hist_split_function", "hist_clone_copies",
    "hist_objects_oracle_free", "hist_equal_params_equal_splits", "hist_splits_keep_objects",
    # translation round: the model IS the text regenerated from kfold.cpp / random.cpp (Gen/SplitKFold.lean, Gen/SplitRandom.lean)
    "model_kfold_validPieces_is_generated", "model_kfold_trainPieces_is_generated", "model_kfold_sizes_is_generated",
    "gen_kfold_pieces_tile", "model_foldSplit_is_generated", "model_kfold_is_generated",
    "model_random_sizes_is_generated", "model_randomFold_is_generated", "model_random_split_is_generated",
    "model_splitter_split_is_generated",
    # … and from sampling.cpp / random.cpp / random.h (Gen/SplitSampling.lean)
    "gen_generate_eq", "gen_pickAll_eq", "model_make_rng_is_generated", "model_udist_is_generated", "model_withoutG_is_generated",
    "model_sampleWithout_is_generated", "model_withG_is_generated", "model_wwithG_is_generated", "gen_unseeded_wrappers",
    # … and the dispatch of gboost/sampler.cpp (Gen/SplitGboost.lean)
    "model_sampler_sample_is_generated", "model_sampler_count_is_generated", "model_sampler_make_is_generated",
    # the property stated for the regenerated text
    "kfold_split_generated", "random_split_generated", "without_replacement_generated",
]]
TRUSTED = [
    "Lean 4.33.0 kernel; Mathlib modules imported by NanoVerif/Proofs/Split.lean, SplitDiscrete.lean, SplitSampler.lean and NanoVerif/Props/C12.lean",
    "axioms: at most propext, Classical.choice, Quot.sound (audited per theorem on every run)",
    "hand-written model NanoVerif/Model/Split.lean of kfold.cpp / random.cpp / sampling.cpp / gboost/sampler.cpp, tied to the code by the "
    "correspondence run (harness/c12.cpp on the real library vs the compiled Lean driver, exact comparison of every index list)",
    "hand-written model NanoVerif/Model/SplitSampler.lean: make_rng(seed) (std::minstd_rand), libstdc++ 12 generate_canonical<double,53> and "
    "discrete_distribution (_M_initialize, operator(), std::lower_bound) as coded, gboost::sampler_t as an object (constructor, sample, "
    "consecutive calls), the splitters as objects with their registered parameters; tied by the families `sampler`, `wwith` (the driver "
    "computes every weighted draw from the SEED; the positions of the real std::discrete_distribution are only a monitor) and `hist`",
    "tools/props/c12.py: the translator of idiv/iround (numeric.h) and of the splitter parameter domains into NanoVerif/Gen/, "
    "the generator and the set-structure oracle; harness/c12.cpp; g++/libstdc++/Eigen",
    "oracles of the model (inputs of the theorems, reproduced by the harness with the same standard library and checked by the driver "
    "to satisfy their contract on every case): std::shuffle returns a permutation that is a function of the generator state; "
    "uniform_int_distribution(0,n-1) returns a position in range; std::sort returns a sorted permutation (SortSpec, instantiated with "
    "List.mergeSort). No longer an oracle: `discrete_distribution never returns a position of weight 0` is theorem ddDraw_positive / "
    "weighted_never_zero_model about the model of the libstdc++ code in exact arithmetic (binary64 rounding of the cumulative table is "
    "not covered by the theorem; the run-time monitor `zero-weight` of the property oracle stays on every case)",
    "tools/props/c12_translate.py (C++ statements -> Lean; expression parser of c14_translate.py): kfold_splitter_t::split, "
    "random_splitter_t::split, the three sampling overloads with a generator, make_rng, make_udist, gboost::sampler_t (constructor, sample) are re-translated on "
    "every run into Gen/SplitKFold.lean, Gen/SplitRandom.lean, Gen/SplitSampling.lean, Gen/SplitGboost.lean; the hand-written model is proved equal to the generated text "
    "(model_*_is_generated in Proofs/SplitGen.lean, SplitGenSampling.lean, SplitGenGboost.lean), so the translator is trusted instead of the reading "
    "of these functions by hand; Eigen's segment()/slice() on index vectors, std::generate and the pair order of emplace_back are read "
    "as the fixed primitives `segment`, `slice`, `generate`, `pickAll`, `assemble` printed in the generated files",
    "outside: the overloads without a generator argument and make_rng() without seed read std::random_device; their answers go to the "
    "property oracle only (family `unseeded`); splitter_t::all() / the factory is C19's",
]
ASSUMPTIONS = [
    "integer arithmetic of idiv is modelled over Int (no int64 overflow: train_per * n < 2^63)",
    "asserts are compiled out in the release build (-DNDEBUG): count > n for sampling without replacement, an empty sample list for "
    "sampling with replacement with count > 0 and weights LONGER than the samples read outside the tensors and are never executed (the "
    "model returns none there; sampler_count_le shows the gboost caller never asks count > n). Negative, NaN, infinite, all-zero weights "
    "and weights SHORTER than the samples are defined behaviour and ARE executed and compared (exactly) with the model",
    "the property's clause `never an index of zero weight` is evaluated only where it has a valid answer: one finite non-negative weight "
    "per sample, not all zero. With all-zero weights (e.g. every per-sample loss exactly 0) the code returns `count` copies of the FIRST "
    "sample (theorem weighted_no_comparison_first_sample, corpus line): reported as an observation, not a violation",
    "ball_inside is a theorem of exact arithmetic (ordered field) with the 2-norm as an oracle s (s*s = sum of squares); the binary64 "
    "result is only tested (inside the ball up to relative 1e-12)",
    "uniformity of the draws is a statistical property and is not claimed",
    "thorough tier: k-fold on every n in 2..40 x folds in 2..min(n,12) x every seed 0..1024 (the whole parameter domain); the random "
    "splitter on every n x folds x train_per in 10..90 step 10 with 4 seeds each plus every train_per 10..90 for n in 1..40; the quick tier "
    "uses 21 seeds per (n, folds) cell ({0,1,42,1023,1024} + 16 consecutive ones, the block moving through the domain); the theorems cover "
    "every permutation, i.e. every seed",
    "sample_from_ball is compared bit-for-bit in practice (tolerance 1e-12 allowed); its oracle accepts, exactly evaluated over the "
    "rationals, |x - x0| <= radius*(1 + (n+8)*2^-53) + sqrt(sum_k (ulp(x_k)/2 + 2^-1073)^2): the first allowance is the rounding of the "
    "displacement (relative to the radius), the second the rounding of x0_k + d_k to binary64 (half an ulp of the RESULT coordinate, "
    "i.e. of the size ulp(|x0|), independent of the radius); radii from 5e-324 to 1e290 and centres up to 1e300 are generated",
]
RULE = ("corpus; exhaustive n in 2..40 x folds in 2..min(n,12) for k-fold (quick: seeds {0,1,42,1023,1024} + 16 moving through the domain per cell; "
        "thorough: all 1025 seeds) and x train_per in 10..90 step 10 for the random splitter (1 / 4 seeds per cell) plus arbitrary train_per; "
        "sample values non-contiguous, sometimes unordered; folds > n, n in {0,1}, folds at the domain bounds; parameter values outside the "
        "domains; random n up to 5000; sampling with/without replacement for every count 0..n (n <= 16) and random counts (n up to 5000); "
        "weighted sampling with zero weights and a single positive weight; the gboost sampler in its five modes with 1-3 consecutive calls; "
        "sample_from_ball in every dimension 1..50, radii 1e-6..1e6 plus radii down to denormals with centres up to 1e300; histories over "
        "splitter objects (split twice, clone after a split, change and restore the seed, refused values, random commands); sampler_t "
        "objects in five modes with 1-4 calls and zero / NaN / infinite / negative / underflowing losses and gradients, compared with a twin "
        "object; weighted sampling with odd weights (zero, NaN, inf, negative, short, denormal); unsorted inputs with duplicates; the "
        "overloads without a generator (oracle only). A case is non-trivial when n mod folds != 0 (k-fold), when "
        "train_per*n/100 is not an integer (random), when count > 0 (samplers), mode != off (gboost), always for the ball; distinct by op text")
FLAVOUR = {"quick": "plain", "thorough": "asan"}
EXHAUSTIVE = {"quick": False, "thorough": True}
HARNESS_TIMEOUT = 1800
BALL_RTOL = 1e-12

NUMERIC_H = os.path.join(vlib.REPO, "include", "nano", "core", "numeric.h")
SPLITTER_CPP = os.path.join(vlib.REPO, "src", "splitter.cpp")
RANDOM_CPP = os.path.join(vlib.REPO, "src", "splitter", "random.cpp")
GEN_NUMERIC = os.path.join(vlib.LEAN, "NanoVerif", "Gen", "Numeric.lean")
GEN_PARAMS = os.path.join(vlib.LEAN, "NanoVerif", "Gen", "SplitterParams.lean")


# ---------------------------------------------------------------------------------------------------------
# translator: idiv / iround of numeric.h -> Lean definitions over Int; parameter domains of the splitters -> Nat constants

_TOK = re.compile(r"\s*(?:(\d+)|([A-Za-z_][A-Za-z_0-9]*(?:::[A-Za-z_][A-Za-z_0-9]*)*)|([-+*/(),<>]))")


def _tokenize(s):
    out, i = [], 0
    while i < len(s):
        if not s[i:].strip():
            break
        m = _TOK.match(s, i)
        if not m:
            raise vlib.Broken("translate", f"numeric.h: cannot tokenize `{s[i:i+40]}`")
        out.append(("num", m.group(1)) if m.group(1) else ("id", m.group(2)) if m.group(2) else ("op", m.group(3)))
        i = m.end()
    return out


class _Expr:
    """integer expressions: + - * / (truncating), parentheses, static_cast<T>(e) (identity), calls of already translated functions"""
    def __init__(self, toks, params, known):
        self.t, self.i, self.params, self.known = toks, 0, params, known

    def peek(self):
        return self.t[self.i] if self.i < len(self.t) else ("eof", "")

    def eat(self, v=None):
        k = self.peek()
        if v is not None and k[1] != v:
            raise vlib.Broken("translate", f"numeric.h: expected `{v}`, found `{k[1]}`")
        self.i += 1
        return k

    def expr(self):
        a = self.term()
        while self.peek()[1] in ("+", "-"):
            op = self.eat()[1]
            a = f"({a} {op} {self.term()})"
        return a

    def term(self):
        a = self.unary()
        while self.peek()[1] in ("*", "/"):
            op = self.eat()[1]
            b = self.unary()
            a = f"(Int.tdiv {a} {b})" if op == "/" else f"({a} * {b})"
        return a

    def unary(self):
        if self.peek()[1] == "-":
            self.eat()
            return f"(-{self.unary()})"
        return self.primary()

    def primary(self):
        k = self.eat()
        if k[0] == "num":
            return k[1]
        if k[1] == "(":
            e = self.expr()
            self.eat(")")
            return e
        if k[0] == "id":
            if k[1] == "static_cast":
                self.eat("<")
                ty = self.eat()
                if ty[0] != "id":
                    raise vlib.Broken("translate", "numeric.h: static_cast to a non-identifier type")
                self.eat(">")
                self.eat("(")
                e = self.expr()
                self.eat(")")
                return e
            if self.peek()[1] == "(":
                if k[1] not in self.known:
                    raise vlib.Broken("translate", f"numeric.h: call of unknown function `{k[1]}`")
                self.eat("(")
                args = [self.expr()]
                while self.peek()[1] == ",":
                    self.eat()
                    args.append(self.expr())
                self.eat(")")
                if len(args) != self.known[k[1]]:
                    raise vlib.Broken("translate", f"numeric.h: arity of `{k[1]}`")
                return "(" + " ".join([k[1]] + args) + ")"
            if k[1] in self.params:
                return k[1]
            raise vlib.Broken("translate", f"numeric.h: unbound identifier `{k[1]}`")
        raise vlib.Broken("translate", f"numeric.h: unexpected token `{k[1]}`")


def _translate_fn(src, name, known):
    """`template <...> T name(T1 a, T2 b) noexcept { return EXPR; }` -> (params, lean expression, source text)"""
    m = re.search(r"\b[A-Za-z_]\w*\s+" + re.escape(name) + r"\s*\(([^)]*)\)\s*(?:noexcept)?\s*\{([^{}]*)\}", src)
    if not m:
        raise vlib.Broken("translate", f"numeric.h: function `{name}` not found")
    params = []
    for p in m.group(1).split(","):
        w = p.split()
        if len(w) != 2 or not re.fullmatch(r"[A-Za-z_]\w*", w[1]):
            raise vlib.Broken("translate", f"numeric.h: parameter list of `{name}`: `{m.group(1)}`")
        params.append(w[1])
    body = m.group(2).strip()
    r = re.fullmatch(r"return\s+(.*?);", body, re.S)
    if not r:
        raise vlib.Broken("translate", f"numeric.h: body of `{name}` is not a single return statement: `{body[:80]}`")
    p = _Expr(_tokenize(r.group(1)), params, known)
    e = p.expr()
    if p.peek()[0] != "eof":
        raise vlib.Broken("translate", f"numeric.h: trailing tokens in `{name}`")
    return params, e, " ".join(r.group(0).split())


def _domain(src, fname, pname):
    m = re.search(r'make_integer\(\s*"' + re.escape(pname) + r'"\s*,\s*(\d+)\s*,\s*(LE|LT)\s*,\s*(\d+)\s*,\s*(LE|LT)\s*,\s*(\d+)\s*\)', src)
    if not m:
        raise vlib.Broken("translate", f"{fname}: integer parameter `{pname}` not found")
    lo, c1, dv, c2, hi = int(m.group(1)), m.group(2), int(m.group(3)), m.group(4), int(m.group(5))
    return (lo if c1 == "LE" else lo + 1), dv, (hi if c2 == "LE" else hi - 1)


def domains():
    s1, s2 = open(SPLITTER_CPP).read(), open(RANDOM_CPP).read()
    return dict(folds=_domain(s1, "splitter.cpp", "splitter::folds"), seed=_domain(s1, "splitter.cpp", "splitter::seed"),
                trainPer=_domain(s2, "splitter/random.cpp", "splitter::random::train_per"))


def translate():
    src = open(NUMERIC_H).read()
    known, defs = {}, []
    for name in ("idiv", "iround"):
        params, e, text = _translate_fn(src, name, known)
        if e.startswith("(") and e.endswith(")"):
            e = e[1:-1] if _balanced(e[1:-1]) else e
        defs.append(f"/-- source: `{text}` -/\ndef {name} ({' '.join(params)} : Int) : Int := {e}\n")
        known[name] = len(params)
    out = ("-- GENERATED by tools/props/c12.py from include/nano/core/numeric.h — do not edit\n"
           "/-! `idiv`, `iround` over `Int`: the C++ `/` on signed integers truncates toward zero (`Int.tdiv`); a `static_cast`\n"
           "    between integral types is the identity (overflow is not modelled). -/\n"
           "namespace NanoVerif.Gen\n\n" + "\n".join(defs) + "\nend NanoVerif.Gen\n")
    vlib.write_if_changed(GEN_NUMERIC, out)
    d = domains()
    lines = ["-- GENERATED by tools/props/c12.py from src/splitter.cpp, src/splitter/random.cpp — do not edit",
             "/-! inclusive domains `[min, max]` and defaults of the integer parameters of the splitters -/",
             "namespace NanoVerif.Gen.Splitter\n"]
    for k, (lo, dv, hi) in d.items():
        lines += [f"def {k}Min : Nat := {lo}", f"def {k}Default : Nat := {dv}", f"def {k}Max : Nat := {hi}"]
    lines.append("\nend NanoVerif.Gen.Splitter\n")
    vlib.write_if_changed(GEN_PARAMS, "\n".join(lines))
    # kfold.cpp / random.cpp / sampling.cpp statement by statement (Gen/SplitKFold.lean, Gen/SplitRandom.lean, Gen/SplitSampling.lean)
    c12_translate.translate()


def _balanced(s):
    d = 0
    for c in s:
        d += (c == "(") - (c == ")")
        if d < 0:
            return False
    return d == 0


# ---------------------------------------------------------------------------------------------------------
# generator

FIXED_SEEDS = [0, 1, 42, 1023, 1024]
MODES = ["off", "subsample", "bootstrap", "wei_loss_bootstrap", "wei_grad_bootstrap"]


def make_samples(rng, n, lo=0, hi=None):
    """n distinct, non-contiguous sample indices; mostly increasing (as arange-like inputs), sometimes in arbitrary order"""
    if hi is not None:  # distinct values inside [lo, hi)
        vals = sorted(rng.shuffle(range(lo, hi))[:n])
    else:
        v = lo + rng.range(0, 50)
        vals = []
        for _ in range(n):
            vals.append(v)
            v += rng.range(1, 4) if rng.chance(0.8) else rng.range(5, 1000)
    if rng.chance(0.3):
        vals = rng.shuffle(vals)
    return vals


def kfold_op(samples, folds, seed):
    return f"split kfold {lst(samples)} {folds} {seed}"


def random_op(samples, folds, seed, tp):
    return f"split random {lst(samples)} {folds} {seed} {tp}"


def weights_with_zeros(rng, n):
    """non-negative weights, many of them zero, at least one positive, finite sum"""
    w = [0.0 if rng.chance(0.4) else rng.choice([1.0, 0.5, 2.0, 1e-300, rng.uniform(0.0, 10.0)]) for _ in range(n)]
    if rng.chance(0.1):
        w[rng.below(n)] = 1e300
    if max(w) <= 0.0:
        w[rng.below(n)] = rng.choice([1.0, 1e-300, 7.25])
    return w


def gboost_op(rng, mode, n, ratio, calls):
    total = n + rng.range(0, 6)
    gdim = rng.range(1, 3) if mode == "wei_grad_bootstrap" else 1
    samples = make_samples(rng, n, 0, total)
    values = [0.0] * (total * gdim)
    per = weights_with_zeros(rng, total)
    if mode == "wei_grad_bootstrap":  # the weight is a 2-norm: keep the squares inside the binary64 range
        per = [1.5 if (w != 0.0 and not 1e-100 < w < 1e100) else w for w in per]
    # make sure at least one *selected* sample has a positive weight
    if all(per[s] == 0.0 for s in samples):
        per[samples[0]] = 1.0
    for i in range(total):
        if gdim == 1:
            values[i] = per[i] if mode != "wei_grad_bootstrap" or rng.chance(0.5) else -per[i]
        elif per[i] != 0.0:
            for g in range(gdim):
                values[i * gdim + g] = rng.uniform(-3.0, 3.0) if rng.chance(0.7) else 0.0
            if all(values[i * gdim + g] == 0.0 for g in range(gdim)):
                values[i * gdim] = 1.0
    return f"split gboost {mode} {lst(samples)} {rng.range(0, 1024)} {f2h(ratio)} {calls} {total} {gdim} {lst(values, f2h)}"


def ball_op(rng, dim=None):
    n = dim if dim is not None else rng.range(1, 50)
    radius = 10.0 ** rng.uniform(-6.0, 6.0)
    if rng.chance(0.15):
        radius = rng.choice([1e-6, 1e6, 1.0])
    scale = rng.choice([0.0, radius, radius * 1e3, 1.0, 1e3])
    x0 = [rng.uniform(-1.0, 1.0) * scale for _ in range(n)]
    return f"split ball {lst(x0, f2h)} {f2h(radius)} {rng.range(0, 1 << 31)}"



def loss_values(rng, total, gdim, kind):
    """the flat total x gdim values of one sampler call (loss = first of the row, gradient = the row)"""
    if kind == "zero":
        return [0.0] * (total * gdim)
    per = weights_with_zeros(rng, total)
    per = [1.5 if (w != 0.0 and not 1e-100 < w < 1e100) else w for w in per]
    values = [0.0] * (total * gdim)
    for i in range(total):
        if per[i] != 0.0:
            for g in range(gdim):
                values[i * gdim + g] = per[i] * rng.uniform(-1.0, 1.0) if (g > 0 and rng.chance(0.7)) else (per[i] if g == 0 else 0.0)
    if kind == "nan":
        values[rng.below(total) * gdim] = float("nan")
    elif kind == "inf":
        values[rng.below(total) * gdim] = float("inf")
    elif kind == "negative":
        for _ in range(rng.range(1, 3)):
            values[rng.below(total) * gdim] = -rng.uniform(0.1, 5.0)
    elif kind == "equal":
        values = [1.0 if g == 0 else 0.0 for _ in range(total) for g in range(gdim)]
    elif kind == "tiny":  # squares underflow: the gradient norm is exactly 0 although the gradient is not
        values = [rng.choice([1e-200, -1e-180, 0.0, 1.0]) for _ in range(total * gdim)]
    return values


def sampler_op(rng, mode, n, ratio, calls, kinds=None, unordered=False):
    total = n + rng.range(0, 6)
    gdim = rng.range(1, 4) if mode == "wei_grad_bootstrap" else rng.range(1, 2)
    samples = make_samples(rng, n, 0, total)
    if unordered:
        samples = rng.shuffle(samples)
    vals = []
    for c in range(calls):
        kind = kinds[c] if kinds else rng.choice(["plain", "plain", "plain", "zero", "nan", "inf", "negative", "equal", "tiny"])
        vals.append(lst(loss_values(rng, total, gdim, kind), f2h))
    return f"split sampler {mode} {lst(samples)} {rng.range(0, 1024)} {f2h(ratio)} {total} {gdim} {calls} " + " ".join(vals)


def hist_op(rng, kind, k, scripted=None):
    """a history over splitter objects: parameter changes (valid and refused), splits, clones"""
    n = rng.range(1, 24)
    samples = make_samples(rng, n)
    slots = 1
    cmds = []
    if scripted == "twice":       # the same object asked twice, then a clone taken after the splits
        cmds = [f"split 0 {lst(samples)}", f"split 0 {lst(samples)}", "clone 0", f"split 1 {lst(samples)}", f"split 0 {lst(samples)}"]
    elif scripted == "restore":   # change the seed and restore it: the split must come back
        s0 = rng.range(0, 1024)
        cmds = [f"set 0 seed {s0}", f"set 0 folds {rng.range(2, 6)}", f"split 0 {lst(samples)}", f"set 0 seed {(s0 + 1 + rng.below(1024)) % 1025}",
                f"split 0 {lst(samples)}", f"set 0 seed {s0}", f"split 0 {lst(samples)}", "clone 0", f"split 1 {lst(samples)}"]
    elif scripted == "refused":   # a refused value must leave the object as it was
        cmds = [f"set 0 folds {rng.range(2, 5)}", f"split 0 {lst(samples)}", f"set 0 folds {rng.choice([0, 1, 101, -3, 1 << 40])}",
                f"set 0 seed {rng.choice([1025, -1, 1 << 33])}", f"set 0 train_per {rng.choice([9, 91, 50])}", f"split 0 {lst(samples)}"]
    else:
        for _ in range(k):
            c = rng.below(10)
            slot = rng.below(slots) if not rng.chance(0.03) else slots + rng.below(2)
            if c < 4:
                other = make_samples(rng, rng.range(0, 12)) if rng.chance(0.3) else samples
                cmds.append(f"split {slot} {lst(other)}")
            elif c < 6:
                cmds.append(f"set {slot} seed {rng.choice([0, 1, 42, 1024, rng.range(0, 1024), 1025, -1])}")
            elif c < 8:
                cmds.append(f"set {slot} folds {rng.choice([2, 3, 5, rng.range(2, 12), 100, 1, 101])}")
            elif c < 9:
                cmds.append(f"set {slot} train_per {rng.choice([10, 50, 90, rng.range(10, 90), 9, 91])}")
            else:
                cmds.append(f"clone {slot}")
                if slot < slots:
                    slots += 1
    return f"split hist {kind} {len(cmds)} " + " ".join(cmds)


def odd_weights(rng, n, kind):
    if kind == "zero":
        return [0.0] * n
    w = weights_with_zeros(rng, n)
    if kind == "nan":
        w[rng.below(n)] = float("nan")
    elif kind == "inf":
        w[rng.below(n)] = float("inf")
    elif kind == "negative":
        w[rng.below(n)] = -rng.uniform(0.1, 3.0)
    elif kind == "short":
        w = w[: rng.range(0, n - 1)] if n > 1 else []
    elif kind == "denormal":
        w = [rng.choice([0.0, 5e-324, 1e-310]) for _ in range(n)]
    return w


def with_duplicates(rng, n):
    """unsorted inputs with repeated values"""
    base = make_samples(rng, max(1, n // 2))
    return [rng.choice(base) for _ in range(n)]


def tiny_ball_op(rng):
    """radii down to denormals, centres up to 1e300: the rounding of x0 + d dominates the radius"""
    n = rng.range(1, 50)
    radius = rng.choice([5e-324, 1e-320, 1e-310, 2.2250738585072014e-308, 10.0 ** rng.uniform(-300.0, -6.0), 10.0 ** rng.uniform(-12.0, 0.0),
                         10.0 ** rng.uniform(0.0, 290.0)])
    scale = rng.choice([0.0, 1.0, 1e8, 1e16, 1e100, 1e300, radius * 1e8, radius * 1e9, radius * 1e12, radius * 1e17])
    scale = min(scale, 1e300)
    x0 = [rng.uniform(-1.0, 1.0) * scale for _ in range(n)]
    if rng.chance(0.3):  # one huge coordinate, the others small
        x0 = [v * 1e-30 for v in x0]
        x0[rng.below(n)] = scale if rng.chance(0.5) else -scale
    return f"split ball {lst(x0, f2h)} {f2h(radius)} {rng.range(0, 1 << 31)}"


def gen(rng, tier):
    thorough = tier == "thorough"
    ops = []
    cp = os.path.join(vlib.VERIF, "corpus", "C12", "ops.txt")
    if os.path.exists(cp):
        ops += [l.strip() for l in open(cp) if l.strip() and not l.startswith("#")]

    # -- exhaustive small: k-fold ---------------------------------------------------------------------------
    cells = [(n, k) for n in range(2, 41) for k in range(2, min(n, 12) + 1)]
    cursor = rng.below(1025)
    for (n, k) in cells:
        samples = make_samples(rng, n)
        if thorough:
            seeds = range(1025)  # the whole domain of splitter::seed
        else:
            # stratified: consecutive blocks of the seed domain, so that every seed 0..1024 is used in several cells
            seeds = list(FIXED_SEEDS)
            for _ in range(16):
                seeds.append(cursor % 1025)
                cursor += 1
        for s in seeds:
            ops.append(kfold_op(samples, k, s))
    # more folds than samples (chunk = 0: every sample is validated in the last fold), folds at the domain bounds
    for n, k in [(1, 2), (2, 3), (3, 5), (5, 100), (2, 100), (40, 41), (0, 2), (99, 100), (100, 100), (101, 100)]:
        ops.append(kfold_op(make_samples(rng, n), k, rng.choice(FIXED_SEEDS)))

    # -- exhaustive small: random splitter --------------------------------------------------------------------
    si = rng.below(5)
    for (n, k) in cells:
        for tp in range(10, 91, 10):
            samples = make_samples(rng, n)
            seeds = [FIXED_SEEDS[si % 5]] + [rng.range(0, 1024) for _ in range(3 if thorough else 0)]
            si += 1
            for s in seeds:
                ops.append(random_op(samples, k, s, tp))
    for n, k, tp in [(1, 2, 90), (1, 2, 10), (2, 2, 25), (3, 2, 50), (0, 2, 80), (4, 100, 37), (25, 3, 90), (21, 3, 80)]:
        ops.append(random_op(make_samples(rng, n), k, rng.choice(FIXED_SEEDS), tp))
    for n in range(1, 41):  # every admissible percentage, not only the multiples of ten
        for tp in ([rng.range(10, 90) for _ in range(4)] if not thorough else range(10, 91)):
            ops.append(random_op(make_samples(rng, n), 2, rng.range(0, 1024), tp))

    # -- parameters outside their domains (the setter must refuse them) -------------------------------------
    for k, s in [(1, 0), (0, 0), (101, 0), (2, 1025), (5, 4096)]:
        ops.append(kfold_op(make_samples(rng, 6), k, s))
        ops.append(random_op(make_samples(rng, 6), k, s, 80))
    for tp in [9, 91, 100, 0]:
        ops.append(random_op(make_samples(rng, 6), 2, 42, tp))

    # -- random larger ----------------------------------------------------------------------------------------
    for _ in range(60 if thorough else 8):
        n = rng.choice([rng.range(41, 300), rng.range(300, 5000), 5000, 4999, 1000])
        k = rng.choice([2, 3, 5, 10, rng.range(2, 100), 100])
        ops.append(kfold_op(make_samples(rng, n), k, rng.range(0, 1024)))
        k = rng.choice([2, 3, 5, rng.range(2, 10)])
        ops.append(random_op(make_samples(rng, n), k, rng.range(0, 1024), rng.range(10, 90)))

    # -- samplers -----------------------------------------------------------------------------------------------
    reps = 6 if thorough else 2
    for n in range(0, 17):
        for count in range(0, n + 1):
            for _ in range(reps):
                ops.append(f"split without {lst(make_samples(rng, n))} {count} {rng.range(0, 1 << 20)}")
    for n in range(1, 17):
        for count in list(range(0, n + 1)) + [n + 1, 2 * n + 3]:
            for _ in range(reps):
                ops.append(f"split with {lst(make_samples(rng, n))} {count} {rng.range(0, 1 << 20)}")
                w = weights_with_zeros(rng, n)
                ops.append(f"split wwith {lst(make_samples(rng, n))} {lst(w, f2h)} {count} {rng.range(0, 1 << 20)}")
    for _ in range(40 if thorough else 6):
        n = rng.choice([rng.range(17, 200), rng.range(200, 5000), 5000])
        samples = make_samples(rng, n)
        ops.append(f"split without {lst(samples)} {rng.choice([0, n, n - 1, rng.range(0, n)])} {rng.range(0, 1 << 20)}")
        ops.append(f"split with {lst(samples)} {rng.choice([0, n, 2 * n, rng.range(0, n)])} {rng.range(0, 1 << 20)}")
        w = weights_with_zeros(rng, n)
        ops.append(f"split wwith {lst(samples)} {lst(w, f2h)} {rng.choice([n, rng.range(0, 2 * n)])} {rng.range(0, 1 << 20)}")
    # few draws out of many (count well below n / 16): any 'fast path' for sparse selections must still return DISTINCT indices
    # (seeded change C12-h2: rejection of repeats by a binary search over an unsorted prefix); count^2 / (2 n) ~ 1..5 expected
    # collisions of independent draws per case
    rs = rng.fork()
    for _ in range(120 if thorough else 24):
        n = rs.choice([400, 800, 1600, 3200, rs.range(200, 5000)])
        count = max(3, min(n // 16 - 1, int((rs.uniform(2.0, 10.0) * n) ** 0.5)))
        ops.append(f"split without {lst(make_samples(rs, n))} {count} {rs.range(0, 1 << 20)}")
    # a single positive weight: every draw must hit it
    for n in range(1, 12):
        w = [0.0] * n
        w[rng.below(n)] = rng.choice([1.0, 1e-300, 3.5])
        ops.append(f"split wwith {lst(make_samples(rng, n))} {lst(w, f2h)} {n + 2} {rng.range(0, 1 << 20)}")

    # -- gboost sampler -------------------------------------------------------------------------------------------
    for mode in MODES:
        for n in list(range(1, 21)) + ([rng.range(21, 400) for _ in range(10)] if thorough else [rng.range(21, 400)]):
            for ratio in [1.0, 0.5, 0.1, rng.uniform(0.01, 1.0), rng.choice([0.3, 0.7, 0.9, 0.29, 0.57, 1.0 / 3.0])]:
                ops.append(gboost_op(rng, mode, n, ratio, rng.range(1, 3)))

    # -- ball -----------------------------------------------------------------------------------------------------
    for d in range(1, 51):
        ops.append(ball_op(rng, d))
    for _ in range(1000 if thorough else 50):
        ops.append(ball_op(rng))

    # -- gap-closing round: objects, edge cases, unseeded overloads ----------------------------------------------------
    for kind in ("kfold", "random"):
        for scripted in ("twice", "restore", "refused"):
            for _ in range(12 if thorough else 4):
                ops.append(hist_op(rng, kind, 0, scripted))
        for _ in range(200 if thorough else 40):
            ops.append(hist_op(rng, kind, rng.range(2, 14)))
    for mode in MODES:
        for n in list(range(1, 9)) + [rng.range(9, 60) for _ in range(6 if thorough else 2)] + [rng.range(60, 600)]:
            for ratio in [1.0, rng.choice([0.5, 0.1, 0.9]), rng.uniform(0.01, 1.0)]:
                ops.append(sampler_op(rng, mode, n, ratio, rng.range(1, 4), unordered=rng.chance(0.3)))
        if mode.startswith("wei"):
            for kind in ["zero", "nan", "inf", "negative", "equal", "tiny"]:
                for n in [1, 2, 3, rng.range(4, 30)]:
                    ops.append(sampler_op(rng, mode, n, rng.choice([1.0, 0.5, 0.75]), 3, kinds=["plain", kind, "plain"]))
    for kind in ["zero", "nan", "inf", "negative", "short", "denormal"]:
        for n in [1, 2, 3, 5, rng.range(6, 40)] + ([rng.range(40, 2000)] if thorough else []):
            for _ in range(3 if thorough else 1):
                ops.append(f"split wwith {lst(make_samples(rng, n))} {lst(odd_weights(rng, n, kind), f2h)} {rng.choice([0, 1, n, 2 * n + 1])} {rng.range(0, 1 << 20)}")
    for n in list(range(1, 13)) + [rng.range(13, 300)]:   # unsorted inputs with duplicates: count = n, 0 and in between
        for count in sorted({0, n, n - 1, rng.range(0, n)}):
            d = with_duplicates(rng, n)
            ops.append(f"split without {lst(d)} {count} {rng.range(0, 1 << 20)}")
            ops.append(f"split with {lst(d)} {count} {rng.range(0, 1 << 20)}")
        u = rng.shuffle(make_samples(rng, n))
        ops.append(f"split without {lst(u)} {n} {rng.range(0, 1 << 20)}")
    for _ in range(20 if thorough else 6):
        n = rng.range(1, 40)
        smp = rng.shuffle(make_samples(rng, n))
        ops.append(f"split unseeded without {lst(smp)} {rng.choice([0, n, rng.range(0, n)])}")
        ops.append(f"split unseeded with {lst(smp)} {rng.choice([0, n, 2 * n, rng.range(0, n)])}")
        ops.append(f"split unseeded wwith {lst(smp)} {lst(weights_with_zeros(rng, n), f2h)} {rng.range(0, 2 * n)}")
        b = ball_op(rng).split()
        ops.append("split unseeded " + rng.choice(["ball", "ballmap"]) + " " + " ".join(b[2:-1]))
    for _ in range(2000 if thorough else 150):
        ops.append(tiny_ball_op(rng))
    return ops


# ---------------------------------------------------------------------------------------------------------
# bookkeeping of the evidence

def _head(op):
    t = Toks(op); t.s(); o = t.s()
    return t, o


def nontrivial(op):
    t, o = _head(op)
    if o == "kfold":
        s = t.ints(); k = t.int()
        return k >= 2 and len(s) % k != 0
    if o == "random":
        s = t.ints(); t.int(); t.int(); tp = t.int()
        return (tp * len(s)) % 100 != 0
    if o in ("without", "with"):
        t.ints(); return t.int() > 0
    if o == "wwith":
        t.ints(); t.fs(); return t.int() > 0
    if o in ("gboost", "sampler"):
        return t.s() != "off"
    if o == "hist":
        return op.count(" split ") >= 2
    return True


def model_skip(aug):
    """the overloads without a generator read std::random_device: nothing to hand to the model; oracle only"""
    return aug.startswith("split unseeded ")


def distribution(ops):
    d = {}
    for op in ops:
        t, o = _head(op)
        key = o
        if o in ("gboost", "sampler", "unseeded"):
            key = o + "/" + t.s()
        elif o == "hist":
            key = "hist/" + t.s()
        elif o == "wwith":
            smp = t.ints(); w = t.fs()
            key = "wwith" if _valid_weights(smp, w) else "wwith/odd-weights"
        elif o == "ball":
            x0 = t.fs(); r = t.f()
            key = "ball" if 1e-6 <= r <= 1e6 else "ball/extreme-radius"
        elif o in ("kfold", "random"):
            n = t.int()
            key = f"{o}/n<=40" if n <= 40 else f"{o}/n>40"
        d[key] = d.get(key, 0) + 1
        if nontrivial(op):
            d[key + "/nontrivial"] = d.get(key + "/nontrivial", 0) + 1
    return d


# ---------------------------------------------------------------------------------------------------------
# property oracle: the set structure promised by the property, evaluated directly on the implementation's answer

def _strictly_sorted(xs):
    return all(a < b for a, b in zip(xs, xs[1:]))


def _sorted(xs):
    return all(a <= b for a, b in zip(xs, xs[1:]))


_DOM = []


def _in_domain(folds, seed, tp=None):
    if not _DOM:
        _DOM.append(domains())
    d = _DOM[0]
    ok = d["folds"][0] <= folds <= d["folds"][2] and d["seed"][0] <= seed <= d["seed"][2]
    if tp is not None:
        ok = ok and d["trainPer"][0] <= tp <= d["trainPer"][2]
    return ok


def _pair_check(samples, sset, train, valid):
    if not _strictly_sorted(train):
        return "train-unsorted: training part not strictly increasing"
    if not _strictly_sorted(valid):
        return "valid-unsorted: validation part not strictly increasing"
    ts, vs = set(train), set(valid)
    if ts & vs:
        return f"leak: training and validation share {sorted(ts & vs)[:5]}"
    if (ts | vs) != sset or len(train) + len(valid) != len(samples):
        return "cover: training + validation is not exactly the input set"
    return None


def _round_half_up(num, den):
    """round(num/den) with halves up, exactly"""
    return math.floor(Fraction(num, den) + Fraction(1, 2))



def _show(q):
    try:
        return repr(float(q))
    except OverflowError:
        return f"about 2^{q.numerator.bit_length() - q.denominator.bit_length()}"


def _valid_weights(samples, weights):
    """the weights the property speaks about: one per sample, finite, non-negative, not all zero"""
    return (len(weights) == len(samples) and all(math.isfinite(w) and w >= 0.0 for w in weights)
            and any(w > 0.0 for w in weights))


def _selection_check(kind, samples, count, sel, weights=None):
    """`count` sorted members (without: distinct whenever the input is); weighted: never an index of zero weight"""
    if len(sel) != count:
        return f"count: {len(sel)} indices returned, {count} asked"
    if not set(sel) <= set(samples):
        return "member: an index that is not in the input was returned"
    if not _sorted(sel):
        return "sorted: result not sorted"
    if kind == "without":
        # a sub-multiset of the input: no value more often than the input holds it (distinct input => strictly increasing)
        have = {}
        for v in samples:
            have[v] = have.get(v, 0) + 1
        for v in sel:
            have[v] -= 1
            if have[v] < 0:
                return "distinct-sorted: an index returned more often than the input holds it (repeated)"
        if count == len(samples) and sorted(samples) != sel:
            return "distinct-sorted: all samples asked, the answer is not the sorted input"
    if weights is not None and _valid_weights(samples, weights) and len(set(samples)) == len(samples):
        zero = {s for s, w in zip(samples, weights) if not (w > 0.0)}
        bad = sorted(set(sel) & zero)
        if bad:
            return f"zero-weight: indices of zero weight returned: {bad[:5]}"
    return None


def _splits_check(o, samples, folds, tp, pairs):
    n = len(samples); sset = set(samples)
    if len(pairs) != folds:
        return f"folds: {len(pairs)} splits returned for {folds} folds"
    for f, (train, valid) in enumerate(pairs):
        why = _pair_check(samples, sset, train, valid)
        if why:
            return f"{why} (fold {f})"
    if o == "kfold":
        seen = set(); total = 0
        for f, (_, valid) in enumerate(pairs):
            if seen & set(valid):
                return f"valid-overlap: validation folds overlap at fold {f}"
            seen |= set(valid); total += len(valid)
        if seen != sset or total != n:
            return "valid-cover: the validation folds do not cover the input exactly once"
        sizes = [len(v) for _, v in pairs]
        chunk = n // folds
        want = [chunk] * (folds - 1) + [n - (folds - 1) * chunk]
        if sizes != want:
            return f"valid-sizes: validation sizes {sizes[:14]} expected {want[:14]}"
        if max(sizes) - min(sizes) >= folds or max(sizes) - min(sizes) != n % folds:
            return f"valid-sizes: sizes differ by {max(sizes) - min(sizes)}, n mod folds = {n % folds}"
    else:
        want = _round_half_up(tp * n, 100)
        for f, (train, valid) in enumerate(pairs):
            if len(train) != want or len(valid) != n - want:
                return f"train-size: {len(train)} training samples, round({tp}*{n}/100) = {want} (fold {f})"
        # repeated random sub-sampling: the samples are re-shuffled for every fold (random.cpp, the shuffle is the first
        # statement of the loop: Gen/SplitRandom.lean `loop`). Every fold being the SAME split is evidence of a single shuffle
        # only when chance cannot explain it: C(n, train)^(folds - 1) > 1e12
        if folds >= 2 and 0 < want < n and all(p == pairs[0] for p in pairs[1:]) and math.comb(n, want) ** (folds - 1) > 1e12:
            return f"no-reshuffle: all {folds} folds of the random splitter are the same split (n = {n}, train = {want})"
    return None


def _oracle_hist(t, r):
    """a history over splitter objects: the parameters are the only state. Every `set` succeeds exactly inside the domain,
    every split has the promised structure for the parameter values in force, equals the split of a fresh object with those
    values (flag of the harness) and equals every other split of the history made with equal values on equal samples"""
    if not _DOM:
        _DOM.append(domains())
    d = _DOM[0]
    kind = t.s(); k = t.int()
    if r.s() != "ok" or r.int() != k:
        return "answer: wrong number of answers"
    objs = [dict(folds=d["folds"][1], seed=d["seed"][1], trainPer=d["trainPer"][1])]
    seen = {}
    for step in range(k):
        cmd = t.s(); slot = t.int()
        if cmd == "set":
            name = t.s(); v = t.int()
            out = r.s()
            if not 0 <= slot < len(objs):
                if out != "bad-slot":
                    return "answer: bad slot"
                continue
            key = {"folds": "folds", "seed": "seed", "train_per": "trainPer"}[name]
            ok = d[key][0] <= v <= d[key][2] and not (name == "train_per" and kind == "kfold")
            if ok != (out == "ok"):
                return (f"domain: parameter value {name} = {v} outside its domain was accepted (step {step})" if out == "ok"
                        else f"domain: parameter value {name} = {v} inside its domain was refused (step {step})")
            if ok:
                objs[slot][key] = v
        elif cmd == "clone":
            out = r.s()
            if 0 <= slot < len(objs):
                objs.append(dict(objs[slot]))
        else:
            samples = t.ints()
            if not 0 <= slot < len(objs):
                r.s()
                continue
            if r.s() != "S":
                return f"answer: no split answered at step {step}"
            fresh = r.int(); nf = r.int()
            pairs = [(r.ints(), r.ints()) for _ in range(nf)]
            o = objs[slot]
            if len(set(samples)) == len(samples):
                why = _splits_check(kind, samples, o["folds"], o["trainPer"], pairs)
                if why:
                    return f"{why} (step {step})"
            if fresh != 1:
                return f"determinism: equal seeds gave different splits: step {step} differs from a fresh object with the same parameters"
            key = (o["folds"], o["seed"], o["trainPer"] if kind == "random" else 0, tuple(samples))
            if key in seen and seen[key][1] != pairs:
                return f"determinism: equal seeds gave different splits: steps {seen[key][0]} and {step} of one history"
            seen.setdefault(key, (step, pairs))
    if not r.done():
        return "answer: trailing output"
    return None


def _oracle_sampler(t, r):
    mode = t.s(); samples = t.ints(); t.int(); ratio = t.f(); total = t.int(); gdim = t.int(); calls = t.int()
    n = len(samples)
    count = int(ratio * float(n))
    if r.s() != "ok":
        return "answer: implementation did not answer ok"
    same = r.int()
    if r.int() != calls:
        return "calls: wrong number of answers"
    for c in range(calls):
        values = t.fs()
        sel = r.ints()
        if mode == "off":
            if sel != samples:
                return "off: the samples were not returned unchanged"
            continue
        weights = None
        if mode == "wei_loss_bootstrap":
            weights = [values[s * gdim] for s in samples]
        elif mode == "wei_grad_bootstrap":
            weights = [math.sqrt(sum(values[s * gdim + g] ** 2 for g in range(gdim))) for s in samples]
        why = _selection_check("without" if mode == "subsample" else "with", samples, count, sel, weights)
        if why:
            return f"{why} (call {c})"
    if same != 1:
        return "determinism: a second sampler object with the same arguments and calls answered differently"
    return None


def oracle(op, res):
    t, o = _head(op)
    r = Toks(res)
    if o == "hist":
        return _oracle_hist(t, r)
    if o == "sampler":
        return _oracle_sampler(t, r)
    if o == "unseeded":
        o = t.s()
        if o == "ballmap":
            o = "ball"
    status = r.s()
    if status == "not-a-function-of-the-generator":
        return "determinism: the same generator state gave another answer / the generator did not advance as the standard-library calls do"
    if o in ("kfold", "random"):
        samples = t.ints(); folds = t.int(); seed = t.int()
        tp = t.int() if o == "random" else None
        if not _in_domain(folds, seed, tp):
            return None if res == "throw critical" else f"domain: parameters outside their domain were accepted: {res[:60]}"
        if status != "ok":
            return f"answer: implementation did not answer ok: {res[:80]}"
        if len(set(samples)) != len(samples):
            return None  # the property speaks about distinct indices only
        same = r.int(); nf = r.int()
        if nf != folds:
            return f"folds: {nf} splits returned for {folds} folds"
        n = len(samples); sset = set(samples)
        pairs = []
        for _ in range(nf):
            train = r.ints(); valid = r.ints()
            pairs.append((train, valid))
        if not r.done():
            return "answer: trailing output"
        for f, (train, valid) in enumerate(pairs):
            why = _pair_check(samples, sset, train, valid)
            if why:
                return f"{why} (fold {f})"
        if same != 1:
            return "determinism: equal seeds gave different splits"
        if o == "kfold":
            seen = set(); total = 0
            for f, (_, valid) in enumerate(pairs):
                if seen & set(valid):
                    return f"valid-overlap: validation folds overlap at fold {f}"
                seen |= set(valid); total += len(valid)
            if seen != sset or total != n:
                return "valid-cover: the validation folds do not cover the input exactly once"
            sizes = [len(v) for _, v in pairs]
            chunk = n // folds
            want = [chunk] * (folds - 1) + [n - (folds - 1) * chunk]
            if sizes != want:
                return f"valid-sizes: validation sizes {sizes[:14]} expected {want[:14]}"
            if max(sizes) - min(sizes) >= folds or max(sizes) - min(sizes) != n % folds:
                return f"valid-sizes: sizes differ by {max(sizes) - min(sizes)}, n mod folds = {n % folds}"
        else:
            want = _round_half_up(tp * n, 100)
            for f, (train, valid) in enumerate(pairs):
                if len(train) != want or len(valid) != n - want:
                    return f"train-size: {len(train)} training samples, round({tp}*{n}/100) = {want} (fold {f})"
        return None

    if status != "ok":
        return f"answer: implementation did not answer ok: {res[:80]}"

    if o in ("without", "with", "wwith"):
        samples = t.ints()
        weights = t.fs() if o == "wwith" else None
        count = t.int()
        sel = r.ints()
        return _selection_check("without" if o == "without" else "with", samples, count, sel, weights)

    if o == "gboost":
        mode = t.s(); samples = t.ints(); t.int(); ratio = t.f(); calls = t.int(); total = t.int(); gdim = t.int()
        values = t.fs()
        n = len(samples); sset = set(samples)
        count = int(ratio * float(n))
        if r.int() != calls:
            return "calls: wrong number of answers"
        for c in range(calls):
            sel = r.ints()
            if mode == "off":
                if sel != samples:
                    return "off: the samples were not returned unchanged"
                continue
            if len(sel) != count:
                return f"count: {len(sel)} indices returned, trunc({ratio}*{n}) = {count}"
            if not set(sel) <= sset:
                return "member: an index that is not in the input was returned"
            if mode == "subsample":
                if not _strictly_sorted(sel):
                    return "distinct-sorted: result not strictly increasing"
            elif not _sorted(sel):
                return "sorted: result not sorted"
            if mode in ("wei_loss_bootstrap", "wei_grad_bootstrap"):
                zero = {s for s in samples if all(values[s * gdim + g] == 0.0 for g in range(gdim))}
                bad = sorted(set(sel) & zero)
                if bad:
                    return f"zero-weight: indices of zero weight returned: {bad[:5]}"
        return None

    if o == "ball":
        x0 = t.fs(); radius = t.f()
        x = r.fs()
        if len(x) != len(x0):
            return "dimension: wrong dimension"
        if not all(math.isfinite(v) for v in x):
            return "finite: non-finite coordinate"
        # exact distance of the binary64 answer from the centre, against the radius plus the two rounding allowances that the
        # exact theorem `ball_inside` does not cover, both explicit and both INDEPENDENT of each other:
        #   (1) the displacement radius*z*u_k/|u| is computed with a few roundings: relative (n + 8) * 2^-53 of the radius, and
        #       2^-1073 absolute per coordinate where the products are subnormal;
        #   (2) x0_k + d_k is rounded to binary64: at most half an ulp OF THE RESULT COORDINATE (a quantity of the size
        #       ulp(|x0|), not of the radius: for radius << ulp(|x0|) the answer is x0 itself or a neighbour).
        n = len(x0)
        d2 = sum((Fraction(a) - Fraction(b)) ** 2 for a, b in zip(x, x0))
        bound = Fraction(radius) * (1 + Fraction(n + 8, 2 ** 53))
        if d2 <= bound * bound:
            return None
        slack2 = sum((Fraction(math.ulp(a)) / 2 + Fraction(1, 2 ** 1073)) ** 2 for a in x)
        # dist <= bound + slack  <=>  d2 <= bound^2 + 2 bound slack + slack^2; compared exactly up to the one square root
        slack = Fraction(math.isqrt(slack2.numerator * slack2.denominator) + 1, slack2.denominator)  # >= sqrt(slack2), exact
        lim = bound + slack
        if d2 <= lim * lim:
            return None
        return f"outside: |x - x0|^2 = {_show(d2)} > (radius {radius!r} + rounding allowance {_show(slack)})^2"
    return f"answer: unknown op {o}"


def compare(aug, impl, model):
    _, o = _head(aug)
    if o == "ball":
        return vlib.compare_lines(impl, model, BALL_RTOL, 0.0)
    return impl == model


def classify(op, kind, detail):
    try:
        t, o = _head(op)
        if o in ("gboost", "sampler", "hist", "unseeded"):
            o = o + "-" + t.s()
    except Exception:
        return None
    if kind == "oracle":
        return f"{o}:{detail.split(':')[0]}"
    return f"{o}:{kind}"


def shrink_candidates(op):
    t, o = _head(op)
    out = []
    if o in ("kfold", "random"):
        s = t.ints(); rest = t.rest()
        k = int(rest[0])
        for s2 in (s[: len(s) // 2], s[:-1], sorted(s), list(range(len(s)))):
            if s2 != s and len(s2) >= 1:
                out.append(f"split {o} {lst(s2)} " + " ".join(rest))
        if k > 2:
            out.append(f"split {o} {lst(s)} " + " ".join([str(k - 1)] + rest[1:]))
            out.append(f"split {o} {lst(s)} " + " ".join(["2"] + rest[1:]))
        if rest[1] != "0":
            out.append(f"split {o} {lst(s)} " + " ".join([rest[0], "0"] + rest[2:]))
    elif o in ("without", "with"):
        s = t.ints(); c = t.int(); seed = t.s()
        if len(s) > 1:
            out.append(f"split {o} {lst(s[:-1])} {min(c, len(s) - 1) if o == 'without' else c} {seed}")
        if c > 0:
            out.append(f"split {o} {lst(s)} {c - 1} {seed}")
            out.append(f"split {o} {lst(s)} {c // 2} {seed}")
        if s != list(range(len(s))):
            out.append(f"split {o} {lst(list(range(len(s))))} {c} {seed}")
    return out


def static_checks():
    """the model must use the translated idiv, and random.cpp must still compute the train size through idiv (as re-translated)"""
    bad = []
    model = open(os.path.join(vlib.LEAN, "NanoVerif", "Model", "Split.lean")).read()
    if "Gen.idiv" not in vlib.strip_lean_comments(model):
        bad.append("Model/Split.lean no longer uses Gen.idiv")
    # the text of random.cpp is no longer pinned here: `train_size = idiv(train_perc * samples.size(), 100)` is re-translated on
    # every run (Gen/SplitRandom.lean `outer0`) and tied to `trainSize` by the obligation `model_random_sizes_is_generated`,
    # which does not depend on the names of the locals
    gen = open(os.path.join(vlib.LEAN, "NanoVerif", "Gen", "SplitRandom.lean")).read()
    if "Gen.idiv" not in vlib.strip_lean_comments(gen):
        bad.append("src/splitter/random.cpp: the training size is no longer computed through idiv (Gen/SplitRandom.lean)")
    return bad
