"""C12 — splitters and samplers return index sets with the promised set structure (DESIGN.md §4 C12)."""
import math, os, re
from fractions import Fraction
import vlib
from vlib import Toks, lst, f2h

ID = "C12"
LEVEL = "proof"
HARNESS = "c12"
LEAN_MODULES = ["NanoVerif.Props.C12"]
NS = "NanoVerif.Split."
OBLIGATIONS = [NS + t for t in [
    "sortI_spec", "kfold_pair", "kfold_partition", "kfold_length",
    "random_pair", "random_train_size", "randomPerms_perm", "split_deterministic",
    "without_replacement_spec", "without_replacement_guard",
    "with_replacement_spec", "with_replacement_guard", "weighted_never_zero",
    "gboost_spec", "ball_inside",
]]
TRUSTED = [
    "Lean 4.33.0 kernel; Mathlib modules imported by NanoVerif/Proofs/Split.lean and NanoVerif/Props/C12.lean",
    "axioms: at most propext, Classical.choice, Quot.sound (audited per theorem on every run)",
    "hand-written model NanoVerif/Model/Split.lean of kfold.cpp / random.cpp / sampling.cpp / gboost/sampler.cpp, tied to the code by the "
    "correspondence run (harness/c12.cpp on the real library vs the compiled Lean driver, exact comparison of every index list)",
    "tools/props/c12.py: the translator of idiv/iround (numeric.h) and of the splitter parameter domains into NanoVerif/Gen/, "
    "the generator and the set-structure oracle; harness/c12.cpp; g++/libstdc++/Eigen",
    "oracles of the model (inputs of the theorems, reproduced by the harness with the same standard library and checked by the driver "
    "to satisfy their contract on every case): std::shuffle returns a permutation that is a function of the generator state; "
    "uniform_int_distribution(0,n-1) returns a position in range; discrete_distribution never returns a position of weight 0; "
    "std::sort returns a sorted permutation (SortSpec, instantiated with List.mergeSort)",
]
ASSUMPTIONS = [
    "integer arithmetic of idiv is modelled over Int (no int64 overflow: train_per * n < 2^63)",
    "asserts are compiled out in the release build: count > n for sampling without replacement, an empty sample list for sampling with "
    "replacement, negative or all-zero weights are never generated; the model returns none there",
    "ball_inside is a theorem of exact arithmetic (ordered field) with the 2-norm as an oracle s (s*s = sum of squares); the binary64 "
    "result is only tested (inside the ball up to relative 1e-12)",
    "uniformity of the draws is a statistical property and is not claimed",
    "the exhaustive tier uses n in 2..40 x folds in 2..min(n,12) x every seed 0..1024 (each (n, folds) cell with a stratified subset of the "
    "seeds, every seed in several cells, a few cells with all 1025 seeds); the theorems cover every permutation",
]
RULE = ("corpus; exhaustive n in 2..40 x folds in 2..min(n,12) for k-fold and x train_per in 10..90 step 10 for the random splitter, seeds "
        "{0,1,42,1023,1024} + random ones (quick) / stratified over all 1025 seeds (thorough), sample values non-contiguous; random n up to 5000; "
        "sampling with/without replacement for every count 0..n (small n) and random counts (large n); weighted sampling with zero weights; "
        "gboost sampler in its five modes with 1-3 consecutive calls; sample_from_ball in dimensions 1..50, radii 1e-6..1e6; a few parameter "
        "values outside the domain. A case is non-trivial when n mod folds != 0 (k-fold), when train_per*n/100 is not an integer (random), "
        "when 0 < count (samplers), always for the ball; distinct by op text")
FLAVOUR = {"quick": "plain", "thorough": "asan"}
EXHAUSTIVE = {"quick": False, "thorough": True}
HARNESS_TIMEOUT = 1800
BALL_RTOL = 1e-12

NUMERIC_H = os.path.join(vlib.REPO, "include", "nano", "core", "numeric.h")
SPLITTER_CPP = os.path.join(vlib.REPO, "src", "splitter.cpp")
RANDOM_CPP = os.path.join(vlib.REPO, "src", "splitter", "random.cpp")
GEN_NUMERIC = os.path.join(vlib.LEAN, "NanoVerif", "Gen", "Numeric.lean")
GEN_PARAMS = os.path.join(vlib.LEAN, "NanoVerif", "Gen", "SplitterParams.lean")


# ---------------------------------------------------------------------------------------------------------
# translator: idiv / iround of numeric.h -> Lean definitions over Int; parameter domains of the splitters -> Nat constants

_TOK = re.compile(r"\s*(?:(\d+)|([A-Za-z_][A-Za-z_0-9]*(?:::[A-Za-z_][A-Za-z_0-9]*)*)|([-+*/(),<>]))")


def _tokenize(s):
    out, i = [], 0
    while i < len(s):
        if not s[i:].strip():
            break
        m = _TOK.match(s, i)
        if not m:
            raise vlib.Broken("translate", f"numeric.h: cannot tokenize `{s[i:i+40]}`")
        out.append(("num", m.group(1)) if m.group(1) else ("id", m.group(2)) if m.group(2) else ("op", m.group(3)))
        i = m.end()
    return out


class _Expr:
    """integer expressions: + - * / (truncating), parentheses, static_cast<T>(e) (identity), calls of already translated functions"""
    def __init__(self, toks, params, known):
        self.t, self.i, self.params, self.known = toks, 0, params, known

    def peek(self):
        return self.t[self.i] if self.i < len(self.t) else ("eof", "")

    def eat(self, v=None):
        k = self.peek()
        if v is not None and k[1] != v:
            raise vlib.Broken("translate", f"numeric.h: expected `{v}`, found `{k[1]}`")
        self.i += 1
        return k

    def expr(self):
        a = self.term()
        while self.peek()[1] in ("+", "-"):
            op = self.eat()[1]
            a = f"({a} {op} {self.term()})"
        return a

    def term(self):
        a = self.unary()
        while self.peek()[1] in ("*", "/"):
            op = self.eat()[1]
            b = self.unary()
            a = f"(Int.tdiv {a} {b})" if op == "/" else f"({a} * {b})"
        return a

    def unary(self):
        if self.peek()[1] == "-":
            self.eat()
            return f"(-{self.unary()})"
        return self.primary()

    def primary(self):
        k = self.eat()
        if k[0] == "num":
            return k[1]
        if k[1] == "(":
            e = self.expr()
            self.eat(")")
            return e
        if k[0] == "id":
            if k[1] == "static_cast":
                self.eat("<")
                ty = self.eat()
                if ty[0] != "id":
                    raise vlib.Broken("translate", "numeric.h: static_cast to a non-identifier type")
                self.eat(">")
                self.eat("(")
                e = self.expr()
                self.eat(")")
                return e
            if self.peek()[1] == "(":
                if k[1] not in self.known:
                    raise vlib.Broken("translate", f"numeric.h: call of unknown function `{k[1]}`")
                self.eat("(")
                args = [self.expr()]
                while self.peek()[1] == ",":
                    self.eat()
                    args.append(self.expr())
                self.eat(")")
                if len(args) != self.known[k[1]]:
                    raise vlib.Broken("translate", f"numeric.h: arity of `{k[1]}`")
                return "(" + " ".join([k[1]] + args) + ")"
            if k[1] in self.params:
                return k[1]
            raise vlib.Broken("translate", f"numeric.h: unbound identifier `{k[1]}`")
        raise vlib.Broken("translate", f"numeric.h: unexpected token `{k[1]}`")


def _translate_fn(src, name, known):
    """`template <...> T name(T1 a, T2 b) noexcept { return EXPR; }` -> (params, lean expression, source text)"""
    m = re.search(r"\b[A-Za-z_]\w*\s+" + re.escape(name) + r"\s*\(([^)]*)\)\s*(?:noexcept)?\s*\{([^{}]*)\}", src)
    if not m:
        raise vlib.Broken("translate", f"numeric.h: function `{name}` not found")
    params = []
    for p in m.group(1).split(","):
        w = p.split()
        if len(w) != 2 or not re.fullmatch(r"[A-Za-z_]\w*", w[1]):
            raise vlib.Broken("translate", f"numeric.h: parameter list of `{name}`: `{m.group(1)}`")
        params.append(w[1])
    body = m.group(2).strip()
    r = re.fullmatch(r"return\s+(.*?);", body, re.S)
    if not r:
        raise vlib.Broken("translate", f"numeric.h: body of `{name}` is not a single return statement: `{body[:80]}`")
    p = _Expr(_tokenize(r.group(1)), params, known)
    e = p.expr()
    if p.peek()[0] != "eof":
        raise vlib.Broken("translate", f"numeric.h: trailing tokens in `{name}`")
    return params, e, " ".join(r.group(0).split())


def _domain(src, fname, pname):
    m = re.search(r'make_integer\(\s*"' + re.escape(pname) + r'"\s*,\s*(\d+)\s*,\s*(LE|LT)\s*,\s*(\d+)\s*,\s*(LE|LT)\s*,\s*(\d+)\s*\)', src)
    if not m:
        raise vlib.Broken("translate", f"{fname}: integer parameter `{pname}` not found")
    lo, c1, dv, c2, hi = int(m.group(1)), m.group(2), int(m.group(3)), m.group(4), int(m.group(5))
    return (lo if c1 == "LE" else lo + 1), dv, (hi if c2 == "LE" else hi - 1)


def domains():
    s1, s2 = open(SPLITTER_CPP).read(), open(RANDOM_CPP).read()
    return dict(folds=_domain(s1, "splitter.cpp", "splitter::folds"), seed=_domain(s1, "splitter.cpp", "splitter::seed"),
                trainPer=_domain(s2, "splitter/random.cpp", "splitter::random::train_per"))


def translate():
    src = open(NUMERIC_H).read()
    known, defs = {}, []
    for name in ("idiv", "iround"):
        params, e, text = _translate_fn(src, name, known)
        if e.startswith("(") and e.endswith(")"):
            e = e[1:-1] if _balanced(e[1:-1]) else e
        defs.append(f"/-- source: `{text}` -/\ndef {name} ({' '.join(params)} : Int) : Int := {e}\n")
        known[name] = len(params)
    out = ("-- GENERATED by tools/props/c12.py from include/nano/core/numeric.h — do not edit\n"
           "/-! `idiv`, `iround` over `Int`: the C++ `/` on signed integers truncates toward zero (`Int.tdiv`); a `static_cast`\n"
           "    between integral types is the identity (overflow is not modelled). -/\n"
           "namespace NanoVerif.Gen\n\n" + "\n".join(defs) + "\nend NanoVerif.Gen\n")
    vlib.write_if_changed(GEN_NUMERIC, out)
    d = domains()
    lines = ["-- GENERATED by tools/props/c12.py from src/splitter.cpp, src/splitter/random.cpp — do not edit",
             "/-! inclusive domains `[min, max]` and defaults of the integer parameters of the splitters -/",
             "namespace NanoVerif.Gen.Splitter\n"]
    for k, (lo, dv, hi) in d.items():
        lines += [f"def {k}Min : Nat := {lo}", f"def {k}Default : Nat := {dv}", f"def {k}Max : Nat := {hi}"]
    lines.append("\nend NanoVerif.Gen.Splitter\n")
    vlib.write_if_changed(GEN_PARAMS, "\n".join(lines))


def _balanced(s):
    d = 0
    for c in s:
        d += (c == "(") - (c == ")")
        if d < 0:
            return False
    return d == 0
