"""C18 — regex-level scan of /repo/include + /repo/src for state that a `const` method can modify or that is shared
between all objects (used by tools/props/c18.py::translate to write lean/NanoVerif/Gen/MutableState.lean).

Three kinds of entries (file, class-or-function scope, member name, declared type):
  mutable   `mutable T name;` data members
  static    non-const `static` / `thread_local` variables (class statics, function-local statics, globals) and plain non-const
            namespace-scope variables
  indirect  data members through which `const` does not propagate: owning/raw pointers to non-const, non-const references,
            (vectors of) `std::unique_ptr` aliases (`rsolver_t`, `rlsearch0_t`, ...)

This is NOT a C++ parser: comments/strings are stripped, braces are tracked with a small scope stack (namespace / class /
block / brace-initialiser), statements are split at `;`. What it cannot see is listed in ASSUMPTIONS of c18.py.
"""
import os
import re

KEYWORDS_BLOCK = {"else", "do", "try", "const", "override", "noexcept", "final", "mutable"}
SKIP_START = ("using ", "typedef ", "friend ", "return ", "template ", "extern ", "static_assert", "namespace ", "class ",
              "struct ", "enum ", "union ", "case ", "goto ", "delete ", "throw ", "if ", "for ", "while ", "switch ", "break",
              "continue", "public", "private", "protected", "default", "operator", "explicit ", "virtual ", "inline ", "constexpr ")


def strip_code(text):
    """remove comments, string/char literals and preprocessor lines (newlines kept)"""
    out, i, n = [], 0, len(text)
    while i < n:
        c = text[i]
        if text.startswith("//", i):
            while i < n and text[i] != "\n":
                i += 1
        elif text.startswith("/*", i):
            j = text.find("*/", i + 2)
            j = n if j < 0 else j + 2
            out.append("\n" * text.count("\n", i, j))
            i = j
        elif c == '"':
            # raw strings R"( ... )" are not used in the library sources next to declarations; plain literal
            i += 1
            while i < n and text[i] != '"':
                i += 2 if text[i] == "\\" else 1
            i += 1
            out.append('""')
        elif c == "'" and not (i > 0 and (text[i - 1].isalnum()) and i + 1 < n and text[i + 1].isalnum() and text[i - 1].isdigit()):
            # char literal (digit separators such as 1'000 are kept as they are)
            i += 1
            while i < n and text[i] != "'":
                i += 2 if text[i] == "\\" else 1
            i += 1
            out.append("' '")
        else:
            out.append(c)
            i += 1
    lines = []
    cont = False
    for line in "".join(out).split("\n"):
        if cont or line.lstrip().startswith("#"):
            cont = line.rstrip().endswith("\\")
            lines.append("")
        else:
            lines.append(line)
    return "\n".join(lines)


def norm(s):
    s = re.sub(r"\s+", " ", s).strip()
    s = re.sub(r"\s*([<>,&\*:])\s*", r"\1", s)
    return s


def strip_template(s):
    """drop leading `template<...>` headers (balanced angle brackets)"""
    while s.startswith("template<") or s.startswith("template <"):
        i = s.index("<")
        depth = 0
        while i < len(s):
            if s[i] == "<":
                depth += 1
            elif s[i] == ">":
                depth -= 1
                if depth == 0:
                    break
            i += 1
        s = s[i + 1:].strip()
    return s


def collect_aliases(files):
    """names of aliases of std::unique_ptr / std::shared_ptr (and vectors of those): const does not propagate through them"""
    ptr, vec = set(), set()
    pat = re.compile(r"using\s+(\w+)\s*=\s*([^;]+);")
    texts = [strip_code(open(f, errors="replace").read()) for f in files]
    for t in texts:
        for m in pat.finditer(t):
            name, rhs = m.group(1), norm(m.group(2))
            if rhs.startswith("std::unique_ptr<") or rhs.startswith("std::shared_ptr<"):
                ptr.add(name)
    for t in texts:
        for m in pat.finditer(t):
            name, rhs = m.group(1), norm(m.group(2))
            mm = re.match(r"std::vector<(\w+)>$", rhs)
            if mm and mm.group(1) in ptr:
                vec.add(name)
    return ptr | vec


class Scanner:
    def __init__(self, rel, text, aliases):
        self.rel, self.text, self.aliases = rel, text, aliases
        self.entries = []
        self.problems = []

    def scope_name(self, stack):
        names = [s[1] for s in stack if s[0] in ("class", "func") and s[1]]
        return "::".join(names[-2:]) if names else "-"

    def innermost(self, stack):
        for s in reversed(stack):
            if s[0] != "init":
                return s[0]
        return "namespace"

    def statement(self, stmt, stack):
        s = norm(re.sub(r"^\s*((public|private|protected)\s*:\s*)+", "", stmt.strip()))
        s = strip_template(s)
        if not s:
            return
        where = self.innermost(stack)
        scope = self.scope_name(stack)
        # the declarator: text before the initialiser
        head = re.sub(r"(\[[^\]]*\])+$", "", re.split(r"=|\{", s, 1)[0].strip())
        m = re.match(r"^(?:static |inline |thread_local )*mutable (.+?)[ &\*]?(\w+)$", head)
        if s.startswith("mutable ") or " mutable " in " " + head + " ":
            m = re.match(r"^(?:inline )?mutable (.+?) ?(\w+)$", head)
            if m and where == "class":
                self.entries.append(("mutable", self.rel, scope, m.group(2), m.group(1)))
                return
            if where == "class":
                self.problems.append(f"{self.rel}: cannot parse mutable declaration `{s[:80]}`")
                return
        m = re.match(r"^(?:inline )?((?:static |thread_local )+)(?:inline )?(.+)$", s)
        if m:
            rest = m.group(2)
            rhead = re.split(r"=|\{", rest, 1)[0].strip()
            if re.match(r"^(constexpr|const)\b", rest) or " constexpr " in " " + rhead + " ":
                return
            # a function declaration at class/namespace scope has its parameter list before any initialiser
            if where in ("class", "namespace") and "(" in rhead:
                return
            rhead = re.sub(r"(\[[^\]]*\])+$", "", rhead.split("(")[0].strip())
            mm = re.match(r"^(.+?) ?(\w+)$", rhead)
            if mm and mm.group(1) not in ("return",):
                self.entries.append(("static", self.rel, scope, mm.group(2), norm(m.group(1) + mm.group(1))))
            return
        if where == "namespace":
            # plain non-const variable definitions at namespace scope
            if s.startswith(SKIP_START) or "(" in head or "operator" in head:
                return
            mm = re.match(r"^([\w:<>,\*& ]+?) ?(\w+)$", head)
            if mm and not re.match(r"^(constexpr|const)\b", mm.group(1)) and not mm.group(1).endswith("::"):
                self.entries.append(("static", self.rel, scope, mm.group(2), norm("global " + mm.group(1))))
            return
        if where == "class":
            if s.startswith(SKIP_START) or "(" in head or "operator" in head:
                return
            mm = re.match(r"^(.+?) ?(\w+)$", head)
            if not mm:
                return
            ty, name = mm.group(1).strip(), mm.group(2)
            # `T* name` / `T& name`: norm() glued the sigil to the type
            base = ty
            indirect = False
            if base.endswith("*") or base.endswith("*const"):
                indirect = not re.match(r"^const\b", base)
            elif base.endswith("&"):
                indirect = not re.match(r"^const\b", base)
            elif re.match(r"^std::(unique|shared)_ptr<", base):
                indirect = not re.match(r"^std::(unique|shared)_ptr<const\b", base)
            elif base.split("::")[-1] in self.aliases:
                indirect = True
            if indirect:
                self.entries.append(("indirect", self.rel, scope, name, ty))

    def run(self):
        t = self.text
        stack = []   # (kind, name)
        buf = []
        i, n = 0, len(t)
        while i < n:
            c = t[i]
            if c == "{":
                header = "".join(buf)
                hs = header.strip()
                prev = re.search(r"(\w+|\S)\s*$", header)
                prevtok = prev.group(1) if prev else ""
                in_init = bool(stack) and stack[-1][0] == "init"
                mcls = re.search(r"\b(class|struct|union)\s+(?:NANO_PUBLIC\s+)?([\w:]+)(?:\s+final)?\s*(?::[^{;]*)?$", hs)
                if in_init:
                    stack.append(("init", ""))
                    buf.append(c)
                elif re.search(r"\benum\b[^;{}()]*$", hs):
                    stack.append(("block", ""))
                    buf = []
                elif mcls and "(" not in hs.split(mcls.group(1))[-1]:
                    stack.append(("class", mcls.group(2)))
                    buf = []
                elif re.search(r"\bnamespace\b[^;{}()]*$", hs):
                    stack.append(("namespace", ""))
                    buf = []
                elif (re.match(r"^\w+$", prevtok) and prevtok not in KEYWORDS_BLOCK) or prevtok in (">", "=", ",", "(", "{", "return"):
                    # brace initialiser inside a declaration / expression
                    stack.append(("init", ""))
                    buf.append(c)
                else:
                    # function body / lambda / control block: name of the function if recoverable
                    mf = re.search(r"([\w:~]+)\s*\([^;]*$", hs)
                    kind = "func" if self.innermost(stack) in ("namespace", "class") else "block"
                    stack.append((kind, mf.group(1) if (mf and kind == "func") else ""))
                    buf = []
            elif c == "}":
                if not stack:
                    self.problems.append(f"{self.rel}: unbalanced braces")
                    return
                kind, _ = stack.pop()
                if kind == "init":
                    buf.append(c)
                else:
                    buf = []
            elif c == ";":
                if stack and stack[-1][0] == "init":
                    buf.append(c)
                else:
                    self.statement("".join(buf), stack)
                    buf = []
            else:
                buf.append(c)
            i += 1
        if stack:
            self.problems.append(f"{self.rel}: {len(stack)} unclosed scope(s) at end of file")


def scan(repo):
    files = []
    for top in ("include", "src"):
        for root, _, names in os.walk(os.path.join(repo, top)):
            for fn in names:
                if fn.endswith((".h", ".cpp", ".hpp")):
                    files.append(os.path.join(root, fn))
    files.sort()
    aliases = collect_aliases(files)
    entries, problems = [], []
    for f in files:
        rel = os.path.relpath(f, repo)
        sc = Scanner(rel, strip_code(open(f, errors="replace").read()), aliases)
        sc.run()
        entries += sc.entries
        problems += sc.problems
    # cross-check with a plain token count: every `mutable` keyword outside lambdas must have produced an entry
    return sorted(set(entries)), problems, aliases


if __name__ == "__main__":
    import sys
    es, ps, al = scan(sys.argv[1] if len(sys.argv) > 1 else "/repo")
    for e in es:
        print(e)
    print("problems:", ps)
    print("aliases:", sorted(al))
