"""C18 — regex-level scan of /repo/include + /repo/src for state that a `const` method can modify or that is shared
between all objects (used by tools/props/c18.py::translate to write lean/NanoVerif/Gen/MutableState.lean).

Three kinds of entries (file, class-or-function scope, member name, declared type):
  mutable   `mutable T name;` data members
  static    non-const `static` / `thread_local` variables (class statics, function-local statics, globals) and plain non-const
            namespace-scope variables
  indirect  data members through which `const` does not propagate: owning/raw pointers to non-const, non-const references,
            (vectors of) `std::unique_ptr` aliases (`rsolver_t`, `rlsearch0_t`, ...)
  holder    data members (by value, reference, pointer or in a std::vector) whose class has `mutable` members, derives from
            such a class or holds one itself (closed transitively): a const method of the holder reaches the mutable state
  (a `static const` object is listed as `static` when it is a pointer / smart pointer to non-const: the pointee is shared)

Every entry carries the line of its declaration (`lines` of `scan_full`). Every `static` / `thread_local` keyword of the sources
must have been CLASSIFIED (variable, constant, function) by the scanner: one that was swallowed inside another statement (a
scope the brace tracker took for an initialiser) is reported as a problem naming file:line.

This is NOT a C++ parser: comments/strings are stripped, braces are tracked with a small scope stack (namespace / class /
block / brace-initialiser), statements are split at `;`. What it cannot see is listed in ASSUMPTIONS of c18.py.
"""
import os
import re

KEYWORDS_BLOCK = {"else", "do", "try", "const", "override", "noexcept", "final", "mutable"}
SKIP_START = ("using ", "typedef ", "friend ", "return ", "template ", "extern ", "static_assert", "namespace ", "class ",
              "struct ", "enum ", "union ", "case ", "goto ", "delete ", "throw ", "if ", "for ", "while ", "switch ", "break",
              "continue", "public", "private", "protected", "default", "operator", "explicit ", "virtual ", "inline ", "constexpr ")


def strip_code(text):
    """remove comments, string/char literals and preprocessor lines (newlines kept)"""
    out, i, n = [], 0, len(text)
    while i < n:
        c = text[i]
        if text.startswith("//", i):
            while i < n and text[i] != "\n":
                i += 1
        elif text.startswith("/*", i):
            j = text.find("*/", i + 2)
            j = n if j < 0 else j + 2
            out.append("\n" * text.count("\n", i, j))
            i = j
        elif c == '"':
            # raw strings R"( ... )" are not used in the library sources next to declarations; plain literal
            i += 1
            while i < n and text[i] != '"':
                i += 2 if text[i] == "\\" else 1
            i += 1
            out.append('""')
        elif c == "'" and not (i > 0 and (text[i - 1].isalnum()) and i + 1 < n and text[i + 1].isalnum() and text[i - 1].isdigit()):
            # char literal (digit separators such as 1'000 are kept as they are)
            i += 1
            while i < n and text[i] != "'":
                i += 2 if text[i] == "\\" else 1
            i += 1
            out.append("' '")
        else:
            out.append(c)
            i += 1
    lines = []
    cont = False
    for line in "".join(out).split("\n"):
        if cont or line.lstrip().startswith("#"):
            cont = line.rstrip().endswith("\\")
            lines.append("")
        else:
            lines.append(line)
    return "\n".join(lines)


def norm(s):
    s = re.sub(r"\s+", " ", s).strip()
    s = re.sub(r"\s*([<>,&\*:])\s*", r"\1", s)
    return s


def strip_template(s):
    """drop leading `template<...>` headers (balanced angle brackets)"""
    while s.startswith("template<") or s.startswith("template <"):
        i = s.index("<")
        depth = 0
        while i < len(s):
            if s[i] == "<":
                depth += 1
            elif s[i] == ">":
                depth -= 1
                if depth == 0:
                    break
            i += 1
        s = s[i + 1:].strip()
    return s


def collect_aliases(files):
    """names of aliases of std::unique_ptr / std::shared_ptr (and vectors of those): const does not propagate through them"""
    ptr, vec = set(), set()
    pat = re.compile(r"using\s+(\w+)\s*=\s*([^;]+);")
    texts = [strip_code(open(f, errors="replace").read()) for f in files]
    for t in texts:
        for m in pat.finditer(t):
            name, rhs = m.group(1), norm(m.group(2))
            if rhs.startswith("std::unique_ptr<") or rhs.startswith("std::shared_ptr<"):
                ptr.add(name)
    for t in texts:
        for m in pat.finditer(t):
            name, rhs = m.group(1), norm(m.group(2))
            mm = re.match(r"std::vector<(\w+)>$", rhs)
            if mm and mm.group(1) in ptr:
                vec.add(name)
    return ptr | vec


class Scanner:
    def __init__(self, rel, text, aliases):
        self.rel, self.text, self.aliases = rel, text, aliases
        self.entries = []
        self.problems = []
        self.lines = {}      # entry -> line of the declaration
        self.members = []    # every data member of every class: (file, scope, name, type, line)
        self.bases = {}      # class name (last segment) -> base class names (last segments)
        self.line = 1

    def add(self, entry):
        self.entries.append(entry)
        self.lines.setdefault(entry, self.line)

    def unclassified(self, text, line, leading_ok):
        """every `static` / `thread_local` token of a consumed piece of text must be part of its leading specifiers"""
        body = text
        if leading_ok:
            body = re.sub(r"^\s*((public|private|protected)\s*:\s*)*", "", body)
            body = strip_template(norm(body))
            body = re.sub(r"^((?:inline |static |thread_local |constexpr |friend |extern |\[\[\w+\]\] )+)", "", body)
        for m in re.finditer(r"\b(static|thread_local)\b", body):
            self.problems.append(f"{self.rel}:{line}: a `{m.group(1)}` keyword inside `{norm(text)[:70]}` was not classified by the "
                                 f"scanner (scope taken for an initialiser?)")

    def scope_name(self, stack):
        names = [s[1] for s in stack if s[0] in ("class", "func") and s[1]]
        return "::".join(names[-2:]) if names else "-"

    def innermost(self, stack):
        for s in reversed(stack):
            if s[0] != "init":
                return s[0]
        return "namespace"

    def statement(self, stmt, stack):
        self.unclassified(stmt, self.line, True)
        s = norm(re.sub(r"^\s*((public|private|protected)\s*:\s*)+", "", stmt.strip()))
        s = strip_template(s)
        s = re.sub(r"^(\[\[\w+\]\] )+", "", s)
        if not s:
            return
        where = self.innermost(stack)
        scope = self.scope_name(stack)
        # the declarator: text before the initialiser
        head = re.sub(r"(\[[^\]]*\])+$", "", re.split(r"=|\{", s, 1)[0].strip())
        m = re.match(r"^(?:static |inline |thread_local )*mutable (.+?)[ &\*]?(\w+)$", head)
        if s.startswith("mutable ") or " mutable " in " " + head + " ":
            m = re.match(r"^(?:inline )?mutable (.+?) ?(\w+)$", head)
            if m and where == "class":
                self.add(("mutable", self.rel, scope, m.group(2), m.group(1)))
                self.members.append((self.rel, scope, m.group(2), m.group(1), self.line))
                return
            if where == "class":
                self.problems.append(f"{self.rel}: cannot parse mutable declaration `{s[:80]}`")
                return
        m = re.match(r"^(?:inline )?((?:static |thread_local )+)(?:inline )?(.+)$", s)
        if m:
            rest = m.group(2)
            rhead = re.split(r"=|\{", rest, 1)[0].strip()
            if re.match(r"^constexpr\b", rest) or " constexpr " in " " + rhead + " ":
                return
            if re.match(r"^const\b", rest):
                # a constant: nothing to share — unless it is a (smart) pointer to non-const: the pointee is shared by all threads
                decl = re.sub(r"^const ", "", re.sub(r"(\[[^\]]*\])+$", "", rhead.split("(")[0].strip()))
                mm = re.match(r"^(.+?) ?(\w+)$", decl)
                if mm and (where not in ("class", "namespace") or "(" not in rhead):
                    ty = mm.group(1)
                    shared_pointee = (ty.endswith("*") and not re.search(r"\bconst\b", ty[:-1])) or \
                        (re.match(r"^std::(unique|shared)_ptr<", ty) and not re.match(r"^std::(unique|shared)_ptr<const\b", ty)) or \
                        ty.split("::")[-1] in self.aliases
                    if shared_pointee:
                        self.add(("static", self.rel, scope, mm.group(2), norm(m.group(1) + "const " + ty)))
                return
            # a function declaration at class/namespace scope has its parameter list before any initialiser
            if where in ("class", "namespace") and "(" in rhead:
                return
            rhead = re.sub(r"(\[[^\]]*\])+$", "", rhead.split("(")[0].strip())
            mm = re.match(r"^(.+?) ?(\w+)$", rhead)
            if mm and mm.group(1) not in ("return",):
                self.add(("static", self.rel, scope, mm.group(2), norm(m.group(1) + mm.group(1))))
            return
        if where == "namespace":
            # plain non-const variable definitions at namespace scope
            if s.startswith(SKIP_START) or "(" in head or "operator" in head:
                return
            mm = re.match(r"^([\w:<>,\*& ]+?) ?(\w+)$", head)
            if mm and not re.match(r"^(constexpr|const)\b", mm.group(1)) and not mm.group(1).endswith("::"):
                self.add(("static", self.rel, scope, mm.group(2), norm("global " + mm.group(1))))
            return
        if where == "class":
            if s.startswith(SKIP_START) or "(" in head or "operator" in head:
                return
            mm = re.match(r"^(.+?) ?(\w+)$", head)
            if not mm:
                return
            ty, name = mm.group(1).strip(), mm.group(2)
            self.members.append((self.rel, scope, name, ty, self.line))
            # `T* name` / `T& name`: norm() glued the sigil to the type
            base = ty
            indirect = False
            if base.endswith("*") or base.endswith("*const"):
                indirect = not re.match(r"^const\b", base)
            elif base.endswith("&"):
                indirect = not re.match(r"^const\b", base)
            elif re.match(r"^std::(unique|shared)_ptr<", base):
                indirect = not re.match(r"^std::(unique|shared)_ptr<const\b", base)
            elif base.split("::")[-1] in self.aliases:
                indirect = True
            if indirect:
                self.add(("indirect", self.rel, scope, name, ty))

    def run(self):
        t = self.text
        stack = []   # (kind, name)
        buf = []
        start = None  # line of the first non-blank character of the statement being collected
        i, n = 0, len(t)
        line = 1

        def reset():
            nonlocal buf, start
            buf, start = [], None

        while i < n:
            c = t[i]
            if c == "\n":
                line += 1
            if start is None and not c.isspace() and c not in "{};":
                start = line
            self.line = start if start is not None else line
            if c == "{":
                header = "".join(buf)
                hs = header.strip()
                prev = re.search(r"(\w+|\S)\s*$", header)
                prevtok = prev.group(1) if prev else ""
                in_init = bool(stack) and stack[-1][0] == "init"
                mcls = re.search(r"\b(class|struct|union)\s+(?:NANO_PUBLIC\s+)?([\w:]+)(?:\s*<[^{};]*>)?(?:\s+final)?\s*(:[^:{;][^{;]*)?$", hs)
                # `[…](…) -> type {` / `auto f(…) const -> type {`: a body, not a brace initialiser
                trailing = re.search(r"\)\s*(?:const\s*|mutable\s*|noexcept\s*)*->\s*[\w:<>,\s\*&]+$", hs) is not None
                if in_init:
                    stack.append(("init", ""))
                    buf.append(c)
                elif re.search(r"\benum\b[^;{}()]*$", hs):
                    self.unclassified(header, self.line, True)
                    stack.append(("block", ""))
                    reset()
                elif mcls and "(" not in hs.split(mcls.group(1))[-1]:
                    self.unclassified(header, self.line, True)
                    name = mcls.group(2)
                    stack.append(("class", name))
                    if mcls.group(3):
                        bases = [re.sub(r"<.*$", "", norm(b)).split(" ")[-1].split("::")[-1]
                                 for b in re.sub(r"<[^<>]*>", "", mcls.group(3)[1:]).split(",")]
                        self.bases.setdefault(name.split("::")[-1], []).extend(b for b in bases if b)
                    reset()
                elif re.search(r"\bnamespace\b[^;{}()]*$", hs):
                    self.unclassified(header, self.line, True)
                    stack.append(("namespace", ""))
                    reset()
                elif not trailing and ((re.match(r"^\w+$", prevtok) and prevtok not in KEYWORDS_BLOCK)
                                       or prevtok in (">", "=", ",", "(", "{", "return")):
                    # brace initialiser inside a declaration / expression
                    stack.append(("init", ""))
                    buf.append(c)
                else:
                    # function body / lambda / control block: name of the function if recoverable
                    mf = re.search(r"([\w:~]+)\s*\([^;]*$", hs)
                    kind = "func" if self.innermost(stack) in ("namespace", "class") else "block"
                    # a function definition may start with `static`; a lambda / control block inside a statement may not hide one
                    self.unclassified(header, self.line, kind == "func")
                    stack.append((kind, mf.group(1) if (mf and kind == "func") else ""))
                    reset()
            elif c == "}":
                if not stack:
                    self.problems.append(f"{self.rel}:{line}: unbalanced braces")
                    return
                kind, _ = stack.pop()
                if kind == "init":
                    buf.append(c)
                else:
                    self.unclassified("".join(buf), self.line, False)
                    reset()
            elif c == ";":
                if stack and stack[-1][0] == "init":
                    buf.append(c)
                else:
                    self.statement("".join(buf), stack)
                    reset()
            else:
                buf.append(c)
            i += 1
        if stack:
            self.problems.append(f"{self.rel}: {len(stack)} unclosed scope(s) at end of file")


def bare_types(ty):
    """the class names a declared type mentions: `const std::vector<targets_iterator_t>&` -> {vector, targets_iterator_t}"""
    return {w.split("::")[-1] for w in re.findall(r"[A-Za-z_][\w:]*", ty)} - {"const", "std", "mutable", "volatile"}


def scan_full(repo):
    """-> dict(entries, problems, aliases, lines): entries sorted and unique, lines[entry] = line of its declaration"""
    files = []
    for top in ("include", "src"):
        for root, _, names in os.walk(os.path.join(repo, top)):
            for fn in names:
                if fn.endswith((".h", ".cpp", ".hpp")):
                    files.append(os.path.join(root, fn))
    files.sort()
    aliases = collect_aliases(files)
    entries, problems, lines, members, bases = [], [], {}, [], {}
    for f in files:
        rel = os.path.relpath(f, repo)
        sc = Scanner(rel, strip_code(open(f, errors="replace").read()), aliases)
        sc.run()
        entries += sc.entries
        problems += sc.problems
        members += sc.members
        for k, v in sc.lines.items():
            lines.setdefault(k, v)
        for k, v in sc.bases.items():
            bases.setdefault(k, []).extend(v)
    # holders: classes with mutable members, closed under "derives from" and "has a member of that class"
    bearing = {e[2].split("::")[-1] for e in entries if e[0] == "mutable"}
    using = []
    for f in files:
        for m in re.finditer(r"\busing\s+(\w+)\s*=\s*([^;]+);", strip_code(open(f, errors="replace").read())):
            using.append((m.group(1), m.group(2)))
    holders = {}
    changed = True
    while changed:
        changed = False
        for name, rhs in using:
            # containers / smart pointers of a bearing class only (a `std::variant` alias with the name of another class is not followed)
            if name not in bearing and re.match(r"^\s*std::(vector|unique_ptr|shared_ptr|array|deque|list)\s*<", rhs) and \
                    bare_types(rhs) & bearing:
                bearing.add(name)
                changed = True
        for cls, bs in bases.items():
            if cls not in bearing and any(b in bearing for b in bs):
                bearing.add(cls)
                changed = True
        for (rel, scope, name, ty, line) in members:
            hit = sorted(bare_types(ty) & bearing)
            if hit:
                key = ("holder", rel, scope, name, ty)
                if key not in holders and not any(e[0] in ("mutable", "indirect") and e[1:4] == (rel, scope, name) for e in entries):
                    holders[key] = line
                cls = scope.split("::")[-1]
                if cls not in bearing and cls != "-":
                    bearing.add(cls)
                    changed = True
    for k, v in holders.items():
        entries.append(k)
        lines.setdefault(k, v)
    return dict(entries=sorted(set(entries)), problems=problems, aliases=aliases, lines=lines, bearing=sorted(bearing))


def scan(repo):
    r = scan_full(repo)
    return r["entries"], r["problems"], r["aliases"]


if __name__ == "__main__":
    import sys
    es, ps, al = scan(sys.argv[1] if len(sys.argv) > 1 else "/repo")
    for e in es:
        print(e)
    print("problems:", ps)
    print("aliases:", sorted(al))
