"""C01, family `ls0`: the four step-initialisation strategies (src/lsearch0/*.cpp) and the glue lsearch_t::get
(src/solver/lsearch.cpp) — generator, independent oracle and comparator (used by tools/props/c01.py).

Three op shapes (harness/c01.cpp):
  ls0 run  … a real solver run (17 solvers x 4 strategies x 5 searches, the strategy's parameters over their domains)
  ls0 glue … a stand-alone lsearch_t on any sequence of (point, direction): ascent directions, calls after a failed search, …
  ls0 hist … a stand-alone lsearch0 object on a scripted history: any x, f, g, d, last step size, trial value (non-finite too)
"""
import math
from vlib import Toks, f2h, lst

STRATEGIES = ["constant", "linear", "quadratic", "cgdescent"]
COUNTS = {}          # what the oracle has seen (printed in the evidence through c01.distribution)


def count(key, by=1):
    COUNTS[key] = COUNTS.get(key, 0) + by
U = 1.1102230246251565e-16   # unit roundoff
RTOL_T0 = 1e-12


class P:
    pass


class Rec:
    pass


def parse_aug(aug):
    """the harness's part of the A line"""
    t = Toks(aug.split(" | ", 1)[1])
    p = P()
    p.strategy = t.s(); p.glue = t.int()
    p.eps = t.f(); p.constT0 = t.f(); p.linBeta = t.f(); p.linAlpha = t.f(); p.quadBeta = t.f(); p.quadAlpha = t.f()
    p.phi0 = t.f(); p.phi1 = t.f(); p.phi2 = t.f()
    p.n = t.int(); p.calls = t.int(); p.logged = t.int()
    recs = []
    for _ in range(p.logged):
        r = Rec()
        r.x = t.fs(); r.g = t.fs(); r.f = t.f(); r.d = t.fs(); r.last = t.f()
        r.dgE = t.f(); r.xnE = t.f(); r.gnE = t.f(); r.gsqE = t.f()
        r.has_trial = t.int(); r.trial = t.fs(); r.ftrial = t.f()
        r.t0 = t.f(); r.ok = t.int(); r.t = t.f(); r.x1 = t.fs(); r.g1 = t.fs(); r.f1 = t.f()
        recs.append(r)
    assert t.done()
    return p, recs


def same(a, b):
    return a == b or (a != a and b != b)


def vsame(a, b):
    return len(a) == len(b) and all(same(p, q) for p, q in zip(a, b))


def finite(v):
    return v == v and abs(v) != math.inf


# ---------------------------------------------------------------------------------------------------------------------
# the documented formulas, evaluated here (IEEE semantics for division by zero / non-finite values)

def fdiv(a, b):
    try:
        return a / b
    except ZeroDivisionError:
        if a != a or a == 0.0:
            return math.nan
        neg = (math.copysign(1.0, a) < 0) != (math.copysign(1.0, b) < 0)
        return -math.inf if neg else math.inf


def cmin(a, b):
    """std::min(a, b)"""
    return b if b < a else a


def cmax(a, b):
    """std::max(a, b)"""
    return b if a < b else a


def sumprod(u, v):
    prods = [a * b for a, b in zip(u, v)]
    try:
        return math.fsum(prods)
    except (ValueError, OverflowError):
        s = 0.0
        for q in prods:
            s += q
        return s


def formula(p, prevf, prevdg, fx, dg, xn, gn, gsq, last, f1, textbook=True):
    """the initial step each strategy documents, from the previous call's (f, g.d), this call's scalars and the last step size"""
    s = p.strategy
    if s == "constant":
        return p.constT0
    if s == "linear":
        if last < 0:
            return 1.0
        return cmin(1.0, fdiv(p.linAlpha * cmax(-(last * prevdg), p.linBeta * p.eps), -dg))
    if s == "quadratic":
        if last < 0:
            return 1.0
        return cmin(1.0, fdiv(p.quadAlpha * (2.0 * cmax(prevf - fx, p.quadBeta * p.eps)), -prevdg))
    # CG_DESCENT (Hager & Zhang): I0 at the first call, I1-I2 later
    if last < 0:
        if xn > 0:
            return fdiv(p.phi0 * xn, gn)
        if abs(fx) > 0:
            return fdiv(p.phi0 * abs(fx), gsq)
        return 1.0
    t1 = last * p.phi1
    above_tangent = (f1 - fx - t1 * dg) > 0      # the interpolating parabola is convex
    if f1 < fx and above_tangent:
        if textbook:
            return fdiv(dg * t1 * t1, 2.0 * (dg * t1 + (fx - f1)))
        # the same minimiser written as lsearch_step_t::quadratic does (differs from the line above on non-finite data only)
        return 0.0 - fdiv(0.5 * dg * (0.0 - t1), dg - fdiv(fx - f1, 0.0 - t1))
    return last * p.phi2


def t0_range(p, prev, r):
    """(nominal, lo, hi, slack): the formula under perturbation of the reductions by their rounding bounds"""
    n = max(1, len(r.g))
    dg = sumprod(r.g, r.d)
    ddg = 8 * n * U * sum(abs(a * b) for a, b in zip(r.g, r.d) if finite(a * b))
    gsq = sumprod(r.g, r.g)
    xn = max([abs(v) for v in r.x] + [0.0]) if all(v == v for v in r.x) else math.nan
    gn = max([abs(v) for v in r.g] + [0.0]) if all(v == v for v in r.g) else math.nan
    if prev is None:
        prevf, prevdg, dprev = 0.0, 1.0, 0.0
    else:
        prevf, prevdg, dprev = prev
    if p.strategy == "linear" and prev is None:
        prevdg = 1.0
    def around(v, dv):
        out = [v - dv, v, v + dv]
        if v - dv <= 0.0 <= v + dv:      # the sign of a zero sum depends on the order of the reduction
            out += [0.0, -0.0]
        return out
    vals = [formula(p, prevf, b, r.f, a, xn, gn, c, r.last, r.ftrial)
            for a in around(dg, ddg) for b in around(prevdg, dprev) for c in (gsq * (1 - 8 * n * U), gsq, gsq * (1 + 8 * n * U))]
    nominal = formula(p, prevf, prevdg, r.f, dg, xn, gn, gsq, r.last, r.ftrial)
    if p.strategy == "cgdescent" and not (1e-100 < abs(r.last * p.phi1) < 1e100):   # overflow / underflow of t1*t1
        vals += [formula(p, prevf, prevdg, r.f, a, xn, gn, gsq, r.last, r.ftrial, textbook=False) for a in around(dg, ddg)]
    fin = [v for v in vals if finite(v)]
    lo = min(fin) if fin else nominal
    hi = max(fin) if fin else nominal
    # CG_DESCENT's parabola step: the denominator dg t1 + (f - f1) cancels; two algebraically equal formulas differ by that much
    slack = RTOL_T0
    if p.strategy == "cgdescent" and not (r.last < 0) and finite(r.last):
        t1 = r.last * p.phi1
        den = dg * t1 + (r.f - r.ftrial)
        if finite(den) and den != 0.0:
            slack = min(1e-3, RTOL_T0 * max(1.0, (abs(dg * t1) + abs(r.f) + abs(r.ftrial)) / abs(den)))
    return (nominal, vals), lo, hi, slack, (r.f, dg, ddg)


def in_range(v, nominal, lo, hi, slack, all_nonfinite_ok):
    nominal, vals = nominal
    if v != v or abs(v) == math.inf:
        return any(same(v, w) for w in vals) or all_nonfinite_ok
    if not any(finite(w) for w in vals):
        return False
    w = slack * max(abs(lo), abs(hi), abs(v)) + 1e-300
    return lo - w <= v <= hi + w


def nonfinite_inputs(p, prev, r):
    vals = [r.f, r.last, r.ftrial] + r.x + r.g + r.d
    if prev is not None:
        vals += [prev[0], prev[1]]
    return not all(finite(v) for v in vals)


# ---------------------------------------------------------------------------------------------------------------------
# oracle

def oracle(aug, res, quad=None):
    """independent evaluation on the implementation's answer: every initial step is what the strategy's formula gives on the
    logged history; it is positive and finite under the documented preconditions; a success leaves the state at x + t d with
    t > 0; a refusal leaves it untouched and hands the initial step back; the object remembers the last step"""
    if not res.startswith("ok "):
        return f"ls0: implementation did not answer: {res[:120]}"
    p, recs = parse_aug(aug)
    t = Toks(res); t.s(); calls = t.int(); logged = t.int()
    if calls != p.calls or logged != len(recs):
        return "ls0: result and augmented op disagree on the number of calls"
    prev = None
    for k, r in enumerate(recs):
        t0 = t.f(); ok = t.int(); tt = t.f()
        if not same(t0, r.t0) or ok != r.ok or not same(tt, r.t):
            return f"ls0: call {k}: result line and trace disagree"
        nominal, lo, hi, slack, cur = t0_range(p, prev, r)
        wild = nonfinite_inputs(p, prev, r)
        # NaN entries: Eigen's max-reduction of a vector with NaNs is unspecified; skip the two norms' users
        skip = p.strategy == "cgdescent" and r.last < 0 and (any(v != v for v in r.x) or any(v != v for v in r.g))
        if not skip and not in_range(t0, nominal, lo, hi, slack, False):
            return (f"ls0: {p.strategy}: call {k}: initial step {t0!r} is not what the strategy's formula gives on the history "
                    f"({nominal[0]!r}, range [{lo!r}, {hi!r}]; last step {r.last!r})")
        # the strategy's own evaluation: CG_DESCENT only, not on a first call, at x + (last phi1) d
        want_trial = p.strategy == "cgdescent" and not (r.last < 0)
        if bool(r.has_trial) != want_trial:
            return f"ls0: {p.strategy}: call {k}: the strategy evaluated the function {r.has_trial} time(s), expected {int(want_trial)}"
        if want_trial:
            s = r.last * p.phi1
            xt = [a + s * b for a, b in zip(r.x, r.d)]
            if not vsame(xt, r.trial):
                return f"ls0: cgdescent: call {k}: the trial point is not x + last*phi1*d"
            if quad is not None:
                fq = quad(r.trial)
                if not same(fq, r.ftrial):
                    return f"ls0: cgdescent: call {k}: the value used for the trial point is not f(trial)"
        # positivity under the documented preconditions (values of moderate magnitude: no underflow of the quotients)
        tame = (not wild) and all(v == 0.0 or 1e-100 < abs(v) < 1e100 for v in [r.f, r.last, r.ftrial, r.dgE, r.gsqE] + r.x + r.g + r.d)
        descent = r.dgE < 0 and cur[1] + cur[2] < 0
        first = r.last < 0
        if p.strategy == "constant":
            pre = True
        elif p.strategy == "linear":
            pre = tame and descent
        elif p.strategy == "quadratic":
            pre = tame and (first or (prev is not None and prev[1] + prev[2] < 0))
        else:
            pre = tame and ((first and r.gnE > 0) or r.last > 0)
        shape_ = aug.split()[1]
        count(f"ls0:{shape_}:{p.strategy}:calls")
        if first:
            count(f"ls0:{p.strategy}:first-call")
        elif p.strategy == "cgdescent":
            parab = finite(t0) and finite(r.last) and not same(t0, r.last * p.phi2)
            count("ls0:cgdescent:parabola-step" if parab else "ls0:cgdescent:phi2-step")
        elif p.strategy in ("linear", "quadratic"):
            count(f"ls0:{p.strategy}:capped-at-1" if t0 == 1.0 else f"ls0:{p.strategy}:interpolated")
        if pre:
            count("ls0:positivity-preconditions-hold")
        if not (t0 > 0) or not finite(t0):
            count("ls0:nonpositive-or-nonfinite-t0(outside preconditions)")
        if p.glue and not r.ok:
            count("ls0:glue:failed-search" if r.dgE < 0 else "ls0:glue:refused-nondescent")
        if pre and not t0 > 0:
            return f"ls0: {p.strategy}: call {k}: initial step {t0!r} is not positive although the documented preconditions hold"
        if p.glue:
            # the glue: first call with -1, later calls with the step the previous search handed back (success or not)
            want_last = -1.0 if k == 0 else recs[k - 1].t
            if not same(r.last, want_last):
                return f"ls0: glue: call {k}: last step size {r.last!r}, the previous search handed back {want_last!r}"
            if r.ok:
                xn = [a + r.t * b for a, b in zip(r.x, r.d)]
                if not (r.t > 0):
                    return f"ls0: glue: call {k}: success with the step {r.t!r}"
                if not vsame(xn, r.x1):
                    return f"ls0: glue: call {k}: success but the state left is not at x + t d"
                if quad is not None and not same(quad(r.x1), r.f1):
                    return f"ls0: glue: call {k}: the value left is not f(x + t d)"
            if not (r.dgE < 0) and not wild and (cur[1] - cur[2] > 0 or cur[1] == 0.0):
                if r.ok or not vsame(r.x1, r.x) or not same(r.f1, r.f) or not vsame(r.g1, r.g) or not same(r.t, r.t0):
                    return f"ls0: glue: call {k}: a non-descent direction was not refused with the state untouched"
        prev = (r.f, cur[1], cur[2]) if p.strategy in ("quadratic", "linear") else (0.0, 1.0, 0.0)
    return None


# ---------------------------------------------------------------------------------------------------------------------
# comparator (implementation vs Lean model)

def compare(aug, impl, model):
    p, recs = parse_aug(aug)
    t = Toks(model)
    if t.s() != "ok" or t.int() != len(recs):
        return False
    prev = None
    memf, memdg = 0.0, 1.0
    for k, r in enumerate(recs):
        t0core = t.f(); t0full = t.f(); dgM = t.f(); xnM = t.f(); gnM = t.f(); gsqM = t.f()
        mf = t.f(); mdg = t.f(); extra = t.int(); trialM = t.fs(); lastM = t.f()
        nominal, lo, hi, slack, cur = t0_range(p, prev, r)
        nan_vec = any(v != v for v in r.x) or any(v != v for v in r.g)
        # core path: same reductions, same formula, same order: 1e-12 (bit-identical in practice)
        if not (same(t0core, r.t0) or (finite(t0core) and finite(r.t0) and abs(t0core - r.t0) <= RTOL_T0 * abs(r.t0))):
            if not (nan_vec and p.strategy == "cgdescent"):
                return False
        # full path: the model's own reductions
        if not (nan_vec and p.strategy == "cgdescent"):
            if not (same(t0full, r.t0) or in_range(t0full, nominal, lo, hi, slack, False)):
                return False
        # reductions
        if finite(r.dgE) and finite(dgM):
            if abs(dgM - r.dgE) > cur[2] + 1e-300:
                return False
        elif not same(dgM, r.dgE) and not nonfinite_inputs(p, None, r):
            return False
        if not nan_vec:
            if not same(xnM, r.xnE) or not same(gnM, r.gnE):
                return False
            if not (same(gsqM, r.gsqE) or abs(gsqM - r.gsqE) <= 8 * max(1, p.n) * U * abs(r.gsqE)):
                return False
        # members after the call (core path): documented function of this call
        if p.strategy == "quadratic":
            memf, memdg = r.f, r.dgE
        elif p.strategy == "linear":
            memdg = r.dgE
        if not same(mf, memf) or not same(mdg, memdg):
            return False
        if extra != r.has_trial:
            return False
        if r.has_trial and not vsame(trialM, r.trial):
            return False
        # the object's last step size (the glue) against the logged m_last_step_size
        if not same(lastM, r.last):
            return False
        prev = (r.f, cur[1], cur[2]) if p.strategy in ("quadratic", "linear") else (0.0, 1.0, 0.0)
    return t.done()


# ---------------------------------------------------------------------------------------------------------------------
# generator

def log_uniform(rng, lo, hi):
    return math.exp(rng.uniform(math.log(lo), math.log(hi)))


def strategy_params(rng, s):
    """the registered parameters of the strategy, over their (open) domains; boundary-biased"""
    out = []
    def pick(lo, hi, default):
        c = rng.below(6)
        if c == 0:
            return default
        if c == 1:
            return 1e-12 if lo == 0.0 else lo * (1 + 1e-9)
        if c == 2:
            return hi * (1 - 1e-9)
        return log_uniform(rng, 1e-9, hi * 0.999) if lo == 0.0 else lo + log_uniform(rng, 1e-6, hi - lo) * 0.999
    if s == "constant":
        out.append(("lsearch0::constant::t0", pick(0.0, 1e6, 1.0) if rng.chance(0.5) else log_uniform(rng, 1e-3, 1e2)))
    elif s == "linear":
        out.append(("lsearch0::linear::beta", pick(1.0, 1e6, 10.0)))
        out.append(("lsearch0::linear::alpha", pick(1.0, 1e6, 1.01) if rng.chance(0.3) else 1.0 + log_uniform(rng, 1e-4, 10.0)))
    elif s == "quadratic":
        out.append(("lsearch0::quadratic::beta", pick(1.0, 1e6, 10.0)))
        out.append(("lsearch0::quadratic::alpha", pick(1.0, 1e6, 1.01) if rng.chance(0.3) else 1.0 + log_uniform(rng, 1e-4, 10.0)))
    else:
        out.append(("lsearch0::cgdescent::phi0", pick(0.0, 1.0, 0.01)))
        out.append(("lsearch0::cgdescent::phi1", pick(0.0, 1.0, 0.1)))
        out.append(("lsearch0::cgdescent::phi2", pick(1.0, 1e6, 2.0) if rng.chance(0.3) else 1.0 + log_uniform(rng, 1e-3, 20.0)))
    if rng.chance(0.3):
        out = out[:rng.below(len(out) + 1)]
    return out


def fmt_p0(params):
    return " ".join([str(len(params))] + [f"{n} {f2h(v)}" for n, v in params])


def special(rng, scale=1.0):
    c = rng.below(8)
    if c == 0:
        return 0.0
    if c == 1:
        return math.inf if rng.chance(0.5) else -math.inf
    if c == 2:
        return math.nan
    if c == 3:
        return -0.0
    return rng.uniform(-scale, scale)


def gen_hist(rng):
    s = rng.choice(STRATEGIES)
    params = strategy_params(rng, s)
    if rng.chance(0.5):
        params.append(("lsearch0::epsilon", log_uniform(rng, 1e-12, 0.5)))
    n = rng.range(1, 5)
    calls = rng.range(1, 8)
    wild = rng.chance(0.35)
    parts = []
    last = -1.0
    fprev = rng.uniform(-10, 10)
    if rng.chance(0.12):
        return gen_hist_dyadic(rng, s, n, calls)
    for k in range(calls):
        scale = 10.0 ** rng.uniform(-3, 3)
        x = [rng.uniform(-scale, scale) for _ in range(n)]
        if rng.chance(0.15):
            x = [0.0] * n
        g = [rng.uniform(-scale, scale) for _ in range(n)]
        if rng.chance(0.1):
            g = [0.0] * n
        # mostly descent directions: d = -g + noise; sometimes ascent / orthogonal / zero
        c = rng.below(10)
        if c < 6:
            d = [-v + 0.3 * rng.uniform(-scale, scale) for v in g]
        elif c < 8:
            d = [v for v in g]
        elif c == 8:
            d = [0.0] * n
        else:
            d = [rng.uniform(-1, 1) for _ in range(n)]
        fx = fprev - abs(rng.uniform(0, scale)) if rng.chance(0.7) else rng.uniform(-scale, scale)
        if rng.chance(0.1):
            fx = 0.0
        # the last step size: first call, a positive step, zero, other
        c = rng.below(12)
        if k == 0 and c < 8:
            last = -1.0
        elif c < 9:
            last = log_uniform(rng, 1e-12, 1e3)
        elif c == 9:
            last = 0.0
        elif c == 10:
            last = -log_uniform(rng, 1e-6, 1e3)
        else:
            last = rng.choice([1.0, 1e-300, 1e300, -0.0])
        dg = sum(a * b for a, b in zip(g, d))
        t1 = (last if last == last else 0.0) * 0.1
        c = rng.below(6)
        if c == 0:
            ftrial = fx + t1 * dg * rng.uniform(0.0, 0.999)       # lower, above the tangent: the parabola step
        elif c == 1:
            ftrial = fx + t1 * dg * rng.uniform(1.001, 3.0)       # below the tangent: not convex
        elif c == 2:
            ftrial = fx + abs(rng.uniform(0, scale))              # higher
        elif c == 3:
            ftrial = fx
        else:
            ftrial = rng.uniform(-scale, scale)
        if wild:
            if rng.chance(0.25):
                fx = special(rng, scale)
            if rng.chance(0.2):
                ftrial = special(rng, scale)
            if rng.chance(0.2):
                last = rng.choice([math.nan, math.inf, -math.inf])
            if rng.chance(0.15):
                g[rng.below(n)] = rng.choice([math.inf, -math.inf, math.nan])
            if rng.chance(0.1):
                x[rng.below(n)] = rng.choice([math.inf, math.nan])
            if rng.chance(0.1):
                d[rng.below(n)] = rng.choice([math.inf, math.nan, 0.0])
        parts.append(f"{lst(x, f2h)} {f2h(fx)} {lst(g, f2h)} {lst(d, f2h)} {f2h(last)} {f2h(ftrial)}")
        fprev = fx if fx == fx and abs(fx) != math.inf else 0.0
    return f"ls0 hist {s} {fmt_p0(params)} {n} {calls} " + " ".join(parts)


def gen_hist_dyadic(rng, s, n, calls):
    """small dyadic values and parameters: every product and sum is exact, so the comparisons of the strategies are hit
    exactly on their boundaries (trial value on the tangent / equal to f, zero slopes, f_prev - f equal to beta*epsilon, ...)"""
    params = {"constant": [("lsearch0::constant::t0", rng.choice([0.5, 1.0, 2.0]))],
              "linear": [("lsearch0::linear::beta", 2.0), ("lsearch0::linear::alpha", rng.choice([1.5, 2.0]))],
              "quadratic": [("lsearch0::quadratic::beta", 2.0), ("lsearch0::quadratic::alpha", rng.choice([1.5, 2.0]))],
              "cgdescent": [("lsearch0::cgdescent::phi0", 0.5), ("lsearch0::cgdescent::phi1", rng.choice([0.5, 0.25])),
                            ("lsearch0::cgdescent::phi2", rng.choice([2.0, 4.0]))]}[s]
    params.append(("lsearch0::epsilon", rng.choice([0.5, 0.25, 0.125])))
    phi1 = dict(params).get("lsearch0::cgdescent::phi1", 0.5)
    beps = 2.0 * dict(params)["lsearch0::epsilon"]
    parts = []
    fprev = float(rng.range(-4, 4))
    for k in range(calls):
        x = [float(rng.range(-2, 2)) for _ in range(n)]
        g = [float(rng.range(-3, 3)) for _ in range(n)]
        d = [float(rng.range(-3, 3)) for _ in range(n)]
        dg = sum(a * b for a, b in zip(g, d))
        fx = rng.choice([fprev - beps, fprev, fprev - 1.0, fprev + 1.0, float(rng.range(-4, 4))])
        last = rng.choice([-1.0, 0.0, 0.5, 1.0, 2.0, 4.0]) if k > 0 or rng.chance(0.5) else -1.0
        t1 = last * phi1
        ftrial = rng.choice([fx + t1 * dg, fx, fx + t1 * dg + 0.25, fx + t1 * dg - 0.25, fx - 0.25, fx + 0.5 * t1 * dg])
        parts.append(f"{lst(x, f2h)} {f2h(fx)} {lst(g, f2h)} {lst(d, f2h)} {f2h(last)} {f2h(ftrial)}")
        fprev = fx
    return f"ls0 hist {s} {fmt_p0(params)} {n} {calls} " + " ".join(parts)


def quad_grad(A, a, x):
    return [sum(A[i][j] * x[j] for j in range(len(x))) + a[i] for i in range(len(x))]


def gen_glue(rng, c01):
    s = rng.choice(STRATEGIES)
    lsk = rng.choice(c01.LSEARCHK)
    params = strategy_params(rng, s)
    eps = c01.eps_grid(rng)
    c1 = 10.0 ** rng.uniform(-6.0, math.log10(0.45))
    c2 = rng.uniform(max(c1 * 1.01, 0.05), 0.99)
    n = rng.range(1, 6)
    A, a, xs = c01.random_quadratic(rng, n, 10.0 ** (3.0 * rng.unit()), 10.0 ** rng.uniform(-2.0, 2.0))
    calls = rng.range(2, 7)
    parts = []
    x = c01.start_point(rng, n, 10.0 ** rng.uniform(-2.0, 1.0))
    cont = False
    for k in range(calls):
        g = quad_grad(A, a, x)
        c = rng.below(10)
        if cont:
            # the point is wherever the previous call left the state: the direction cannot depend on it
            d = [-(xi - si) + 0.2 * rng.uniform(-1, 1) for xi, si in zip(x, xs)] if c < 7 else [rng.uniform(-1, 1) for _ in range(n)]
        elif c < 6:
            d = [-v * (1.0 + 0.3 * rng.uniform(-1, 1)) for v in g]
        elif c < 8:
            d = list(g)                                   # ascent
        elif c == 8:
            d = [0.0] * n
        else:
            d = [rng.uniform(-1, 1) for _ in range(n)]
        parts.append(f"{lst([] if cont else x, f2h)} {lst(d, f2h)}")
        cont = rng.chance(0.4)
        if not cont:
            x = c01.start_point(rng, n, 10.0 ** rng.uniform(-2.0, 1.0)) if rng.chance(0.6) else x
    return (f"ls0 glue {s} {lsk} {fmt_p0(params)} {f2h(eps)} {f2h(c1)} {f2h(c2)} {c01.quad_spec(A, a)} {calls} " + " ".join(parts))


def gen_run(rng, c01, sid, s, lsk):
    params0 = strategy_params(rng, s)
    eps = c01.eps_grid(rng)
    params = [("solver::epsilon", "f", eps), ("solver::max_evals", "i", rng.choice([10, 20, 50, 100, 200]))]
    if rng.chance(0.6):
        c1 = 10.0 ** rng.uniform(-6.0, math.log10(0.45))
        c2 = rng.uniform(max(c1 * 1.01, 0.05), 0.99)
        params.append(("solver::tolerance", "p", (c1, c2)))
    if rng.chance(0.5):
        n = rng.range(1, 8)
        A, a, xs = c01.random_quadratic(rng, n, 10.0 ** (4.0 * rng.unit()), 10.0 ** rng.uniform(-3.0, 3.0))
        fnspec = c01.quad_spec(A, a)
    else:
        fid = rng.choice(c01.SMOOTH)
        n = rng.choice([1, 2, 3, 4, 8])
        if fid == "rosenbrock" or "+" in fid:
            n = max(n, 2)
        if fid == "powell":
            n = max(4, n - n % 4)
        fnspec = f"bench {fid} {n} {rng.choice([10, 50])} 0"
    x0 = c01.start_point(rng, n, 10.0 ** rng.uniform(-3.0, 1.0))
    if rng.chance(0.12):
        x0 = [0.0] * n      # CG_DESCENT's first step has its own formula at the origin
    head = c01.make_op("ls0", sid, s, lsk, params, fnspec, x0)
    assert head.startswith("ls0 run ")
    return "ls0 run " + fmt_p0(params0) + " " + head[len("ls0 run "):]


def gen(rng, tier, c01):
    ops = []
    rounds = 1 if tier == "quick" else 8
    for _ in range(rounds):
        for sid in c01.LS_SOLVERS:
            for s in STRATEGIES:
                for lsk in c01.LSEARCHK:
                    ops.append(gen_run(rng, c01, sid, s, lsk))
    for _ in range(250 if tier == "quick" else 2500):
        ops.append(gen_glue(rng, c01))
    for _ in range(600 if tier == "quick" else 6000):
        ops.append(gen_hist(rng))
    return ops


def shape(aug):
    return aug.split()[1]


def quad_of(aug, c01):
    """the quadratic of the op line as a python function (bit-identical to quad_t::do_vgrad of the harness), or None"""
    head = aug.split(" | ")[0].split()
    if "quad" not in head:
        return None
    i = head.index("quad")
    t = Toks(" ".join(head[i + 1:]))
    n = t.int(); A = t.fs(); a = t.fs()
    if len(A) != n * n or len(a) != n:
        return None
    rows = [A[k * n:(k + 1) * n] for k in range(n)]
    return lambda x: c01.quad_eval(rows, a, x)[0]


def calls_of(aug):
    try:
        return int(aug.split(" | ", 1)[1].split()[12])
    except Exception:
        return 0
