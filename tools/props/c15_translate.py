"""C15 — translation of the FIELD LAYOUTS of the serialised classes.

Every `X::read(std::istream&)` / `X::write(std::ostream&) const` of the anchored files (and the two free functions for
`dtree_node_t`) is a base-class call followed by a flat sequence of `::nano::read(stream, m_a)` / `::nano::read_cast<T>(stream, m_a)`
resp. `::nano::write(stream, m_a)` / `::nano::write(stream, static_cast<T>(m_a))` items. This module re-reads those sequences from the
source on every run and emits them as `NanoVerif/Gen/CodecLayout.lean`:

    readLayouts / writeLayouts : List Layout      Layout = (class, base class, [(field, on-the-wire cast, declared type)])

`Proofs/CodecLayoutGen.lean` holds the hand-written table `modelLayouts` (= what `Model/Wire.lean` encodes, codec by codec) and the
theorems `model_write_layout_is_generated`, `model_read_layout_is_generated` (kernel `decide`), hence `read_layout_eq_write_layout`.
A field that is read but not written, written in another order than read, or cast to another width on one side only, changes the
generated text and breaks the obligation whatever inputs the correspondence run happens to generate.

Normalisation of a field expression (harmless spellings do not matter): `m_x`, `node.m_x`, `nano::x` -> `x`; `scat(m_type)` and a
local string later converted by `m_type = from_string<…>(local)` -> (`type`, cast `string`); `static_cast<T>(e)` / `read_cast<T>` ->
cast `T`. Anything else in the shape of an item is a translation failure (Broken), never silently skipped.
`parameter_t::read / write` (a switch over the variant) is not a flat layout: it stays with the correspondence run and C19.
"""
import os, re
import vlib
from vlib import Broken

# (file, class as written in the source, "member" | "free")
SOURCES = [
    ("src/configurable.cpp", "configurable_t", "member", "include/nano/configurable.h"),
    ("src/feature.cpp", "feature_t", "member", "include/nano/feature.h"),
    ("src/learner.cpp", "learner_t", "member", "include/nano/learner.h"),
    ("src/linear.cpp", "linear_t", "member", "include/nano/linear.h"),
    ("src/gboost/model.cpp", "gboost_model_t", "member", "include/nano/gboost/model.h"),
    ("src/wlearner/single.cpp", "single_feature_wlearner_t", "member", "include/nano/wlearner/single.h"),
    ("src/wlearner/stump.cpp", "stump_wlearner_t", "member", "include/nano/wlearner/stump.h"),
    ("src/wlearner/hinge.cpp", "hinge_wlearner_t", "member", "include/nano/wlearner/hinge.h"),
    ("src/wlearner/table.cpp", "table_wlearner_t", "member", "include/nano/wlearner/table.h"),
    ("src/wlearner/dtree.cpp", "dtree_wlearner_t", "member", "include/nano/wlearner/dtree.h"),
    ("src/wlearner/dtree.cpp", "dtree_node_t", "free", "include/nano/wlearner/dtree.h"),
]
# classes whose read / write is only inherited (the base named by a derived class resolves to the next one up)
INHERITED = [("src/wlearner.cpp", "wlearner_t", "learner_t"), ("src/wlearner/affine.cpp", "affine_wlearner_t", "single_feature_wlearner_t")]


def _body(text, start, where):
    """the brace-balanced block starting at the first `{` at or after `start`"""
    i = text.find("{", start)
    if i < 0:
        raise Broken("translate", f"{where}: no body")
    depth = 0
    for j in range(i, len(text)):
        if text[j] == "{":
            depth += 1
        elif text[j] == "}":
            depth -= 1
            if depth == 0:
                return text[i + 1:j]
    raise Broken("translate", f"{where}: unbalanced braces")


def _strip_comments(s):
    s = re.sub(r"//[^\n]*", "", s)
    return re.sub(r"/\*.*?\*/", "", s, flags=re.S)


def _args(text, i, where):
    """text[i] == '(' : returns (list of top-level comma separated arguments, index after the closing parenthesis)"""
    depth = 0
    args, cur = [], []
    for j in range(i, len(text)):
        c = text[j]
        if c in "(<[{":
            depth += 1
            if depth > 1:
                cur.append(c)
        elif c in ")>]}":
            depth -= 1
            if depth == 0:
                args.append("".join(cur).strip())
                return args, j + 1
            cur.append(c)
        elif c == "," and depth == 1:
            args.append("".join(cur).strip()); cur = []
        else:
            cur.append(c)
    raise Broken("translate", f"{where}: unbalanced parentheses")


_NAME = re.compile(r"^(?:node\.|this->)?m_(\w+)$|^nano::(\w+)$")


def _decl(name, glob, header, vin, where):
    """declared type of member `m_<name>` in the class header (of the constant `nano::<name>` in cmake/version.h.in)"""
    if glob:
        m = re.search(r"constexpr\s+([\w:]+)\s+%s\s*=" % re.escape(name), vin)
    else:
        m = re.search(r"^[ \t]*((?:(?:const|mutable)\s+)*[\w:]+(?:<[^;{}()]*>)?)\s+m_%s\b\s*(\{[^;]*\})?\s*;" % re.escape(name), header, re.M)
    if not m:
        raise Broken("translate", f"{where}: declaration of {'nano::' if glob else 'm_'}{name} not found")
    return re.sub(r"\s+", " ", re.sub(r"\b(const|mutable)\s+", "", m.group(1))).strip()


def _field(expr, cast, locals_, where, header="", vin=""):
    n, c, g = _field0(expr, cast, locals_, where)
    return (n, c, _decl(n, g, header, vin, where))


def _field0(expr, cast, locals_, where):
    expr = expr.strip()
    m = re.match(r"^static_cast<\s*([\w:]+)\s*>\s*\((.*)\)$", expr, re.S)
    if m:
        if cast:
            raise Broken("translate", f"{where}: two casts on {expr!r}")
        cast, expr = m.group(1), m.group(2).strip()
    m = re.match(r"^scat\(\s*m_(\w+)\s*\)$", expr)
    if m:
        return (m.group(1), cast or "string", False)
    if expr in locals_:
        return (locals_[expr], cast or "string", False)
    m = _NAME.match(expr)
    if not m:
        raise Broken("translate", f"{where}: field expression {expr!r} is not in a known shape")
    return (m.group(1) or m.group(2), cast, bool(m.group(2)))


def _layout(body, cls, kind, where, header, vin):
    body = _strip_comments(body)
    base = ""
    m = re.search(r"\b(\w+)::%s\(\s*stream\s*\)\s*;" % kind, body)
    if m:
        base = m.group(1)
        if body.find("::nano::") >= 0 and body.find("::nano::") < m.start():
            raise Broken("translate", f"{where}: the base-class call is not the first statement")
    # locals converted into a member after the read: `m_type = from_string<feature_type>(type);`
    locals_ = {}
    for lm in re.finditer(r"\bm_(\w+)\s*=\s*from_string<[^>]*>\(\s*(\w+)\s*\)\s*;", body):
        locals_[lm.group(2)] = lm.group(1)
    items = []
    for im in re.finditer(r"::nano::(read|write)(_cast<\s*([\w:]+)\s*>)?\s*\(", body):
        if im.group(1) != kind:
            raise Broken("translate", f"{where}: a {im.group(1)} inside a {kind} function")
        args, _ = _args(body, im.end() - 1, where)
        if len(args) != 2 or args[0] != "stream":
            raise Broken("translate", f"{where}: item with arguments {args}")
        items.append(_field(args[1], im.group(3) or "", locals_, where, header, vin))
    if not items:
        raise Broken("translate", f"{where}: no serialised field found")
    # nothing else may touch the stream (a raw stream.write / operator<< would be a field this parser does not see)
    rest = re.sub(r"::nano::(read|write)(_cast<[^>]*>)?\s*\(", "", body)
    if re.search(r"\bstream\s*(\.\s*(read|write|get|put|ignore|seekg|seekp)\b|<<|>>)", rest):
        raise Broken("translate", f"{where}: the stream is also used directly")
    return (cls, base, items)


def layouts(repo=None):
    repo = repo or vlib.REPO
    out = {"read": [], "write": []}
    vin = open(os.path.join(repo, "cmake", "version.h.in")).read()
    for rel, cls, base in INHERITED:
        t = _strip_comments(open(os.path.join(repo, rel)).read())
        if re.search(r"\b%s::(read|write)\s*\(\s*std::[io]stream" % cls, t):
            raise Broken("translate", f"{rel}: {cls} now defines its own read / write (was: inherited from {base})")
    for rel, cls, form, hdr in SOURCES:
        text = open(os.path.join(repo, rel)).read()
        header = _strip_comments(open(os.path.join(repo, hdr)).read())
        for kind, st in (("read", "istream"), ("write", "ostream")):
            if form == "member":
                pat = r"std::%s&\s+%s::%s\s*\(\s*std::%s&\s+stream\s*\)(\s*const)?\s*\{" % (st, cls, kind, st)
            else:
                pat = r"std::%s&\s+nano::%s\s*\(\s*std::%s&\s+stream\s*,\s*(const\s+)?%s&\s+\w+\s*\)\s*\{" % (st, kind, st, cls)
            ms = list(re.finditer(pat, text))
            if len(ms) != 1:
                raise Broken("translate", f"{rel}: {len(ms)} definitions of {cls} {kind}(std::{st}&) (expected 1)")
            where = f"{rel}:{text[:ms[0].start()].count(chr(10)) + 1} {cls}::{kind}"
            out[kind].append(_layout(_body(text, ms[0].end() - 1, where), cls, kind, where, header, vin))
    return out


# the aliases the declared types go through (alias, header): their right-hand sides decide the on-the-wire element type / rank
TYPEDEFS = [("scalar_t", "include/nano/scalar.h"), ("tensor_size_t", "include/nano/tensor/index.h"),
            ("string_t", "include/nano/string.h"), ("strings_t", "include/nano/string.h"),
            ("tensor1d_t", "include/nano/tensor.h"), ("tensor2d_t", "include/nano/tensor.h"), ("tensor3d_t", "include/nano/tensor.h"),
            ("tensor4d_t", "include/nano/tensor.h"), ("tensor3d_dims_t", "include/nano/tensor.h"),
            ("indices_t", "include/nano/tensor/tensor.h"), ("hashes_t", "include/nano/dataset/hash.h"),
            ("features_t", "include/nano/feature.h"), ("parameters_t", "include/nano/parameter.h"),
            ("rwlearner_t", "include/nano/wlearner.h"), ("rwlearners_t", "include/nano/wlearner.h"),
            ("dtree_nodes_t", "include/nano/wlearner/dtree.h")]


def typedefs(repo=None):
    repo = repo or vlib.REPO
    out = []
    for alias, hdr in TYPEDEFS:
        t = _strip_comments(open(os.path.join(repo, hdr)).read())
        ms = re.findall(r"\busing\s+%s\s*=\s*([^;]+);" % alias, t)
        if len(ms) != 1:
            raise Broken("translate", f"{hdr}: {len(ms)} declarations `using {alias} = …` (expected 1)")
        out.append((alias, re.sub(r"\s+", " ", ms[0]).strip()))
    return out


def _lean_layout(l):
    cls, base, items = l
    its = ", ".join(f'("{n}", "{c}", "{t}")' for n, c, t in items)
    return f'  ⟨"{cls}", "{base}", [{its}]⟩'


def translate(repo=None):
    ls = layouts(repo)
    text = (
        "-- GENERATED by tools/props/c15_translate.py from the read / write member functions of src/configurable.cpp, src/feature.cpp,\n"
        "-- src/learner.cpp, src/linear.cpp, src/gboost/model.cpp, src/wlearner/{single,stump,hinge,table,dtree}.cpp — do not edit\n"
        "namespace NanoVerif.Gen.CodecLayout\n\n"
        "/-- class, base class whose read / write is called first (\"\" = none), then the fields in stream order as\n"
        "    (member name without `m_`, on-the-wire cast — \"\" = none —, declared type of the member in the class header) -/\n"
        "structure Layout where\n  cls : String\n  base : String\n  items : List (String × String × String)\n  deriving DecidableEq, Repr\n\n"
        "/-- the `read(std::istream&)` functions -/\ndef readLayouts : List Layout := [\n"
        + ",\n".join(_lean_layout(l) for l in ls["read"]) + "]\n\n"
        "/-- the `write(std::ostream&) const` functions -/\ndef writeLayouts : List Layout := [\n"
        + ",\n".join(_lean_layout(l) for l in ls["write"]) + "]\n\n"
        "/-- `using <alias> = <type>;` of the aliases the declared types go through -/\ndef typedefs : List (String × String) := [\n"
        + ",\n".join(f'  ("{a}", "{r}")' for a, r in typedefs(repo)) + "]\n\n"
        "end NanoVerif.Gen.CodecLayout\n")
    vlib.write_if_changed(os.path.join(vlib.LEAN, "NanoVerif", "Gen", "CodecLayout.lean"), text)
    return ls


if __name__ == "__main__":
    import sys
    for kind, ls in layouts(sys.argv[1] if len(sys.argv) > 1 else None).items():
        for l in ls:
            print(kind, l)
