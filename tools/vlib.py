#!/usr/bin/env python3
"""Shared machinery of the libnano verification checks (see DESIGN.md §2.2).

Pipeline of one check (tools/check.py <ID>):
  1. rebuild libnano from /repo's working tree (hooks on: -DNANO_VERIF) into /verif/.cache/build-<flavour>
  2. re-translate the generated Lean fragments (NanoVerif/Gen/*.lean) from the current source
  3. `lake build` the property's theorem modules + the driver
  4. axiom audit (#print axioms on every obligation) + forbidden-token scan
  5. correspondence: generator (python, seeded) -> ops; C++ harness executes ops on the real code
     (and may augment an op with oracle answers, e.g. the permutation std::shuffle produced);
     the Lean driver executes the same (augmented) ops on the model; results are diffed
  6. property oracle: an independent python evaluation of the property statement on the implementation's answers
  7. verdict / replay file / evidence
"""
import fcntl, hashlib, json, os, re, shutil, subprocess, sys, time

VERIF = os.path.dirname(os.path.dirname(os.path.abspath(__file__)))
REPO = os.path.abspath(os.environ.get("VERIF_REPO", "/repo"))
# build cache of libnano + harnesses; a scratch worktree given by VERIF_REPO (used to try seeded changes without
# touching /repo) gets its own cache directory so that it never mixes with the cache of /repo
CACHE = os.path.join(VERIF, ".cache") if REPO == "/repo" else os.path.join(VERIF, ".cache", "alt-" + hashlib.sha1(REPO.encode()).hexdigest()[:10])
LEANCACHE = os.path.join(VERIF, ".cache")
EVIDENCE = os.path.join(VERIF, "evidence") if REPO == "/repo" else os.path.join(CACHE, "evidence")
REPLAYS = os.path.join(VERIF, "replays") if REPO == "/repo" else os.path.join(CACHE, "replays")
# a scratch checkout (VERIF_REPO) gets a private copy of the lake project, because the generated fragments
# (NanoVerif/Gen/*.lean) are re-translated from that checkout's sources and must not leak into /verif/lean
LEAN_SRC = os.path.join(VERIF, "lean")
LEAN = LEAN_SRC if REPO == "/repo" else os.path.join(CACHE, "lean")
HARNESS = os.path.join(VERIF, "harness")
GUARD = "NANO_VERIF"
NCPU = os.cpu_count() or 4

ALLOWED_AXIOMS = {"propext", "Classical.choice", "Quot.sound"}
FORBIDDEN = re.compile(r"\bsorry\b|\badmit\b|^\s*axiom\s|native_decide|bv_decide|implemented_by|\bunsafe\s|maxHeartbeats\s+0\b", re.M)

FLAVOURS = {
    "plain": dict(cxx="g++", flags="-O2 -DNDEBUG", cmake_type="Release", extra=""),
    "asan": dict(cxx="g++", flags="-O1 -g -DNDEBUG -fsanitize=address,undefined -fno-sanitize-recover=all -fno-omit-frame-pointer",
                 cmake_type="None", extra="-fsanitize=address,undefined"),
    "tsan": dict(cxx="g++", flags="-O1 -g -DNDEBUG -fsanitize=thread", cmake_type="None", extra="-fsanitize=thread"),
}
LIBS = ["linear", "machine", "solver", "program", "function", "core"]


class Broken(Exception):
    """a proof obligation / translation / build step no longer checks"""
    def __init__(self, what, detail=""):
        super().__init__(what)
        self.what, self.detail = what, detail


def log(*a):
    print("[verif]", *a, file=sys.stderr, flush=True)


def run(cmd, cwd=None, timeout=None, env=None, input=None, check=False):
    e = dict(os.environ)
    if env:
        e.update(env)
    p = subprocess.run(cmd, cwd=cwd, timeout=timeout, env=e, input=input, capture_output=True, text=True,
                       shell=isinstance(cmd, str))
    if check and p.returncode != 0:
        raise RuntimeError(f"command failed ({p.returncode}): {cmd}\n{p.stdout[-4000:]}\n{p.stderr[-4000:]}")
    return p


class Lock:
    def __init__(self, name):
        os.makedirs(CACHE, exist_ok=True)
        base = LEANCACHE if name == "lake" else CACHE
        os.makedirs(base, exist_ok=True)
        self.path = os.path.join(base, name + ".lock")
    def __enter__(self):
        self.f = open(self.path, "w")
        fcntl.flock(self.f, fcntl.LOCK_EX)
        return self
    def __exit__(self, *a):
        fcntl.flock(self.f, fcntl.LOCK_UN)
        self.f.close()


# ---------------------------------------------------------------------------------------------------------
# splitmix64: the single PRNG every generator derives its choices from (VERIF_SEED)

class Rng:
    M = (1 << 64) - 1
    def __init__(self, seed):
        # the state is a hash of the seed (NOT seed*gamma: consecutive seeds would give shifted copies of one stream)
        z = (seed + 0x632BE59BD9B4E019) & self.M
        z = ((z ^ (z >> 30)) * 0xBF58476D1CE4E5B9) & self.M
        z = ((z ^ (z >> 27)) * 0x94D049BB133111EB) & self.M
        self.s = (z ^ (z >> 31)) & self.M
    def u64(self):
        self.s = (self.s + 0x9E3779B97F4A7C15) & self.M
        z = self.s
        z = ((z ^ (z >> 30)) * 0xBF58476D1CE4E5B9) & self.M
        z = ((z ^ (z >> 27)) * 0x94D049BB133111EB) & self.M
        return z ^ (z >> 31)
    def below(self, n):
        return self.u64() % n if n > 0 else 0
    def range(self, a, b):  # inclusive
        return a + self.below(b - a + 1)
    def choice(self, xs):
        return xs[self.below(len(xs))]
    def chance(self, p):
        return (self.u64() >> 11) / float(1 << 53) < p
    def unit(self):
        return (self.u64() >> 11) / float(1 << 53)
    def uniform(self, a, b):
        return a + (b - a) * self.unit()
    def shuffle(self, xs):
        xs = list(xs)
        for i in range(len(xs) - 1, 0, -1):
            j = self.below(i + 1)
            xs[i], xs[j] = xs[j], xs[i]
        return xs
    def fork(self):
        return Rng(self.u64())


# ---------------------------------------------------------------------------------------------------------
# doubles on the wire: 16 hex digits of the bit pattern

import struct

def f2h(x):
    if x != x:
        return "nan"
    return "%016x" % struct.unpack("<Q", struct.pack("<d", float(x)))[0]

def h2f(s):
    if s == "nan":
        return float("nan")
    return struct.unpack("<d", struct.pack("<Q", int(s, 16)))[0]

def is_hexf(s):
    return s == "nan" or (len(s) == 16 and all(c in "0123456789abcdef" for c in s))

def lst(xs, f=str):
    return " ".join([str(len(xs))] + [f(x) for x in xs])

class Toks:
    """token reader mirroring the Lean/C++ parsers"""
    def __init__(self, line):
        self.t = line.split()
        self.i = 0
    def s(self):
        v = self.t[self.i]; self.i += 1; return v
    def int(self):
        return int(self.s())
    def f(self):
        return h2f(self.s())
    def ints(self):
        n = self.int(); return [self.int() for _ in range(n)]
    def fs(self):
        n = self.int(); return [self.f() for _ in range(n)]
    def rest(self):
        return self.t[self.i:]
    def done(self):
        return self.i >= len(self.t)


def close(a, b, rtol, atol=0.0):
    if a != a or b != b:
        return (a != a) and (b != b)
    if a == b:
        return True
    return abs(a - b) <= atol + rtol * max(abs(a), abs(b))


def compare_lines(impl, model, rtol=0.0, atol=0.0):
    """token-wise comparison; tokens that are 16-hex doubles are compared with the family's tolerance"""
    if impl == model:
        return True
    a, b = impl.split(), model.split()
    if len(a) != len(b):
        return False
    for x, y in zip(a, b):
        if x == y:
            continue
        if rtol == 0.0 and atol == 0.0:
            return False
        if is_hexf(x) and is_hexf(y):
            if not close(h2f(x), h2f(y), rtol, atol):
                return False
        else:
            return False
    return True


# ---------------------------------------------------------------------------------------------------------
# building libnano from /repo's working tree

def build_repo(flavour="plain"):
    fl = FLAVOURS[flavour]
    bdir = os.path.join(CACHE, "build-" + flavour)
    with Lock("build-" + flavour):
        t0 = time.time()
        flags = f"-D{GUARD} -Wno-error {fl['flags']}"
        if not os.path.exists(os.path.join(bdir, "build.ninja")):
            os.makedirs(bdir, exist_ok=True)
            # the top-level CMakeLists runs `git rev-parse` in the cwd, so cwd must be the repository
            p = run(["cmake", "-G", "Ninja", "-S", REPO, "-B", bdir, f"-DCMAKE_BUILD_TYPE={fl['cmake_type']}",
                     f"-DCMAKE_CXX_FLAGS={flags}", "-DNANO_BUILD_TESTS=OFF", "-DNANO_BUILD_CMD_APP=OFF"], cwd=REPO)
            if p.returncode != 0:
                raise Broken("repo-configure", p.stdout[-3000:] + p.stderr[-3000:])
        p = run(["cmake", "--build", bdir, "-j", str(NCPU)], cwd=REPO)
        if p.returncode != 0:
            raise Broken("repo-build", p.stdout[-6000:] + p.stderr[-3000:])
        log(f"libnano[{flavour}] built in {time.time()-t0:.1f}s")
    return bdir


def build_harness(name, flavour="plain", extra_flags=""):
    """compile /verif/harness/<name>.cpp against the freshly built libnano (same flavour); ccache makes the
    no-change case instant, and header edits in /repo are picked up because ccache hashes preprocessed text"""
    fl = FLAVOURS[flavour]
    bdir = os.path.join(CACHE, "build-" + flavour)
    odir = os.path.join(CACHE, "harness-" + flavour)
    os.makedirs(odir, exist_ok=True)
    src = os.path.join(HARNESS, name + ".cpp")
    obj = os.path.join(odir, name + ".o")
    exe = os.path.join(odir, name)
    cc = ["ccache", fl["cxx"]] if shutil.which("ccache") else [fl["cxx"]]
    with Lock("harness-" + flavour + "-" + name):
        t0 = time.time()
        cmd = cc + ["-std=c++17", f"-D{GUARD}", "-Wno-deprecated-declarations"] + fl["flags"].split() + extra_flags.split() + [
            "-I", os.path.join(REPO, "include"), "-I", os.path.join(REPO, "src"), "-I", bdir, "-I", HARNESS,
            "-isystem", "/usr/include/eigen3", "-c", src, "-o", obj]
        p = run(cmd)
        if p.returncode != 0:
            raise Broken("harness-compile:" + name, p.stderr[-6000:])
        libs = [os.path.join(bdir, "src", f"lib{l}.a") for l in LIBS]
        # linked next to the final path and renamed into place: a concurrent run of the same property that is executing the old
        # binary keeps its inode (re-linking in place made such a run fail with 'Permission denied' / 'Text file busy')
        tmp = f"{exe}.link{os.getpid()}"
        cmd = [fl["cxx"], obj, "-o", tmp, "-Wl,--start-group"] + libs + ["-Wl,--end-group", "-lpthread"] + fl["extra"].split()
        p = run(cmd)
        if p.returncode != 0:
            if os.path.exists(tmp):
                os.remove(tmp)
            raise Broken("harness-link:" + name, p.stderr[-6000:])
        os.replace(tmp, exe)
        log(f"harness {name}[{flavour}] built in {time.time()-t0:.1f}s")
    return exe


# ---------------------------------------------------------------------------------------------------------
# Lean side

def prepare_lean():
    """private copy of the lake project for a scratch checkout (no-op for /repo itself)"""
    if LEAN == LEAN_SRC:
        return
    os.makedirs(LEAN, exist_ok=True)
    with Lock("lean-copy"):
        p = run(["rsync", "-a", "--delete", LEAN_SRC + "/", LEAN + "/"])
        if p.returncode != 0:
            raise Broken("lean-copy", p.stderr[-2000:])


def write_if_changed(path, text):
    old = None
    if os.path.exists(path):
        with open(path) as f:
            old = f.read()
    if old != text:
        os.makedirs(os.path.dirname(path), exist_ok=True)
        with open(path, "w") as f:
            f.write(text)
        return True
    return False


def lake_build(targets, lockname="lake"):
    # builds of disjoint targets may run concurrently; one lock per property keeps a property's own runs apart
    with Lock(lockname):
        t0 = time.time()
        p = run(["lake", "build"] + list(targets), cwd=LEAN)
        log(f"lake build {' '.join(targets)}: rc={p.returncode} in {time.time()-t0:.1f}s")
        if p.returncode != 0:
            out = p.stdout + p.stderr
            errs = [l for l in out.splitlines() if "error" in l][:40]
            raise Broken("lake-build", "\n".join(errs) or out[-4000:])


def driver_path(pid):
    return os.path.join(LEAN, ".lake", "build", "bin", "driver_" + pid.lower())


def strip_lean_comments(s):
    out, i, depth = [], 0, 0
    n = len(s)
    while i < n:
        if s.startswith("/-", i):
            depth += 1; i += 2; continue
        if depth > 0 and s.startswith("-/", i):
            depth -= 1; i += 2; continue
        if depth > 0:
            if s[i] == "\n":
                out.append("\n")
            i += 1; continue
        if s.startswith("--", i):
            while i < n and s[i] != "\n":
                i += 1
            continue
        out.append(s[i]); i += 1
    return "".join(out)


def forbidden_scan():
    """sorry/admit/axiom/native_decide/... anywhere in the Lean tree (comments stripped)"""
    hits = []
    for root, _, files in os.walk(LEAN):
        if ".lake" in root:
            continue
        for fn in files:
            if fn.endswith(".lean"):
                p = os.path.join(root, fn)
                txt = strip_lean_comments(open(p).read())
                for m in FORBIDDEN.finditer(txt):
                    line = txt.count("\n", 0, m.start()) + 1
                    hits.append(f"{os.path.relpath(p, LEAN)}:{line}: {m.group(0).strip()}")
    return hits


def audit(pid, modules, theorems):
    """#print axioms for every obligation; returns {theorem: [axioms]}; raises Broken when one is missing or
    depends on an inadmissible axiom"""
    adir = os.path.join(CACHE, "audit")
    os.makedirs(adir, exist_ok=True)
    path = os.path.join(adir, f"Audit_{pid}.lean")
    src = "".join(f"import {m}\n" for m in modules) + "".join(f"#print axioms {t}\n" for t in theorems)
    with open(path, "w") as f:
        f.write(src)
    p = run(["lake", "env", "lean", path], cwd=LEAN)
    out = p.stdout + p.stderr
    res = {}
    # messages look like: 'X' depends on axioms: [a, b]   or   'X' does not depend on any axioms
    for m in re.finditer(r"'([^']+)' depends on axioms: \[([^\]]*)\]", out, re.S):
        res[m.group(1)] = [a.strip() for a in m.group(2).replace("\n", " ").split(",") if a.strip()]
    for m in re.finditer(r"'([^']+)' does not depend on any axioms", out):
        res[m.group(1)] = []
    bad = []
    for t in theorems:
        if t not in res:
            bad.append(f"{t}: not found / does not elaborate")
        else:
            extra = [a for a in res[t] if a not in ALLOWED_AXIOMS]
            if extra:
                bad.append(f"{t}: inadmissible axioms {extra}")
    return res, bad, out


def leanchecker(modules):
    bad = []
    for m in modules:
        p = run(["lake", "env", "leanchecker", m], cwd=LEAN, timeout=1800)
        if p.returncode != 0:
            bad.append(f"{m}: {(p.stdout + p.stderr)[-500:]}")
    return bad


def run_driver(driver, lines, timeout=600):
    p = run([driver], input="\n".join(lines) + "\n", timeout=timeout)
    out = p.stdout.splitlines()
    if p.returncode != 0 or len(out) != len(lines):
        raise Broken("driver-run", f"rc={p.returncode} lines={len(out)}/{len(lines)} {p.stderr[-2000:]}")
    return out


def run_harness(exe, lines, timeout=900, env=None):
    """feeds ops to the harness; returns (aug_lines, res_lines, crash) — crash = (index, description) when the
    process died (sanitizer abort, segfault, timeout) while executing op #index"""
    e = dict(os.environ)
    e.setdefault("ASAN_OPTIONS", "detect_leaks=0:abort_on_error=0")
    e.setdefault("UBSAN_OPTIONS", "print_stacktrace=1")
    if env:
        e.update(env)
    # libnano writes fit logs into the temporary directory: keep them out of /tmp (a private directory, removed afterwards)
    own_tmp = None
    if not (env and "TMPDIR" in env):
        own_tmp = os.path.join(CACHE, f"tmp-{os.getpid()}")
        os.makedirs(own_tmp, exist_ok=True)
        e["TMPDIR"] = own_tmp
    try:
        p = subprocess.run([exe], input="\n".join(lines) + "\n", capture_output=True, text=True, timeout=timeout, env=e)
        rc, out, err = p.returncode, p.stdout, p.stderr
    except subprocess.TimeoutExpired as ex:
        rc, out, err = -999, (ex.stdout or b"").decode() if isinstance(ex.stdout, bytes) else (ex.stdout or ""), "timeout"
    finally:
        if own_tmp:
            shutil.rmtree(own_tmp, ignore_errors=True)
    aug, res = [], []
    for l in out.splitlines():
        if l.startswith("A "):
            aug.append(l[2:])
        elif l.startswith("R "):
            res.append(l[2:])
    crash = None
    if rc != 0 or len(res) != len(lines):
        k = len(res)
        crash = (k, f"harness rc={rc} after {k}/{len(lines)} ops: {err[-1500:]}")
    return aug, res, crash


# ---------------------------------------------------------------------------------------------------------
# known findings

def load_known():
    p = os.path.join(VERIF, "KNOWN_FINDINGS.json")
    if not os.path.exists(p):
        return []
    return json.load(open(p)).get("findings", [])


def sha(s):
    return hashlib.sha1(s.encode()).hexdigest()[:16]
