#!/usr/bin/env python3
"""MANIFEST.setup_cmd: build everything the claimed checks need from files on disk (offline).
Every check re-does whatever of this is missing or stale, so this only front-loads the cost.
Only the properties claimed in MANIFEST.json are built (work in progress of other properties is ignored)."""
import importlib, json, os, sys
sys.path.insert(0, os.path.dirname(os.path.abspath(__file__)))
import vlib


def main():
    rc = 0
    man = json.load(open(os.path.join(vlib.VERIF, "MANIFEST.json")))
    pids = [c["property_id"] for c in man["checks"]]
    try:
        vlib.build_repo("plain")
    except vlib.Broken as b:
        print("setup: libnano build failed:", b.what, b.detail[-2000:]); rc = 1
    for pid in pids:
        try:
            mod = importlib.import_module("props." + pid.lower())
        except Exception as ex:
            print(f"setup: cannot import props.{pid.lower()}: {ex!r}"); rc = 1
            continue
        try:
            vlib.build_harness(mod.HARNESS, "plain", getattr(mod, "HARNESS_FLAGS", ""))
        except vlib.Broken as b:
            print(f"setup: harness {pid}: {b.what} {b.detail[-1500:]}"); rc = 1
        if hasattr(mod, "translate"):
            try:
                mod.translate()
            except Exception as ex:
                print(f"setup: translate {pid}: {ex!r}"); rc = 1
        try:
            vlib.lake_build(["driver_" + pid.lower()] + list(mod.LEAN_MODULES), "lake-" + pid)
        except vlib.Broken as b:
            print(f"setup: lake build {pid} failed:", b.detail[-3000:]); rc = 1
    sys.exit(rc)


if __name__ == "__main__":
    main()
