#!/usr/bin/env python3
"""MANIFEST.setup_cmd: build everything the claimed checks need from files on disk (offline).
Every check re-does whatever of this is missing or stale, so this only front-loads the cost.
Only the properties claimed in MANIFEST.json are built (work in progress of other properties is ignored)."""
import importlib, json, os, sys
sys.path.insert(0, os.path.dirname(os.path.abspath(__file__)))
import vlib


def main():
    rc = 0
    man = json.load(open(os.path.join(vlib.VERIF, "MANIFEST.json")))
    pids = [c["property_id"] for c in man["checks"]]
    try:
        vlib.build_repo("plain")
    except vlib.Broken as b:
        print("setup: libnano build failed:", b.what, b.detail[-2000:]); rc = 1
    mods = {}
    for pid in pids:
        try:
            mods[pid] = importlib.import_module("props." + pid.lower())
        except Exception as ex:
            print(f"setup: cannot import props.{pid.lower()}: {ex!r}"); rc = 1

    def harness(pid):
        mod = mods[pid]
        try:
            vlib.build_harness(mod.HARNESS, "plain", getattr(mod, "HARNESS_FLAGS", ""))
            return None
        except vlib.Broken as b:
            return f"setup: harness {pid}: {b.what} {b.detail[-1500:]}"

    from concurrent.futures import ThreadPoolExecutor
    with ThreadPoolExecutor(max_workers=max(2, vlib.NCPU // 2)) as ex:
        for msg in ex.map(harness, list(mods)):
            if msg:
                print(msg); rc = 1
    targets = []
    for pid, mod in mods.items():
        if hasattr(mod, "translate"):
            try:
                mod.translate()
            except Exception as ex:
                print(f"setup: translate {pid}: {ex!r}"); rc = 1
        targets += ["driver_" + pid.lower()] + list(mod.LEAN_MODULES)
    # one lake invocation for everything (lake schedules the modules over all cores); a failure is then pinned down per property
    try:
        vlib.lake_build(sorted(set(targets)), "lake")
    except vlib.Broken:
        for pid, mod in mods.items():
            try:
                vlib.lake_build(["driver_" + pid.lower()] + list(mod.LEAN_MODULES), "lake-" + pid)
            except vlib.Broken as b:
                print(f"setup: lake build {pid} failed:", b.detail[-3000:]); rc = 1
    sys.exit(rc)


if __name__ == "__main__":
    main()
