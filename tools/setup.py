#!/usr/bin/env python3
"""MANIFEST.setup_cmd: build everything the checks need from files on disk (offline).
Every check re-does whatever of this is missing or stale, so this only front-loads the cost."""
import glob, os, sys
sys.path.insert(0, os.path.dirname(os.path.abspath(__file__)))
import vlib

def main():
    rc = 0
    try:
        vlib.build_repo("plain")
    except vlib.Broken as b:
        print("setup: libnano build failed:", b.what, b.detail[-2000:]); rc = 1
    import importlib
    for f in sorted(glob.glob(os.path.join(vlib.VERIF, "tools", "props", "c*.py"))):
        pid = os.path.basename(f)[:-3]
        try:
            mod = importlib.import_module("props." + pid)
            if hasattr(mod, "translate"):
                mod.translate()
        except Exception as ex:
            print(f"setup: translate {pid}: {ex!r}")
    try:
        vlib.lake_build([])          # default targets: whole library + driver
    except vlib.Broken as b:
        print("setup: lake build failed:", b.detail[-3000:]); rc = 1
    for f in sorted(glob.glob(os.path.join(vlib.VERIF, "tools", "props", "c*.py"))):
        pid = os.path.basename(f)[:-3]
        mod = importlib.import_module("props." + pid)
        try:
            vlib.build_harness(mod.HARNESS, "plain", getattr(mod, "HARNESS_FLAGS", ""))
        except vlib.Broken as b:
            print(f"setup: harness {pid}: {b.what} {b.detail[-1500:]}"); rc = 1
    sys.exit(rc)

if __name__ == "__main__":
    main()
