#!/usr/bin/env python3
"""python3 tools/seedtask.py <ID> <suffix> [n]: creates a scratch worktree /tmp/seed/<ID>-<suffix> of /repo HEAD and a TASK.md in
it for an independent sub-agent that is asked for breaking changes of property <ID> (it gets only the property text)."""
import json, os, subprocess, sys
pid, suf = sys.argv[1], sys.argv[2]
n = int(sys.argv[3]) if len(sys.argv) > 3 else 3
props = {json.loads(l)["id"]: json.loads(l) for l in open("/verif/properties.jsonl")}
p = props[pid]
wt = f"/tmp/seed/{pid}-{suf}"
os.makedirs("/tmp/seed", exist_ok=True)
if not os.path.exists(wt):
    subprocess.run(["git", "-C", "/repo", "worktree", "add", "-q", "--detach", wt, "HEAD"], check=True)
files = ", ".join(p["anchors"]["files"])
# changes already delivered for this property in earlier waves (site + effect only): the new ones must differ from them
import glob, re
prev = []
for d in sorted(glob.glob(f"/verif/seeded/{pid}-*")):
    try:
        m = json.load(open(os.path.join(d, "meta.json")))
        sites = re.findall(r"^\+\+\+ b/(\S+)", open(os.path.join(d, "patch.diff")).read(), re.M)
        prev.append(f" - {', '.join(sites)}: {m.get('summary', '(no summary)')}")
    except Exception:
        pass
avoid = ("\n## Already tried (do NOT repeat these or close variants of them; pick other clauses, other code sites, other mechanisms)\n\n"
         + "\n".join(prev) + "\n") if prev else ""
task = f"""# Task: seed breaking changes for one semantic property of libnano

You are testing how robust a C++ library's behaviour is against subtle regressions. The library is libnano
(accosmin-org/libnano: C++17/Eigen numerical optimisation + machine learning). You have your own scratch git worktree of it
at {wt} (work ONLY there; never touch /repo or /verif, and do not read anything under /verif).

## The property

Title: {p['title']}

Statement: "{p['statement']}"

It is meant for: {p['quantifier']['text']}

Relevant code: {files}

{avoid}
## What to produce

{n} different, independent source changes to the library (each a separate patch against the worktree's HEAD) that each BREAK this
property while (a) the library and its whole unit-test suite still compile and (b) the existing unit tests still all pass (apart from
test_program_linear and test_program_quadratic, which are known to be flaky and may fail with or without your change).
Prefer realistic regressions a maintainer could plausibly introduce (off-by-one in a rarely taken branch, a dropped or weakened guard,
a swapped comparison, a wrong sign or factor in one case, a stale value reused, a special case for particular sizes, two cooperating
sites that each look fine alone) — NOT changes that ordinary use would expose at once: each should need something specific to manifest
(a particular interleaving, a fault at a particular point, a multi-step sequence of operations, an unusual input or configuration).
Make the {n} changes hit different clauses / different code sites of the property.

For each change deliver, under {wt}/out/<k>/ (k = 1..{n}):
 - patch.diff  (git diff against HEAD; must apply with `git apply` to a clean checkout of HEAD)
 - demo.cpp    (a small standalone program using the library's public API that exits 0 on the unmodified library and exits non-zero —
                printing what went wrong — with the patch applied), with the exact compile/run command in a comment at its top
 - notes.txt   (what the change breaks, what it needs in order to manifest, and the ctest summary line of the FULL unit-test suite
                run with the patch applied)

## How to build and test in the worktree

    cd {wt}
    cmake -G Ninja -S . -B _b -DCMAKE_BUILD_TYPE=RelWithDebInfo -DCMAKE_CXX_FLAGS=-Wno-error     # cwd must be the worktree
    cmake --build _b -j8
    ctest --test-dir _b -j8 --timeout 900

Static libraries end up in _b/src/lib{{core,function,program,solver,machine,linear}}.a; a demo links like
`g++ -std=c++17 -O1 -I include -I src -I _b -isystem /usr/include/eigen3 demo.cpp -o demo -Wl,--start-group _b/src/liblinear.a _b/src/libmachine.a _b/src/libsolver.a _b/src/libprogram.a _b/src/libfunction.a _b/src/libcore.a -Wl,--end-group -lpthread`
(header-only parts need no libraries). The test-suite build defines NDEBUG, so do not rely on `assert` firing. Look at test/*.cpp and
test/fixture/ for how the API is used. Between patches restore the tree with `git checkout -- .` (keep out/ and _b/). The machine is
shared with other jobs: use at most -j8 and be patient.

Finish by listing the changes in your final message (one paragraph each: site, effect, trigger, test-suite result). Leave the worktree
in place with HEAD's sources restored (only out/ and _b/ added).
"""
open(os.path.join(wt, "TASK.md"), "w").write(task)
print(wt)
