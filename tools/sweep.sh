#!/bin/sh
# tools/sweep.sh <first-seed> <last-seed> [tier]: every claimed check at every seed in the range, two at a time; prints one line per
# run and the VIOLATION / KNOWN-FINDING lines of the runs that did not exit 0 (meant for `vp run`; builds what is missing first)
cd "$(dirname "$0")/.." || exit 2
python3 tools/setup.py > sweep-setup.log 2>&1 || { echo "setup failed"; tail -20 sweep-setup.log; }
tier=${3:-quick}
for s in $(seq "$1" "$2"); do
  for i in 01 02 03 04 05 06 07 08 09 10 11 12 13 14 15 16 17 18 19 20; do echo "$s C$i"; done
done | xargs -P 2 -L 1 sh -c 'VERIF_SEED=$0 python3 tools/check.py $1 --tier '"$tier"' > sweep-$1-$0.log 2>&1; rc=$?; echo "seed=$0 $1 rc=$rc"; if [ $rc -ne 0 ]; then grep -E "^VIOLATION|^  |Traceback" sweep-$1-$0.log | head -8; fi'
