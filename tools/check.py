#!/usr/bin/env python3
"""python3 tools/check.py <ID> [--tier quick|thorough] [--replay <path>]

Decides one property (see DESIGN.md §2.2). Exit 0: every obligation checks, the model corresponds to the code on
everything explored and the property oracle found no failing input. Exit 1 + `VIOLATION property=<id> replay=<path>`
otherwise (ending with `no-failing-input-found` when only a proof obligation / the correspondence broke).
"""
import argparse, importlib, json, os, sys, time, traceback

sys.path.insert(0, os.path.dirname(os.path.abspath(__file__)))
import vlib
from vlib import Broken, log


def load(pid):
    return importlib.import_module("props." + pid.lower())


def mk_failure(kind, op, detail, key=None, aug=None, impl=None, model=None):
    return dict(kind=kind, op=op, detail=detail, key=key, aug=aug, impl=impl, model=model)


def execute(mod, exe, driver, ops, want_model=True):
    """runs ops on implementation (+ model) and returns (failures, stats)"""
    failures = []
    env = getattr(mod, "HARNESS_ENV", None)
    aug, res, crash = vlib.run_harness(exe, ops, timeout=getattr(mod, "HARNESS_TIMEOUT", 900), env=env)
    n = len(res)
    if crash is not None:
        k, desc = crash
        op = ops[k] if k < len(ops) else "<end>"
        failures.append(mk_failure("crash", op, desc, key=classify(mod, op, "crash", desc)))
    aug = aug[:n]
    model = None
    if want_model and driver is not None and n > 0:
        model = vlib.run_driver(driver, aug)
    rtol = getattr(mod, "RTOL", 0.0)
    atol = getattr(mod, "ATOL", 0.0)
    cmp_fn = getattr(mod, "compare", None)
    n_corr = 0
    for i in range(n):
        op, a, r = ops[i], aug[i], res[i]
        # property oracle on the implementation's answer (independent of the Lean model)
        try:
            why = mod.oracle(a, r)
        except Exception as ex:  # an oracle that cannot parse the answer is a failure of the case, not a crash
            why = f"oracle exception {ex!r}"
        if why:
            failures.append(mk_failure("oracle", op, why, key=classify(mod, a, "oracle", why), aug=a, impl=r))
        if model is not None:
            m = model[i]
            if getattr(mod, "model_skip", None) and mod.model_skip(a):
                continue
            n_corr += 1
            ok = cmp_fn(a, r, m) if cmp_fn else vlib.compare_lines(r, m, rtol, atol)
            if not ok:
                failures.append(mk_failure("corr", op, f"impl={r[:300]} model={m[:300]}",
                                           key=classify(mod, a, "corr", ""), aug=a, impl=r, model=m))
    return failures, dict(executed=n, corresponded=n_corr, aug=aug, res=res, model=model)


def classify(mod, op, kind, detail):
    f = getattr(mod, "classify", None)
    if f is None:
        return None
    try:
        return f(op, kind, detail)
    except Exception:
        return None


def split_known(pid, failures):
    """failures matching an entry of KNOWN_FINDINGS.json (property + key) are findings, not violations"""
    known = [k for k in vlib.load_known() if k.get("property") == pid and k.get("status", "open") == "open"]
    keys = {k["key"]: k for k in known}
    kf, viol = {}, []
    for f in failures:
        if f["key"] is not None and f["key"] in keys:
            kf.setdefault(f["key"], []).append(f)
        else:
            viol.append(f)
    return kf, viol, keys


def shrink(mod, exe, driver, f):
    """family-specific shrinking of a failing op (each op line is self-contained)"""
    sh = getattr(mod, "shrink_candidates", None)
    if sh is None:
        return f
    cur = f
    for _ in range(200):
        improved = False
        for cand in sh(cur["op"]):
            try:
                fs, _ = execute(mod, exe, driver, [cand], want_model=(cur["kind"] == "corr"))
            except Exception:
                continue
            fs = [x for x in fs if x["kind"] == cur["kind"] and x["key"] == cur["key"]]
            if fs:
                cur = fs[0]; improved = True
                break
        if not improved:
            break
    return cur


def write_replay(pid, payload):
    d = vlib.REPLAYS
    os.makedirs(d, exist_ok=True)
    path = os.path.join(d, f"{pid}-{int(time.time())}-{os.getpid()}.json")
    with open(path, "w") as f:
        json.dump(payload, f, indent=1)
    return path


def main():
    ap = argparse.ArgumentParser()
    ap.add_argument("pid")
    ap.add_argument("--tier", default=os.environ.get("VERIF_TIER", "quick"))
    ap.add_argument("--replay")
    args = ap.parse_args()
    pid = args.pid.upper()
    tier = args.tier if args.tier in ("quick", "thorough") else "quick"
    seed = int(os.environ.get("VERIF_SEED", "0") or 0)
    mod = load(pid)
    t0 = time.time()
    flavour = getattr(mod, "FLAVOUR", {}).get(tier, "plain") if isinstance(getattr(mod, "FLAVOUR", None), dict) else "plain"

    broken = []        # (what, detail): obligations / translation / build steps that no longer check
    failures = []
    exe = driver = None
    axioms = {}
    checker_cmds = []

    vlib.prepare_lean()

    # 1. implementation
    try:
        vlib.build_repo(flavour)
        exe = vlib.build_harness(mod.HARNESS, flavour, getattr(mod, "HARNESS_FLAGS", ""))
    except Broken as b:
        broken.append((b.what, b.detail))

    # 2. regenerated fragments
    if hasattr(mod, "translate"):
        try:
            with vlib.Lock("lake-" + pid):
                mod.translate()
        except Broken as b:
            broken.append((b.what, b.detail))
        except Exception as ex:
            broken.append(("translate", repr(ex)))

    # 3. proofs + driver
    modules = list(mod.LEAN_MODULES)
    try:
        vlib.lake_build(["driver_" + pid.lower()], "lake-" + pid)
        driver = vlib.driver_path(pid)
    except Broken as b:
        broken.append(("driver:" + b.what, b.detail))
    try:
        vlib.lake_build(modules, "lake-" + pid)
        checker_cmds.append("lake build " + " ".join(modules))
    except Broken as b:
        broken.append((b.what, b.detail))

    # 4. audit
    theorems = list(mod.OBLIGATIONS)
    discharged = 0
    try:
        axioms, bad, _ = vlib.audit(pid, modules, theorems)
        checker_cmds.append(f"lake env lean .cache/audit/Audit_{pid}.lean  (#print axioms x{len(theorems)})")
        discharged = len(theorems) - len(bad)
        for b in bad:
            broken.append(("obligation", b))
    except Exception as ex:
        broken.append(("audit", repr(ex)))
    hits = vlib.forbidden_scan()
    for h in hits:
        broken.append(("forbidden-token", h))
    if tier == "thorough" and not broken:
        bad = vlib.leanchecker(modules)
        checker_cmds.append("lake env leanchecker <module> for " + " ".join(modules))
        for b in bad:
            broken.append(("leanchecker", b))
    if hasattr(mod, "static_checks"):
        try:
            for b in mod.static_checks():
                broken.append(("static", b))
        except Exception as ex:
            broken.append(("static", repr(ex)))

    # replay mode: run the ops of the replay file only
    if args.replay:
        payload = json.load(open(args.replay))
        ops = payload.get("ops", [])
        if exe is None:
            print("replay: harness does not build"); sys.exit(2)
        fs, st = execute(mod, exe, driver, ops) if ops else ([], {})
        for f in fs:
            print(f"REPLAY-FAIL kind={f['kind']} key={f['key']} op={f['op'][:200]} :: {f['detail'][:400]}")
        for w, d in broken:
            print(f"REPLAY-BROKEN {w}: {d[:400]}")
        if not fs and not broken:
            print("replay: no failure reproduced")
        sys.exit(1 if fs or broken else 0)

    # 5/6. correspondence + oracle
    rng = vlib.Rng(seed)
    stats = dict(executed=0, corresponded=0)
    ops = []
    samples = []
    if exe is not None:
        ops = mod.gen(rng, tier)
        try:
            fs, st = execute(mod, exe, driver, ops)
            failures += fs
            stats.update(executed=st["executed"], corresponded=st["corresponded"])
            for i in range(0, st["executed"], max(1, st["executed"] // 4))[:5]:
                samples.append(dict(op=st["aug"][i][:400], impl=st["res"][i][:400],
                                    model=(st["model"][i][:400] if st["model"] else None)))
        except Broken as b:
            broken.append((b.what, b.detail))
        # widened search when something no longer checks and no failing input is known yet
        if (broken or any(f["kind"] == "corr" for f in failures)) and not any(f["kind"] in ("oracle", "crash") for f in failures):
            log("widening the search for a failing input")
            for extra in range(1, 4):
                r2 = vlib.Rng(seed * 7919 + extra)
                ops2 = mod.gen(r2, "thorough")
                try:
                    fs, st = execute(mod, exe, None, ops2, want_model=False)
                except Broken:
                    continue
                stats["executed"] += st["executed"]
                fs = [f for f in fs if f["kind"] in ("oracle", "crash")]
                if fs:
                    failures += fs
                    break

    known_f, viol, keys = split_known(pid, failures)
    for k, fs in known_f.items():
        print(f"KNOWN-FINDING: property={pid} {keys[k]['description']} [{k}; {len(fs)} case(s), e.g. {fs[0]['op'][:160]}]")

    nontriv = set()
    nt = getattr(mod, "nontrivial", lambda op: True)
    for op in ops:
        if nt(op):
            nontriv.add(vlib.sha(op))

    rc = 0
    replay_path = None
    input_fail = [f for f in viol if f["kind"] in ("oracle", "crash")]
    corr_fail = [f for f in viol if f["kind"] == "corr"]
    if input_fail:
        f = shrink(mod, exe, driver, input_fail[0])
        replay_path = write_replay(pid, dict(property=pid, kind=f["kind"], seed=seed, tier=tier, ops=[f["op"]],
                                             detail=f["detail"], key=f["key"], impl=f.get("impl"),
                                             also_broken=[f"{w}: {d[:300]}" for w, d in broken]))
        print(f"VIOLATION property={pid} replay={replay_path}")
        print(f"  failing input: {f['op'][:300]}\n  {f['detail'][:600]}")
        rc = 1
    elif corr_fail or broken:
        what = []
        if broken:
            what += [f"{w}: {d[:600]}" for w, d in broken]
        f = None
        if corr_fail:
            f = shrink(mod, exe, driver, corr_fail[0])
            what.append(f"correspondence differs at op: {f['op'][:300]} :: {f['detail'][:400]}")
        replay_path = write_replay(pid, dict(property=pid, kind="no-longer-checks", seed=seed, tier=tier,
                                             ops=[f["op"]] if f else [], broken=what,
                                             note="the theorem(s)/correspondence named here no longer check; the widened "
                                                  "search found no input on which the property itself fails"))
        print(f"VIOLATION property={pid} replay={replay_path} no-failing-input-found")
        for w in what[:6]:
            print("  " + w[:700])
        rc = 1

    ev = dict(
        property_id=pid, tier=tier, seed=seed, level=mod.LEVEL,
        coverage=dict(
            obligations=len(theorems), discharged=discharged,
            checker_cmd="; ".join(checker_cmds) or "none ran",
            trusted_base=mod.TRUSTED,
            theorems=theorems,
            axioms_used=sorted({a for v in axioms.values() for a in v}),
            evaluations=stats["executed"], corresponded_with_model=stats["corresponded"],
            programs=stats["executed"], disagreements_checked=stats["corresponded"],
            distinct_nontrivial=len(nontriv), rule=mod.RULE, samples=samples or [dict(note="no case executed")],
            distribution=(mod.distribution(ops) if hasattr(mod, "distribution") else {}),
            tolerances=dict(rtol=getattr(mod, "RTOL", 0.0), atol=getattr(mod, "ATOL", 0.0)),
            flavour=flavour,
            known_findings_hit={k: len(v) for k, v in known_f.items()},
            broken=[f"{w}: {d[:300]}" for w, d in broken],
            explanation=getattr(mod, "EXPLANATION", "see rule / trusted_base"),
            exhaustive=bool(getattr(mod, "EXHAUSTIVE", {}).get(tier, False)) if isinstance(getattr(mod, "EXHAUSTIVE", None), dict) else False,
        ),
        assumptions=mod.ASSUMPTIONS,
        wall_s=round(time.time() - t0, 2),
        violations=(len(input_fail) + len(corr_fail) + len(broken)),
    )
    os.makedirs(vlib.EVIDENCE, exist_ok=True)
    with open(os.path.join(vlib.EVIDENCE, pid + ".json"), "w") as f:
        json.dump(ev, f, indent=1)
    log(f"{pid} {tier} seed={seed}: rc={rc} executed={stats['executed']} corr={stats['corresponded']} "
        f"obligations={discharged}/{len(theorems)} wall={ev['wall_s']}s")
    sys.exit(rc)


if __name__ == "__main__":
    try:
        main()
    except SystemExit:
        raise
    except Exception:
        traceback.print_exc()
        sys.exit(2)
