#!/usr/bin/env python3
"""Regenerates the table of seeded breaking changes in DESIGN.md §12 (between the SEEDED-TABLE markers) from seeded/*/meta.json."""
import glob, json, os, re
VERIF = os.path.dirname(os.path.dirname(os.path.abspath(__file__)))
rows = []
for d in sorted(glob.glob(os.path.join(VERIF, "seeded", "*"))):
    mp = os.path.join(d, "meta.json")
    if not os.path.exists(mp):
        continue
    m = json.load(open(mp))
    name = os.path.basename(d)
    site = ""
    pd = os.path.join(d, "patch.diff")
    if os.path.exists(pd):
        files = re.findall(r"^\+\+\+ b/(\S+)", open(pd).read(), re.M)
        site = ", ".join(f"`{f}`" for f in files[:3])
    what = (m.get("summary") or "").strip()
    if what and m.get("needs"):
        what += " — needs: " + m["needs"]
    if not what:
        np_ = os.path.join(d, "notes.txt")
        if os.path.exists(np_):
            txt = " ".join(open(np_).read().split())
            what = txt[:230] + ("…" if len(txt) > 230 else "")
    if m.get("caught_after"):
        verdict = f"missed at first; **caught** after strengthening ({m['caught_after']})"
    elif m.get("caught"):
        verdict = "**caught**" + (" (input-level replay)" if m.get("input_level_replay") else " (`no-failing-input-found`)")
    elif any(r.get("caught") for r in m.get("also", {}).values()):
        who = ", ".join(k for k, r in m["also"].items() if r.get("caught"))
        verdict = f"not by {m['property']}'s check (" + m.get("missed_note", "outside what it observes") + f"); **caught by {who}**"
    else:
        verdict = "**missed** — " + m.get("missed_note", "strengthening in progress")
    first = ""
    for l in m.get("check_output", []):
        if l.strip().startswith("failing input:"):
            first = l.strip()[len("failing input:"):].strip()[:90]
            break
    rows.append(f"| {name} | {m.get('property')} | {site} | {what.replace('|', '/')} | {verdict}{(' — `' + first + '`') if first and m.get('caught') else ''} |")
table = "| seed | property | site | what it breaks / what it needs | check verdict (quick tier, seed 0) |\n|---|---|---|---|---|\n" + "\n".join(rows)
p = os.path.join(VERIF, "DESIGN.md")
s = open(p).read()
a, b = "<!-- SEEDED-TABLE-BEGIN -->", "<!-- SEEDED-TABLE-END -->"
if a in s:
    s = s[:s.index(a) + len(a)] + "\n" + table + "\n" + s[s.index(b):]
    open(p, "w").write(s)
print(f"{len(rows)} seeded changes; caught {sum('**caught**' in r for r in rows)}")
