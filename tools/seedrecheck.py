#!/usr/bin/env python3
"""python3 tools/seedrecheck.py <seed-name>... [--tier quick] [--also <ID>]

Re-runs the check of the seed's property (and of every `--also` property) against a kept seeded change: a scratch worktree of
/repo HEAD gets seeded/<name>/patch.diff applied, the check runs through VERIF_REPO (so /repo is never touched), the worktree and
its private build cache are removed again, and the verdict replaces the `check_*`, `caught`, `input_level_replay` fields of
seeded/<name>/meta.json (the confirmation part written by seedeval.py — demo / test-suite results — is left as it is).
"""
import argparse, hashlib, json, os, shutil, subprocess, sys, time

VERIF = os.path.dirname(os.path.dirname(os.path.abspath(__file__)))


def sh(cmd, cwd=None, env=None, timeout=7200):
    e = dict(os.environ)
    if env:
        e.update(env)
    p = subprocess.run(cmd, cwd=cwd, shell=True, capture_output=True, text=True, timeout=timeout, env=e)
    return p.returncode, p.stdout + p.stderr


def run_check(pid, wt, tier):
    t0 = time.time()
    rc, o = sh(f"python3 tools/check.py {pid} --tier {tier}", cwd=VERIF, env={"VERIF_REPO": wt})
    lines = [l for l in o.splitlines() if l.startswith("VIOLATION") or l.startswith("  ")]
    caught = rc == 1 and any(l.startswith("VIOLATION") for l in lines)
    return dict(check_rc=rc, check_wall_s=round(time.time() - t0, 1), check_output=lines[:12], caught=caught,
                input_level_replay=caught and not any("no-failing-input-found" in l for l in lines))


def main():
    ap = argparse.ArgumentParser()
    ap.add_argument("names", nargs="+")
    ap.add_argument("--tier", default="quick")
    ap.add_argument("--also", action="append", default=[])
    a = ap.parse_args()
    rc_all = 0
    for name in a.names:
        d = os.path.join(VERIF, "seeded", name)
        meta = json.load(open(os.path.join(d, "meta.json")))
        wt = f"/tmp/wt/recheck-{name}-{os.getpid()}"
        os.makedirs("/tmp/wt", exist_ok=True)
        sh(f"git -C /repo worktree add -q --detach {wt} HEAD")
        try:
            rc, o = sh(f"git apply {os.path.join(d, 'patch.diff')}", cwd=wt)
            if rc != 0:
                print(f"{name}: patch does not apply to /repo HEAD: {o[-300:]}"); rc_all = 2
                continue
            res = run_check(meta["property"], wt, a.tier)
            meta.update(res)
            meta["rechecked_at"] = time.strftime("%Y-%m-%d %H:%M:%S")
            meta["rechecked_verif_commit"] = sh("git rev-parse --short HEAD", cwd=VERIF)[1].strip()
            meta["rechecked_tier"] = a.tier
            for pid in a.also:
                if pid != meta["property"]:
                    meta.setdefault("also", {})[pid] = run_check(pid, wt, a.tier)
            json.dump(meta, open(os.path.join(d, "meta.json"), "w"), indent=1)
            print(f"{name}: caught={meta['caught']} input_level_replay={meta['input_level_replay']} ({meta['check_wall_s']}s)")
            for l in meta["check_output"][:4]:
                print("    " + l[:260])
            for pid, r in meta.get("also", {}).items():
                print(f"    also {pid}: caught={r['caught']}")
            if not meta["caught"]:
                rc_all = max(rc_all, 1)
        finally:
            sh(f"git -C /repo worktree remove --force {wt}")
            shutil.rmtree(os.path.join(VERIF, ".cache", "alt-" + hashlib.sha1(wt.encode()).hexdigest()[:10]), ignore_errors=True)
    sys.exit(rc_all)


if __name__ == "__main__":
    main()
